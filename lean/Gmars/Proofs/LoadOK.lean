/-
  C10 "the load-file reader rejects what it cannot represent":
  properties of the model of the Go load-file reader (Gmars/Model/Load.lean).
-/
import Gmars.Model.Load
import Gmars.Spec.Legal88
import Gmars.Spec.LoadText

namespace Gmars
open GoStr

/-! ## 1. decoding helpers and the '88 validation table -/

/-- the opcodes `getOpCode88` can produce -/
def ops88 : List Op := [.dat, .mov, .add, .sub, .jmp, .jmz, .jmn, .djn, .cmp, .slt, .spl]

theorem getOpCode88_range {s : Str} {op : Op} (h : getOpCode88 s = some op) : op ∈ ops88 := by
  unfold getOpCode88 at h
  split at h <;> first | (cases h; decide) | (cases h)

theorem getAddressMode88_range {s : Str} {m : Mode} (h : getAddressMode88 s = some m) :
    Spec.mode88 m = true := by
  unfold getAddressMode88 at h
  split at h <;> first | (cases h; rfl) | (cases h)

/-- on '88 modes the Go validation and the table agree (for every opcode) -/
theorem validate88_eq (op : Op) (am bm : Mode) :
    Spec.mode88 am = true → Spec.mode88 bm = true →
    getOpModeAndValidate88 op am bm = Spec.implied88 op am bm := by
  cases am <;> first | (intro h; exact absurd h (by decide)) | skip
  all_goals cases bm <;> first | (intro _ h; exact absurd h (by decide)) | skip
  all_goals cases op <;> decide

/-- the table only has '88 modes and `getOpCode88` opcodes -/
theorem implied88_isSome {op : Op} {am bm : Mode} :
    (Spec.implied88 op am bm).isSome = true →
    Spec.mode88 am = true ∧ Spec.mode88 bm = true ∧ op ∈ ops88 := by
  cases op <;> cases am <;> cases bm <;> decide

theorem validate88_sound {op : Op} {am bm : Mode} {md : Modifier}
    (h : getOpModeAndValidate88 op am bm = some md)
    (ha : Spec.mode88 am = true) (hb : Spec.mode88 bm = true) (_hop : op ∈ ops88) :
    Spec.implied88 op am bm = some md := by
  rw [← validate88_eq op am bm ha hb]; exact h

theorem validate88_complete {op : Op} {am bm : Mode} {md : Modifier}
    (h : Spec.implied88 op am bm = some md)
    (ha : Spec.mode88 am = true) (hb : Spec.mode88 bm = true) (_hop : op ∈ ops88) :
    getOpModeAndValidate88 op am bm = some md := by
  rw [validate88_eq op am bm ha hb]; exact h

/-- completeness without side conditions: whatever the table allows, Go accepts -/
theorem validate88_complete' {op : Op} {am bm : Mode} {md : Modifier}
    (h : Spec.implied88 op am bm = some md) :
    getOpModeAndValidate88 op am bm = some md := by
  obtain ⟨ha, hb, _⟩ := implied88_isSome (op := op) (am := am) (bm := bm) (by rw [h]; rfl)
  rw [validate88_eq op am bm ha hb]; exact h

/-! ## 2. parseAddress -/

theorem redInt_lt (x : Int) (m : Nat) (hm : 0 < m) :
    (if x.tmod (m : Int) < 0 then ((m : Int) + x.tmod m).tmod m else x.tmod m).toNat < m := by
  have h1 := Int.tmod_lt_of_pos x (b := (m : Int)) (by omega)
  have h2 := Int.lt_tmod_of_pos x (b := (m : Int)) (by omega)
  generalize x.tmod (m : Int) = r at *
  split
  · rw [Int.tmod_eq_of_lt (by omega) (by omega)]; omega
  · omega

theorem parseAddress_lt' {s : Str} {coresize v : UInt64} (h0 : coresize ≠ 0)
    (h : parseAddress s coresize = .ok (some v)) : v < coresize := by
  unfold parseAddress at h
  split at h
  · cases h
  · rename_i x hx
    have : (coresize == 0) = false := by simpa using h0
    simp only [this] at h
    simp only [Bool.false_eq_true, if_false, Except.ok.injEq, Option.some.injEq] at h
    subst h
    have hm : 0 < coresize.toNat := by
      rcases Nat.eq_zero_or_pos coresize.toNat with h | h
      · exact absurd (UInt64.toNat_inj.mp (by simpa using h)) h0
      · exact h
    have := redInt_lt x coresize.toNat hm
    rw [UInt64.lt_iff_toNat_lt, UInt64.toNat_ofNat']
    have := coresize.toNat_lt
    rw [Nat.mod_eq_of_lt (by omega)]
    assumption

theorem parseAddress_lt {s : Str} {coresize v : UInt64} (h0 : coresize ≠ 0)
    (_h63 : coresize.toNat < 2 ^ 63)
    (h : parseAddress s coresize = .ok (some v)) : v < coresize :=
  parseAddress_lt' h0 h

theorem parseAddress_no_panic {s : Str} {coresize : UInt64} (h0 : coresize ≠ 0) :
    ∃ r, parseAddress s coresize = .ok r := by
  unfold parseAddress
  split
  · exact ⟨_, rfl⟩
  · have : (coresize == 0) = false := by simpa using h0
    simp only [this]
    exact ⟨_, rfl⟩

/-- a successful `parseAddress` implies a non-zero core size -/
theorem parseAddress_some_ne {s : Str} {coresize v : UInt64}
    (h : parseAddress s coresize = .ok (some v)) : coresize ≠ 0 := by
  intro h0
  subst h0
  unfold parseAddress at h
  split at h
  · cases h
  · simp at h

theorem parseAddress_lt'' {s : Str} {coresize v : UInt64}
    (h : parseAddress s coresize = .ok (some v)) : v < coresize :=
  parseAddress_lt' (parseAddress_some_ne h) h

/-! ## string lemmas -/

theorem ofNat_range : ∀ n : Fin 26, (Char.ofNat (n.val + 65 + 32)).toNat = n.val + 97 := by decide

theorem lowerChar_eq_iff {c d : Char} (hd : d.toNat < 65) : lowerChar c = d ↔ c = d := by
  unfold lowerChar
  split
  · rename_i h
    have h1 : 65 ≤ c.toNat := by have := Char.le_def.mp h.1; exact this
    have h2 : c.toNat ≤ 90 := by have := Char.le_def.mp h.2; exact this
    have := ofNat_range ⟨c.toNat - 65, by omega⟩
    simp only [] at this
    rw [show c.toNat - 65 + 65 + 32 = c.toNat + 32 by omega] at this
    constructor
    · intro e; rw [e] at this; omega
    · intro e; subst e; omega
  · split
    · rename_i h
      have hc : c.toNat = 304 := by simpa using h
      constructor
      · intro e; subst e; exact absurd hd (by decide)
      · intro e; subst e; omega
    · split
      · rename_i h
        have hc : c.toNat = 8490 := by simpa using h
        constructor
        · intro e; subst e; exact absurd hd (by decide)
        · intro e; subst e; omega
      · rfl

theorem takeWhile_ne_of_not_contains (s : Str) (c : Char) (h : containsChar s c = false) :
    s.takeWhile (· != c) = s := by
  induction s with
  | nil => rfl
  | cons x xs ih =>
    simp only [containsChar, List.contains_cons, Bool.or_eq_false_iff] at h
    have hx : (x != c) = true := by
      have := h.1; simp only [bne, Bool.not_eq_true']; rw [BEq.comm]; exact this
    rw [List.takeWhile_cons, if_pos hx, ih h.2]

theorem lowerStrip (raw : Str) :
    (if containsChar (toLower raw) ';' = true then beforeChar (toLower raw) ';' else toLower raw)
      = toLower (raw.takeWhile (· != ';')) := by
  have e : beforeChar (toLower raw) ';' = toLower (raw.takeWhile (· != ';')) := by
    unfold beforeChar toLower
    rw [List.takeWhile_map]
    congr 1
    congr 1
    funext c
    simp only [Function.comp, bne]
    congr 1
    have := @lowerChar_eq_iff c ';' (by decide)
    by_cases hc : c = ';'
    · subst hc; rfl
    · have h2 : ¬ lowerChar c = ';' := fun e => hc (this.mp e)
      rw [beq_eq_false_iff_ne.mpr h2, beq_eq_false_iff_ne.mpr hc]
  split
  · exact e
  · rename_i h
    rw [← e]
    exact (takeWhile_ne_of_not_contains _ _ (by simpa using h)).symm

theorem contains_toLower (s : Str) {d : Char} (hd : d.toNat < 65) :
    containsChar (toLower s) d = s.contains d := by
  unfold containsChar toLower
  induction s with
  | nil => rfl
  | cons x xs ih =>
    simp only [List.map_cons, List.contains_cons, ih]
    congr 1
    have := @lowerChar_eq_iff x d hd
    by_cases hc : x = d
    · subst hc; simp [this.mpr rfl]
    · have h2 : ¬ lowerChar x = d := fun e => hc (this.mp e)
      have h3 : ¬ d = lowerChar x := fun e => h2 e.symm
      have h4 : ¬ d = x := fun e => hc e.symm
      rw [beq_eq_false_iff_ne.mpr h3, beq_eq_false_iff_ne.mpr h4]

/-! ## the two line readers, with the field list abstracted -/

/-- the lower-cased line with its comment stripped -/
def lowerOf (raw : Str) : Str := toLower (raw.takeWhile (· != ';'))

def body94 (coresize : UInt64) (st : LoadState) (fs : List Str) (comma : Bool) :
    Except Panic LineOutcome :=
    match fs with
    | [f0, f1, f2, f3, f4] =>
      if !comma then .ok .fail else
      match getOp94 f0 with
      | none => .ok .fail
      | some (op, md) =>
      match getAddressMode f1 with
      | none => .ok .fail
      | some am => do
      match ← parseAddress f2 coresize with
      | none => .ok .fail
      | some a =>
      match getAddressMode f3 with
      | none => .ok .fail
      | some bm => do
      match ← parseAddress f4 coresize with
      | none => .ok .fail
      | some b => .ok (.cont { st with code := st.code.push { op, md, am, a, bm, b } })
    | [] => if comma then .ok .fail else .ok (.cont st)
    | f0 :: rest =>
      if rest.isEmpty && f0 == "end".toList then .ok (.stop st)
      else if f0 != "org".toList then .ok .fail
      else match rest with
        | [f1] =>
          match parseInt f1 32 with
          | none => .ok .fail
          | some v => if v < 0 then .ok .fail else .ok (.cont { st with start := v })
        | _ => .ok .fail

theorem line94_eq (cs : UInt64) (st : LoadState) (raw : Str) :
    line94 cs st raw =
      if raw.head? == some ';' then .ok (.cont (metaLine st raw (toLower raw)))
      else body94 cs st (fields (replaceComma (lowerOf raw))) (containsChar (lowerOf raw) ',') := by
  unfold line94
  simp only [lowerStrip]
  rfl

def body88 (coresize : UInt64) (st : LoadState) (fs : List Str) (comma : Bool) :
    Except Panic LineOutcome :=
    match fs with
    | [f0, f1, f2, f3, f4] =>
      if !comma then .ok .fail else
      match getOpCode88 f0 with
      | none => .ok .fail
      | some op =>
      match getAddressMode88 f1 with
      | none => .ok .fail
      | some am => do
      match ← parseAddress f2 coresize with
      | none => .ok .fail
      | some a =>
      match getAddressMode88 f3 with
      | none => .ok .fail
      | some bm => do
      match ← parseAddress f4 coresize with
      | none => .ok .fail
      | some b =>
      match getOpModeAndValidate88 op am bm with
      | none => .ok .fail
      | some md => .ok (.cont { st with code := st.code.push { op, md, am, a, bm, b } })
    | [] => if comma then .ok .fail else .ok (.cont st)
    | f0 :: rest =>
      if f0 != "end".toList && f0 != "org".toList then .ok .fail
      else if rest.length > 1 then .ok .fail
      else match rest with
        | [] => if f0 == "org".toList then .ok .fail else .ok (.stop st)
        | f1 :: _ =>
          match parseInt f1 32 with
          | none => .ok .fail
          | some v =>
            if v < 0 || (f0 != "org".toList && v > st.code.size) then .ok .fail
            else
              let st := { st with start := v }
              if f0 == "end".toList then .ok (.stop st) else .ok (.cont st)

theorem line88_eq (cs : UInt64) (st : LoadState) (raw : Str) :
    line88 cs st raw =
      if raw.head? == some ';' then .ok (.cont (metaLine st raw (toLower raw)))
      else body88 cs st (fields (replaceComma (lowerOf raw))) (containsChar (lowerOf raw) ',') := by
  unfold line88
  simp only [lowerStrip]
  rfl

theorem getOpCode88_end : getOpCode88 "end".toList = none := by decide
theorem getOpCode88_org : getOpCode88 "org".toList = none := by decide
inductive Kind | skip | instr | org | fin
  deriving DecidableEq, Repr

def kindOf (fs : List Str) (comma : Bool) : Kind :=
  if fs.isEmpty && !comma then .skip
  else match fs.head? with
    | some h => if h == "end".toList then .fin else if h == "org".toList then .org else .instr
    | none => .instr

def LineOK (cs : UInt64) (legacy : Bool) (k : Kind) (st : LoadState) : LineOutcome → Prop
  | .fail => True
  | .cont st' =>
      (k = .instr ∧ st'.start = st.start ∧ ∃ i, st'.code = st.code.push i ∧ i.a < cs ∧ i.b < cs ∧
          (legacy = true → Spec.Legal88 i = true))
      ∨ ((k = .skip ∨ k = .org) ∧ st'.code = st.code ∧ (st'.start = st.start ∨ 0 ≤ st'.start))
  | .stop st' => k = .fin ∧ st'.code = st.code ∧ (st'.start = st.start ∨ 0 ≤ st'.start)

theorem kindOf_cons_instr {f0 : Str} {rest : List Str} {c : Bool}
    (h1 : f0 ≠ "end".toList) (h2 : f0 ≠ "org".toList) : kindOf (f0 :: rest) c = .instr := by
  simp only [kindOf, List.isEmpty_cons, Bool.false_and, List.head?_cons,
    beq_eq_false_iff_ne.mpr h1, beq_eq_false_iff_ne.mpr h2]
  rfl

theorem getOpCode88_ne {f0 : Str} {x : Op} (h : getOpCode88 f0 = some x) :
    f0 ≠ "end".toList ∧ f0 ≠ "org".toList := by
  constructor
  · intro e; subst e; rw [getOpCode88_end] at h; cases h
  · intro e; subst e; rw [getOpCode88_org] at h; cases h

theorem body88_ok {cs : UInt64} {st : LoadState} {fs : List Str} {comma : Bool} {o : LineOutcome}
    (h : body88 cs st fs comma = .ok o) : LineOK cs true (kindOf fs comma) st o := by
  unfold body88 at h
  split at h
  · -- instruction
    rename_i f0 f1 f2 f3 f4
    split at h
    · cases h; trivial
    split at h
    · cases h; trivial
    rename_i op hop
    split at h
    · cases h; trivial
    rename_i am ham
    simp only [bind, Except.bind] at h
    split at h
    · cases h
    rename_i ra hra
    split at h
    · cases h; trivial
    rename_i a
    split at h
    · cases h; trivial
    rename_i bm hbm
    split at h
    · cases h
    rename_i rb hrb
    split at h
    · cases h; trivial
    rename_i b
    split at h
    · cases h; trivial
    rename_i md hmd
    cases h
    left
    refine ⟨?_, rfl, _, rfl, parseAddress_lt'' hra, parseAddress_lt'' hrb, ?_⟩
    · exact kindOf_cons_instr (getOpCode88_ne hop).1 (getOpCode88_ne hop).2
    · intro _
      have := validate88_sound hmd (getAddressMode88_range ham) (getAddressMode88_range hbm)
        (getOpCode88_range hop)
      simp only [Spec.Legal88, this, beq_self_eq_true]
  · split at h
    · cases h; trivial
    · rename_i hc
      cases h
      right
      refine ⟨Or.inl ?_, rfl, Or.inl rfl⟩
      simp [kindOf, hc]
  · rename_i f0 rest hne
    split at h
    · cases h; trivial
    rename_i hk
    have hk' : f0 = "end".toList ∨ f0 = "org".toList := by
      by_cases e1 : f0 = "end".toList
      · exact Or.inl e1
      · by_cases e2 : f0 = "org".toList
        · exact Or.inr e2
        · exact absurd (by simp only [bne_iff_ne, ne_eq, Bool.and_eq_true]; exact ⟨e1, e2⟩) hk
    split at h
    · cases h; trivial
    split at h
    · split at h
      · cases h; trivial
      · rename_i horg
        cases h
        refine ⟨?_, rfl, Or.inl rfl⟩
        rcases hk' with e | e
        · subst e; rfl
        · subst e; exact absurd rfl horg
    · rename_i f1 tl
      split at h
      · cases h; trivial
      split at h
      · cases h; trivial
      rename_i v hv hneg
      simp only [] at h
      have hv0 : 0 ≤ v := by
        simp only [Bool.or_eq_true, decide_eq_true_eq, not_or] at hneg
        omega
      split at h
      · rename_i he
        cases h
        simp only [beq_iff_eq] at he
        subst he
        exact ⟨rfl, rfl, Or.inr hv0⟩
      · rename_i he
        cases h
        right
        refine ⟨Or.inr ?_, rfl, Or.inr hv0⟩
        rcases hk' with e | e
        · subst e; exact absurd rfl he
        · subst e; rfl
theorem body88_no_panic {cs : UInt64} (h0 : cs ≠ 0) (st : LoadState) (fs : List Str) (comma : Bool) :
    ∃ o, body88 cs st fs comma = .ok o := by
  unfold body88
  split
  · rename_i f0 f1 f2 f3 f4
    obtain ⟨ra, hra⟩ := parseAddress_no_panic (s := f2) h0
    obtain ⟨rb, hrb⟩ := parseAddress_no_panic (s := f4) h0
    simp only [bind, Except.bind, hra, hrb]
    repeat' split
    all_goals exact ⟨_, rfl⟩
  · split <;> exact ⟨_, rfl⟩
  · repeat' split
    all_goals exact ⟨_, rfl⟩

theorem getOp94_end : getOp94 "end".toList = none := by decide
theorem getOp94_org : getOp94 "org".toList = none := by decide

theorem getOp94_ne {f0 : Str} {x : Op × Modifier} (h : getOp94 f0 = some x) :
    f0 ≠ "end".toList ∧ f0 ≠ "org".toList := by
  constructor
  · intro e; subst e; rw [getOp94_end] at h; cases h
  · intro e; subst e; rw [getOp94_org] at h; cases h

theorem body94_ok {cs : UInt64} {st : LoadState} {fs : List Str} {comma : Bool} {o : LineOutcome}
    (h : body94 cs st fs comma = .ok o) : LineOK cs false (kindOf fs comma) st o := by
  unfold body94 at h
  split at h
  · -- instruction
    rename_i f0 f1 f2 f3 f4
    split at h
    · cases h; trivial
    split at h
    · cases h; trivial
    rename_i op md hop
    split at h
    · cases h; trivial
    rename_i am ham
    simp only [bind, Except.bind] at h
    split at h
    · cases h
    rename_i ra hra
    split at h
    · cases h; trivial
    rename_i a
    split at h
    · cases h; trivial
    rename_i bm hbm
    split at h
    · cases h
    rename_i rb hrb
    split at h
    · cases h; trivial
    rename_i b
    cases h
    left
    refine ⟨?_, rfl, _, rfl, parseAddress_lt'' hra, parseAddress_lt'' hrb, by intro h; cases h⟩
    exact kindOf_cons_instr (getOp94_ne hop).1 (getOp94_ne hop).2
  · split at h
    · cases h; trivial
    · rename_i hc
      cases h
      right
      refine ⟨Or.inl ?_, rfl, Or.inl rfl⟩
      simp [kindOf, hc]
  · rename_i f0 rest hne
    split at h
    · rename_i he
      cases h
      simp only [Bool.and_eq_true, List.isEmpty_iff, beq_iff_eq] at he
      refine ⟨?_, rfl, Or.inl rfl⟩
      rw [he.1, he.2]; rfl
    rename_i hnotend
    split at h
    · cases h; trivial
    rename_i horg
    split at h
    · rename_i f1
      split at h
      · cases h; trivial
      split at h
      · cases h; trivial
      rename_i v hv hneg
      cases h
      right
      refine ⟨Or.inr ?_, rfl, Or.inr (by simpa using hneg)⟩
      simp only [bne_iff_ne, ne_eq, Decidable.not_not] at horg
      subst horg
      rfl
    · cases h; trivial

theorem body94_no_panic {cs : UInt64} (h0 : cs ≠ 0) (st : LoadState) (fs : List Str) (comma : Bool) :
    ∃ o, body94 cs st fs comma = .ok o := by
  unfold body94
  split
  · rename_i f0 f1 f2 f3 f4
    obtain ⟨ra, hra⟩ := parseAddress_no_panic (s := f2) h0
    obtain ⟨rb, hrb⟩ := parseAddress_no_panic (s := f4) h0
    simp only [bind, Except.bind, hra, hrb]
    repeat' split
    all_goals exact ⟨_, rfl⟩
  · split <;> exact ⟨_, rfl⟩
  · repeat' split
    all_goals exact ⟨_, rfl⟩

/-- classification of a raw line, as `Spec.significantInstrLines` sees it -/
def kind (raw : Str) : Kind :=
  kindOf (fields (replaceComma (lowerOf raw))) (containsChar (lowerOf raw) ',')

theorem metaLine_code (st : LoadState) (raw lower : Str) :
    (metaLine st raw lower).code = st.code ∧ (metaLine st raw lower).start = st.start := by
  unfold metaLine
  repeat' split
  all_goals exact ⟨rfl, rfl⟩

theorem kind_comment {raw : Str} (h : (raw.head? == some ';') = true) : kind raw = .skip := by
  cases raw with
  | nil => cases h
  | cons c t =>
    simp only [List.head?_cons, beq_iff_eq, Option.some.injEq] at h
    subst h
    rfl

theorem line94_ok {cs : UInt64} {st : LoadState} {raw : Str} {o : LineOutcome}
    (h : line94 cs st raw = .ok o) : LineOK cs false (kind raw) st o := by
  rw [line94_eq] at h
  split at h
  · rename_i hc
    cases h
    right
    exact ⟨Or.inl (kind_comment hc), (metaLine_code _ _ _).1, Or.inl (metaLine_code _ _ _).2⟩
  · exact body94_ok h

theorem line88_ok {cs : UInt64} {st : LoadState} {raw : Str} {o : LineOutcome}
    (h : line88 cs st raw = .ok o) : LineOK cs true (kind raw) st o := by
  rw [line88_eq] at h
  split at h
  · rename_i hc
    cases h
    right
    exact ⟨Or.inl (kind_comment hc), (metaLine_code _ _ _).1, Or.inl (metaLine_code _ _ _).2⟩
  · exact body88_ok h

theorem line94_no_panic {cs : UInt64} (h0 : cs ≠ 0) (st : LoadState) (raw : Str) :
    ∃ o, line94 cs st raw = .ok o := by
  rw [line94_eq]
  split
  · exact ⟨_, rfl⟩
  · exact body94_no_panic h0 _ _ _

theorem line88_no_panic {cs : UInt64} (h0 : cs ≠ 0) (st : LoadState) (raw : Str) :
    ∃ o, line88 cs st raw = .ok o := by
  rw [line88_eq]
  split
  · exact ⟨_, rfl⟩
  · exact body88_no_panic h0 _ _ _

/-! ## the loop -/

theorem loadLoop_no_panic {f : LoadState → Str → Except Panic LineOutcome}
    (hf : ∀ st raw, ∃ o, f st raw = .ok o) :
    ∀ (ls : List Str) (st : LoadState), ∃ r, loadLoop f st ls = .ok r := by
  intro ls
  induction ls with
  | nil => intro st; exact ⟨_, rfl⟩
  | cons l ls ih =>
    intro st
    obtain ⟨o, ho⟩ := hf st l
    unfold loadLoop
    simp only [bind, Except.bind, ho]
    cases o with
    | cont st' => exact ih st'
    | stop st' => exact ⟨_, rfl⟩
    | fail => exact ⟨_, rfl⟩

/-- the loop invariant -/
def Inv (cs : UInt64) (legacy : Bool) (st : LoadState) : Prop :=
  0 ≤ st.start ∧ ∀ i ∈ st.code.toList, i.a < cs ∧ i.b < cs ∧ (legacy = true → Spec.Legal88 i = true)

/-- instruction count by line kinds -/
def countK : List Str → Nat → Nat × Bool
  | [], n => (n, false)
  | l :: ls, n =>
    match kind l with
    | .skip => countK ls n
    | .instr => countK ls (n + 1)
    | .org => countK ls n
    | .fin => (n, true)

theorem loadLoop_ok {cs : UInt64} {legacy : Bool} {f : LoadState → Str → Except Panic LineOutcome}
    (hf : ∀ st raw o, f st raw = .ok o → LineOK cs legacy (kind raw) st o) :
    ∀ (ls : List Str) (st st' : LoadState), loadLoop f st ls = .ok (some st') →
      Inv cs legacy st → Inv cs legacy st' ∧ st'.code.size = (countK ls st.code.size).1 := by
  intro ls
  induction ls with
  | nil =>
    intro st st' h hi
    simp only [loadLoop, Except.ok.injEq, Option.some.injEq] at h
    subst h
    exact ⟨hi, rfl⟩
  | cons l ls ih =>
    intro st st' h hi
    unfold loadLoop at h
    simp only [bind, Except.bind] at h
    split at h
    · cases h
    rename_i o ho
    have hk := hf _ _ _ ho
    cases o with
    | fail => cases h
    | stop st1 =>
      simp only [Except.ok.injEq, Option.some.injEq] at h
      subst h
      obtain ⟨hk1, hk2, hk3⟩ := hk
      refine ⟨⟨?_, ?_⟩, ?_⟩
      · rcases hk3 with e | e
        · rw [e]; exact hi.1
        · exact e
      · rw [hk2]; exact hi.2
      · simp only [countK, hk1, hk2]
    | cont st1 =>
      simp only [] at h
      rcases hk with ⟨hk1, hk2, i, hk3, hk4, hk5, hk6⟩ | ⟨hk1, hk2, hk3⟩
      · have hi1 : Inv cs legacy st1 := by
          refine ⟨by rw [hk2]; exact hi.1, ?_⟩
          intro j hj
          rw [hk3, Array.toList_push, List.mem_append, List.mem_singleton] at hj
          rcases hj with hj | hj
          · exact hi.2 j hj
          · subst hj; exact ⟨hk4, hk5, hk6⟩
        obtain ⟨r1, r2⟩ := ih st1 st' h hi1
        refine ⟨r1, ?_⟩
        rw [r2, hk3, Array.size_push]
        simp only [countK, hk1]
      · have hi1 : Inv cs legacy st1 := by
          refine ⟨?_, by rw [hk2]; exact hi.2⟩
          rcases hk3 with e | e
          · rw [e]; exact hi.1
          · exact e
        obtain ⟨r1, r2⟩ := ih st1 st' h hi1
        refine ⟨r1, ?_⟩
        rw [r2, hk2]
        rcases hk1 with e | e <;> simp only [countK, e]


/-! ## connection with `Spec.significantInstrLines` -/

theorem sig_go_step (p : List Str × Str → Bool)
    (hp : ∀ fs r, p (fs, r) = (!fs.isEmpty || r.contains ','))
    (fs : List Str) (r : Str) (rest : List (List Str × Str)) (n : Nat) :
    Spec.significantInstrLines.go (List.filter p ((fs, r) :: rest)) n =
      match kindOf fs (r.contains ',') with
      | .skip => Spec.significantInstrLines.go (List.filter p rest) n
      | .instr => Spec.significantInstrLines.go (List.filter p rest) (n + 1)
      | .org => Spec.significantInstrLines.go (List.filter p rest) n
      | .fin => (n, true) := by
  cases fs with
  | nil =>
    cases hc : r.contains ','
    · have : p ([], r) = false := by rw [hp, hc]; rfl
      simp only [List.filter_cons, this, kindOf]
      rfl
    · have : p ([], r) = true := by rw [hp, hc]; rfl
      simp only [List.filter_cons, this, kindOf]
      rfl
  | cons h t =>
    have : p (h :: t, r) = true := by rw [hp]; rfl
    simp only [List.filter_cons, this, kindOf, if_true, Spec.significantInstrLines.go,
      List.head?_cons, List.isEmpty_cons, Bool.false_and]
    by_cases e1 : h = "end".toList
    · subst e1; rfl
    · by_cases e2 : h = "org".toList
      · subst e2; rfl
      · simp only [beq_eq_false_iff_ne.mpr e1, beq_eq_false_iff_ne.mpr e2]
        rfl

theorem significantInstrLines_eq (text : Str) :
    Spec.significantInstrLines text = countK (readLines text) 0 := by
  unfold Spec.significantInstrLines
  simp only [List.zip_map']
  generalize readLines text = L
  generalize 0 = n
  induction L generalizing n with
  | nil => rfl
  | cons l ls ih =>
    rw [List.map_cons, sig_go_step _ (fun _ _ => rfl)]
    have hk : kindOf (fields (replaceComma (toLower (List.takeWhile (fun x => x != ';') l))))
        ((List.takeWhile (fun x => x != ';') l).contains ',') = kind l := by
      unfold kind lowerOf
      rw [contains_toLower _ (by decide)]
    rw [hk]
    unfold countK
    cases kind l <;> simp only [ih]


/-! ## main theorems -/

theorem load_no_panic {cfg : Config} (h0 : cfg.coreSize ≠ 0) (text : Str) :
    ∃ r, parseLoadFile cfg text = .ok r := by
  unfold parseLoadFile
  have hl : ∃ r, loadLoop (if (cfg.mode == .icws88) = true then line88 cfg.coreSize
      else line94 cfg.coreSize) {} (readLines text) = .ok r := by
    apply loadLoop_no_panic
    intro st raw
    split
    · exact line88_no_panic h0 st raw
    · exact line94_no_panic h0 st raw
  obtain ⟨r, hr⟩ := hl
  simp only [bind, Except.bind, hr]
  cases r <;> exact ⟨_, rfl⟩

/-- what a successful load gives, in terms of the final loop state -/
theorem parseLoadFile_some {cfg : Config} {text : Str} {w : WarriorData}
    (h : parseLoadFile cfg text = .ok (some w)) :
    ∃ st, Inv cfg.coreSize (cfg.mode == .icws88) st ∧
      st.code.size = (countK (readLines text) 0).1 ∧
      finish (cfg.mode == .icws88) st = some w := by
  unfold parseLoadFile at h
  simp only [bind, Except.bind] at h
  split at h
  · cases h
  rename_i r hr
  cases r with
  | none => cases h
  | some st =>
    simp only [Except.ok.injEq] at h
    refine ⟨st, ?_, ?_, h⟩
    all_goals
      have hf : ∀ st raw o, (if (cfg.mode == .icws88) = true then line88 cfg.coreSize
          else line94 cfg.coreSize) st raw = .ok o →
          LineOK cfg.coreSize (cfg.mode == .icws88) (kind raw) st o := by
        intro st raw o ho
        split at ho
        · rename_i hm; rw [hm]; exact line88_ok ho
        · rename_i hm
          rw [Bool.not_eq_true] at hm
          rw [hm]; exact line94_ok ho
      have := loadLoop_ok hf _ _ _ hr ⟨Int.le_refl 0, by intro i hi; cases hi⟩
    · exact this.1
    · exact this.2

theorem finish_some {legacy : Bool} {st : LoadState} {w : WarriorData}
    (h : finish legacy st = some w) (hs : 0 ≤ st.start) :
    w.code = st.code ∧ w.start = st.start ∧
    ((st.code.size = 0 ∧ st.start = 0) ∨ (0 ≤ st.start ∧ st.start < st.code.size)) := by
  unfold finish at h
  cases legacy
  · simp only [Bool.false_eq_true, if_false] at h
    split at h
    · cases h
    rename_i hb
    simp only [Option.some.injEq] at h
    subst h
    simp only [decide_eq_true_eq] at hb
    exact ⟨rfl, rfl, Or.inr (by omega)⟩
  · simp only [if_true] at h
    split at h
    · cases h
    rename_i hb
    simp only [Option.some.injEq] at h
    subst h
    simp only [Bool.and_eq_true, bne_iff_ne, ne_eq, decide_eq_true_eq, not_and] at hb
    refine ⟨rfl, rfl, ?_⟩
    by_cases e : st.start = 0
    · by_cases e2 : st.code.size = 0
      · exact Or.inl ⟨e2, e⟩
      · right; omega
    · right; have := hb e; omega

theorem load_ok_wf {cfg : Config} {text : Str} {w : WarriorData}
    (_h0 : cfg.coreSize ≠ 0) (_h63 : cfg.coreSize.toNat < 2 ^ 63)
    (h : parseLoadFile cfg text = .ok (some w)) :
    ((w.code.size = 0 ∧ w.start = 0) ∨ (0 ≤ w.start ∧ w.start < w.code.size)) ∧
    (∀ i ∈ w.code.toList, i.a < cfg.coreSize ∧ i.b < cfg.coreSize) ∧
    (cfg.mode = .icws88 → ∀ i ∈ w.code.toList, Spec.Legal88 i = true) := by
  obtain ⟨st, hi, _, hfin⟩ := parseLoadFile_some h
  obtain ⟨e1, e2, e3⟩ := finish_some hfin hi.1
  rw [e1, e2]
  refine ⟨e3, fun i hm => ⟨(hi.2 i hm).1, (hi.2 i hm).2.1⟩, ?_⟩
  intro hm i hmem
  exact (hi.2 i hmem).2.2 (by rw [hm]; rfl)

theorem no_silent_skip {cfg : Config} {text : Str} {w : WarriorData}
    (h : parseLoadFile cfg text = .ok (some w)) :
    w.code.size = (Spec.significantInstrLines text).1 := by
  obtain ⟨st, hi, hn, hfin⟩ := parseLoadFile_some h
  obtain ⟨e1, _, _⟩ := finish_some hfin hi.1
  rw [e1, hn, significantInstrLines_eq]


end Gmars
