/-
  C10 for the byte-level load-file reader `parseLoadFileU` (Gmars/Model/LoadU.lean), for EVERY
  byte string: `loadU_no_panic`, `loadU_ok_wf`, `loadU_no_silent_skip`.

  The non-metadata part of a line is the function `body94` / `body88` of Gmars/Proofs/LoadOK.lean
  applied to the fields of the line (`body94_toL`): the only differences with the ASCII reader
  are how the fields are cut (`fieldsU`: Unicode white space) and the type of the metadata, which
  the body never touches.  The per-line facts `body94_ok`, `body94_no_panic` … are therefore
  reused, and only the loop lemmas are restated for the byte-level state.
-/
import Gmars.Model.LoadU
import Gmars.Proofs.LoadOK
import Gmars.Spec.LoadTextU

namespace Gmars
open GoStr GoStrU

/-! ## `runesW` cuts a byte string into the runes `decodeRunes` delivers -/

theorem runesW_fst (s : Bytes) : (runesW s).map (·.1) = runes s := by
  unfold runes
  generalize hn : s.length = n
  induction n using Nat.strongRecOn generalizing s with
  | _ n ih =>
    cases s with
    | nil => rw [runesW, decodeRunes]; rfl
    | cons b0 rest =>
      rw [runesW, decodeRunes]
      simp only [List.map_cons]
      congr 1
      exact ih _ (by subst hn; simp only [List.length_drop, List.length_cons]; omega) _ rfl

theorem runesW_flatten (s : Bytes) : ((runesW s).map (·.2)).flatten = s := by
  generalize hn : s.length = n
  induction n using Nat.strongRecOn generalizing s with
  | _ n ih =>
    cases s with
    | nil => rw [runesW]; rfl
    | cons b0 rest =>
      rw [runesW]
      simp only [List.map_cons, List.flatten_cons, List.cons_append]
      rw [ih _ (by subst hn; simp only [List.length_drop, List.length_cons]; omega) _ rfl,
        List.take_append_drop]

/-! ## the byte-level state seen as a state of the ASCII reader -/

/-- bytes as characters U+0000..U+00FF (injective; the identity embedding on ASCII) -/
def embB (b : Bytes) : Str := b.map (fun x => Char.ofNat x.toNat)

def LoadStateB.toL (s : LoadStateB) : LoadState :=
  { name := embB s.name, author := embB s.author, strategy := embB s.strategy,
    code := s.code, start := s.start }

def LineOutcomeB.toL : LineOutcomeB → LineOutcome
  | .cont s => .cont s.toL
  | .stop s => .stop s.toL
  | .fail => .fail

/-! ## the two line readers, with the field list abstracted -/

def body94U (coresize : UInt64) (st : LoadStateB) (fs : List Str) (comma : Bool) :
    Except Panic LineOutcomeB :=
    match fs with
    | [f0, f1, f2, f3, f4] =>
      if !comma then .ok .fail else
      match getOp94 f0 with
      | none => .ok .fail
      | some (op, md) =>
      match getAddressMode f1 with
      | none => .ok .fail
      | some am => do
      match ← parseAddress f2 coresize with
      | none => .ok .fail
      | some a =>
      match getAddressMode f3 with
      | none => .ok .fail
      | some bm => do
      match ← parseAddress f4 coresize with
      | none => .ok .fail
      | some b => .ok (.cont { st with code := st.code.push { op, md, am, a, bm, b } })
    | [] => if comma then .ok .fail else .ok (.cont st)
    | f0 :: rest =>
      if rest.isEmpty && f0 == "end".toList then .ok (.stop st)
      else if f0 != "org".toList then .ok .fail
      else match rest with
        | [f1] =>
          match parseInt f1 32 with
          | none => .ok .fail
          | some v => if v < 0 then .ok .fail else .ok (.cont { st with start := v })
        | _ => .ok .fail

def body88U (coresize : UInt64) (st : LoadStateB) (fs : List Str) (comma : Bool) :
    Except Panic LineOutcomeB :=
    match fs with
    | [f0, f1, f2, f3, f4] =>
      if !comma then .ok .fail else
      match getOpCode88 f0 with
      | none => .ok .fail
      | some op =>
      match getAddressMode88 f1 with
      | none => .ok .fail
      | some am => do
      match ← parseAddress f2 coresize with
      | none => .ok .fail
      | some a =>
      match getAddressMode88 f3 with
      | none => .ok .fail
      | some bm => do
      match ← parseAddress f4 coresize with
      | none => .ok .fail
      | some b =>
      match getOpModeAndValidate88 op am bm with
      | none => .ok .fail
      | some md => .ok (.cont { st with code := st.code.push { op, md, am, a, bm, b } })
    | [] => if comma then .ok .fail else .ok (.cont st)
    | f0 :: rest =>
      if f0 != "end".toList && f0 != "org".toList then .ok .fail
      else if rest.length > 1 then .ok .fail
      else match rest with
        | [] => if f0 == "org".toList then .ok .fail else .ok (.stop st)
        | f1 :: _ =>
          match parseInt f1 32 with
          | none => .ok .fail
          | some v =>
            if v < 0 || (f0 != "org".toList && v > st.code.size) then .ok .fail
            else
              let st := { st with start := v }
              if f0 == "end".toList then .ok (.stop st) else .ok (.cont st)

/-- the fields and the comma flag of a raw line -/
def fieldsOfU (raw : Bytes) : List Str := fieldsU (replaceComma (lowerOf (runes raw)))
def commaOfU (raw : Bytes) : Bool := containsChar (lowerOf (runes raw)) ','

theorem line94U_eq (cs : UInt64) (st : LoadStateB) (raw : Bytes) :
    line94U cs st raw =
      if raw.head? == some 0x3B then .ok (.cont (metaLineU st raw (toLowerRunes raw)))
      else body94U cs st (fieldsOfU raw) (commaOfU raw) := by
  unfold line94U toLowerRunes fieldsOfU commaOfU
  simp only [lowerStrip]
  rfl

theorem line88U_eq (cs : UInt64) (st : LoadStateB) (raw : Bytes) :
    line88U cs st raw =
      if raw.head? == some 0x3B then .ok (.cont (metaLineU st raw (toLowerRunes raw)))
      else body88U cs st (fieldsOfU raw) (commaOfU raw) := by
  unfold line88U toLowerRunes fieldsOfU commaOfU
  simp only [lowerStrip]
  rfl

/-- the body of the '94 reader IS `body94` of the ASCII reader on the same fields -/
theorem body94_toL (cs : UInt64) (s : LoadStateB) (fs : List Str) (comma : Bool) :
    body94 cs s.toL fs comma = (body94U cs s fs comma).map LineOutcomeB.toL := by
  fun_cases body94U cs s fs comma <;>
    simp_all [body94, Except.map, LineOutcomeB.toL, LoadStateB.toL, bind, Except.bind]
  rename_i f0 f1 f2 f3 f4 op md am _ _ _
  rcases parseAddress f2 cs with e | (_ | a) <;> simp only []
  rcases getAddressMode f3 with _ | bm <;> simp only []
  rcases parseAddress f4 cs with e | (_ | b) <;> simp only []

theorem body88_toL (cs : UInt64) (s : LoadStateB) (fs : List Str) (comma : Bool) :
    body88 cs s.toL fs comma = (body88U cs s fs comma).map LineOutcomeB.toL := by
  fun_cases body88U cs s fs comma <;>
    first
    | (simp_all [body88, Except.map, LineOutcomeB.toL, LoadStateB.toL, bind, Except.bind]; done)
    | skip
  · rename_i f0 f1 f2 f3 f4 hc op hop am ham
    simp only [body88, hc, hop, ham, Except.map, bind, Except.bind]
    rcases parseAddress f2 cs with e | (_ | a) <;> simp only []
    · rfl
    · rfl
    rcases getAddressMode88 f3 with _ | bm <;> simp only []
    · rfl
    rcases parseAddress f4 cs with e | (_ | b) <;> simp only []
    · rfl
    · rfl
    rcases getOpModeAndValidate88 op am bm with _ | md <;> simp only []
    · rfl
    · rfl
  · rename_i f0 hk f1 tl v hv hneg st he hx hlen
    have htl : tl = [] := by
      cases tl with
      | nil => rfl
      | cons a b => simp at hlen
    subst htl
    simp only [beq_iff_eq] at he
    subst he
    have hneg' : (decide (v < 0) || "end".toList != "org".toList && decide (v > ↑s.toL.code.size)) = false :=
      Bool.eq_false_iff.mpr hneg
    simp only [body88, hv, hneg']
    rfl
  · rename_i f0 hk f1 tl v hv hneg st he hx hlen
    have htl : tl = [] := by
      cases tl with
      | nil => rfl
      | cons a b => simp at hlen
    subst htl
    have hneg' : (decide (v < 0) || f0 != "org".toList && decide (v > ↑s.toL.code.size)) = false :=
      Bool.eq_false_iff.mpr hneg
    have hk' : (f0 != "end".toList && f0 != "org".toList) = false := Bool.eq_false_iff.mpr hk
    have he' : (f0 == "end".toList) = false := Bool.eq_false_iff.mpr he
    simp only [body88, hv, hneg', hk', he']
    rfl

/-! ## per-line facts -/

/-- classification of a raw line, as `Spec.significantInstrLinesU` sees it -/
def kindU (raw : Bytes) : Kind := kindOf (fieldsOfU raw) (commaOfU raw)

/-- `LineOK` (Gmars/Proofs/LoadOK.lean) for the byte-level state -/
def LineOKU (cs : UInt64) (legacy : Bool) (k : Kind) (st : LoadStateB) : LineOutcomeB → Prop
  | .fail => True
  | .cont st' =>
      (k = .instr ∧ st'.start = st.start ∧ ∃ i, st'.code = st.code.push i ∧ i.a < cs ∧ i.b < cs ∧
          (legacy = true → Spec.Legal88 i = true))
      ∨ ((k = .skip ∨ k = .org) ∧ st'.code = st.code ∧ (st'.start = st.start ∨ 0 ≤ st'.start))
  | .stop st' => k = .fin ∧ st'.code = st.code ∧ (st'.start = st.start ∨ 0 ≤ st'.start)

theorem LineOKU_of {cs : UInt64} {legacy : Bool} {k : Kind} {st : LoadStateB} {o : LineOutcomeB}
    (h : LineOK cs legacy k st.toL o.toL) : LineOKU cs legacy k st o := by
  cases o <;> exact h

theorem map_toL_ok {x : Except Panic LineOutcomeB} {o : LineOutcomeB} (h : x = .ok o) :
    x.map LineOutcomeB.toL = .ok o.toL := by
  subst h; rfl

theorem body94U_ok {cs : UInt64} {st : LoadStateB} {fs : List Str} {comma : Bool}
    {o : LineOutcomeB} (h : body94U cs st fs comma = .ok o) :
    LineOKU cs false (kindOf fs comma) st o :=
  LineOKU_of (body94_ok (by rw [body94_toL]; exact map_toL_ok h))

theorem body88U_ok {cs : UInt64} {st : LoadStateB} {fs : List Str} {comma : Bool}
    {o : LineOutcomeB} (h : body88U cs st fs comma = .ok o) :
    LineOKU cs true (kindOf fs comma) st o :=
  LineOKU_of (body88_ok (by rw [body88_toL]; exact map_toL_ok h))

theorem body94U_no_panic {cs : UInt64} (h0 : cs ≠ 0) (st : LoadStateB) (fs : List Str)
    (comma : Bool) : ∃ o, body94U cs st fs comma = .ok o := by
  obtain ⟨o, ho⟩ := body94_no_panic h0 st.toL fs comma
  rw [body94_toL] at ho
  cases hb : body94U cs st fs comma with
  | error e => rw [hb] at ho; cases ho
  | ok o' => exact ⟨o', rfl⟩

theorem body88U_no_panic {cs : UInt64} (h0 : cs ≠ 0) (st : LoadStateB) (fs : List Str)
    (comma : Bool) : ∃ o, body88U cs st fs comma = .ok o := by
  obtain ⟨o, ho⟩ := body88_no_panic h0 st.toL fs comma
  rw [body88_toL] at ho
  cases hb : body88U cs st fs comma with
  | error e => rw [hb] at ho; cases ho
  | ok o' => exact ⟨o', rfl⟩

theorem metaLineU_code (st : LoadStateB) (raw : Bytes) (lower : Str) :
    (metaLineU st raw lower).code = st.code ∧ (metaLineU st raw lower).start = st.start := by
  unfold metaLineU
  repeat' split
  all_goals exact ⟨rfl, rfl⟩

/-- a byte below 0x80 is a rune of its own -/
theorem runes_cons_ascii (b : UInt8) (t : Bytes) (h : b < 0x80) :
    runes (b :: t) = Char.ofNat b.toNat :: runes t := by
  unfold runes
  rw [decodeRunes]
  simp [Utf8.decodeRune, h]

theorem kindU_comment {raw : Bytes} (h : (raw.head? == some 0x3B) = true) : kindU raw = .skip := by
  cases raw with
  | nil => cases h
  | cons c t =>
    simp only [List.head?_cons, beq_iff_eq, Option.some.injEq] at h
    subst h
    unfold kindU fieldsOfU commaOfU lowerOf
    rw [runes_cons_ascii _ _ (by decide)]
    rfl

theorem line94U_ok {cs : UInt64} {st : LoadStateB} {raw : Bytes} {o : LineOutcomeB}
    (h : line94U cs st raw = .ok o) : LineOKU cs false (kindU raw) st o := by
  rw [line94U_eq] at h
  split at h
  · rename_i hc
    cases h
    right
    exact ⟨Or.inl (kindU_comment hc), (metaLineU_code _ _ _).1, Or.inl (metaLineU_code _ _ _).2⟩
  · exact body94U_ok h

theorem line88U_ok {cs : UInt64} {st : LoadStateB} {raw : Bytes} {o : LineOutcomeB}
    (h : line88U cs st raw = .ok o) : LineOKU cs true (kindU raw) st o := by
  rw [line88U_eq] at h
  split at h
  · rename_i hc
    cases h
    right
    exact ⟨Or.inl (kindU_comment hc), (metaLineU_code _ _ _).1, Or.inl (metaLineU_code _ _ _).2⟩
  · exact body88U_ok h

theorem line94U_no_panic {cs : UInt64} (h0 : cs ≠ 0) (st : LoadStateB) (raw : Bytes) :
    ∃ o, line94U cs st raw = .ok o := by
  rw [line94U_eq]
  split
  · exact ⟨_, rfl⟩
  · exact body94U_no_panic h0 _ _ _

theorem line88U_no_panic {cs : UInt64} (h0 : cs ≠ 0) (st : LoadStateB) (raw : Bytes) :
    ∃ o, line88U cs st raw = .ok o := by
  rw [line88U_eq]
  split
  · exact ⟨_, rfl⟩
  · exact body88U_no_panic h0 _ _ _

/-! ## the loop -/

theorem loadLoopU_no_panic {f : LoadStateB → Bytes → Except Panic LineOutcomeB}
    (hf : ∀ st raw, ∃ o, f st raw = .ok o) :
    ∀ (ls : List Bytes) (st : LoadStateB), ∃ r, loadLoopU f st ls = .ok r := by
  intro ls
  induction ls with
  | nil => intro st; exact ⟨_, rfl⟩
  | cons l ls ih =>
    intro st
    obtain ⟨o, ho⟩ := hf st l
    unfold loadLoopU
    simp only [bind, Except.bind, ho]
    cases o with
    | cont st' => exact ih st'
    | stop st' => exact ⟨_, rfl⟩
    | fail => exact ⟨_, rfl⟩

/-- the loop invariant -/
def InvU (cs : UInt64) (legacy : Bool) (st : LoadStateB) : Prop :=
  0 ≤ st.start ∧ ∀ i ∈ st.code.toList, i.a < cs ∧ i.b < cs ∧ (legacy = true → Spec.Legal88 i = true)

/-- instruction count by line kinds -/
def countKU : List Bytes → Nat → Nat × Bool
  | [], n => (n, false)
  | l :: ls, n =>
    match kindU l with
    | .skip => countKU ls n
    | .instr => countKU ls (n + 1)
    | .org => countKU ls n
    | .fin => (n, true)

theorem loadLoopU_ok {cs : UInt64} {legacy : Bool}
    {f : LoadStateB → Bytes → Except Panic LineOutcomeB}
    (hf : ∀ st raw o, f st raw = .ok o → LineOKU cs legacy (kindU raw) st o) :
    ∀ (ls : List Bytes) (st st' : LoadStateB), loadLoopU f st ls = .ok (some st') →
      InvU cs legacy st → InvU cs legacy st' ∧ st'.code.size = (countKU ls st.code.size).1 := by
  intro ls
  induction ls with
  | nil =>
    intro st st' h hi
    simp only [loadLoopU, Except.ok.injEq, Option.some.injEq] at h
    subst h
    exact ⟨hi, rfl⟩
  | cons l ls ih =>
    intro st st' h hi
    unfold loadLoopU at h
    simp only [bind, Except.bind] at h
    split at h
    · cases h
    rename_i o ho
    have hk := hf _ _ _ ho
    cases o with
    | fail => cases h
    | stop st1 =>
      simp only [Except.ok.injEq, Option.some.injEq] at h
      subst h
      obtain ⟨hk1, hk2, hk3⟩ := hk
      refine ⟨⟨?_, ?_⟩, ?_⟩
      · rcases hk3 with e | e
        · rw [e]; exact hi.1
        · exact e
      · rw [hk2]; exact hi.2
      · simp only [countKU, hk1, hk2]
    | cont st1 =>
      simp only [] at h
      rcases hk with ⟨hk1, hk2, i, hk3, hk4, hk5, hk6⟩ | ⟨hk1, hk2, hk3⟩
      · have hi1 : InvU cs legacy st1 := by
          refine ⟨by rw [hk2]; exact hi.1, ?_⟩
          intro j hj
          rw [hk3, Array.toList_push, List.mem_append, List.mem_singleton] at hj
          rcases hj with hj | hj
          · exact hi.2 j hj
          · subst hj; exact ⟨hk4, hk5, hk6⟩
        obtain ⟨r1, r2⟩ := ih st1 st' h hi1
        refine ⟨r1, ?_⟩
        rw [r2, hk3, Array.size_push]
        simp only [countKU, hk1]
      · have hi1 : InvU cs legacy st1 := by
          refine ⟨?_, by rw [hk2]; exact hi.2⟩
          rcases hk3 with e | e
          · rw [e]; exact hi.1
          · exact e
        obtain ⟨r1, r2⟩ := ih st1 st' h hi1
        refine ⟨r1, ?_⟩
        rw [r2, hk2]
        rcases hk1 with e | e <;> simp only [countKU, e]

/-! ## connection with `Spec.significantInstrLinesU` -/

theorem significantInstrLinesU_eq (text : Bytes) :
    Spec.significantInstrLinesU text = countKU (readLinesB text) 0 := by
  unfold Spec.significantInstrLinesU
  generalize readLinesB text = L
  generalize 0 = n
  induction L generalizing n with
  | nil => rfl
  | cons l ls ih =>
    rw [List.map_cons, sig_go_step _ (fun _ _ => rfl)]
    have hk : kindOf (fieldsU (replaceComma (toLower (List.takeWhile (fun x => x != ';') (runes l)))))
        ((List.takeWhile (fun x => x != ';') (runes l)).contains ',') = kindU l := by
      unfold kindU fieldsOfU commaOfU lowerOf
      rw [contains_toLower _ (by decide)]
    rw [hk]
    unfold countKU
    cases kindU l <;> simp only [ih]

/-! ## main theorems -/

/-- `loadU_no_panic`: for EVERY byte string, reading a load file terminates and never panics,
    under any configuration with a non-zero core size -/
theorem loadU_no_panic {cfg : Config} (h0 : cfg.coreSize ≠ 0) (text : Bytes) :
    ∃ r, parseLoadFileU cfg text = .ok r := by
  unfold parseLoadFileU
  have hl : ∃ r, loadLoopU (if (cfg.mode == .icws88) = true then line88U cfg.coreSize
      else line94U cfg.coreSize) {} (readLinesB text) = .ok r := by
    apply loadLoopU_no_panic
    intro st raw
    split
    · exact line88U_no_panic h0 st raw
    · exact line94U_no_panic h0 st raw
  obtain ⟨r, hr⟩ := hl
  simp only [bind, Except.bind, hr]
  cases r <;> exact ⟨_, rfl⟩

/-- what a successful load gives, in terms of the final loop state -/
theorem parseLoadFileU_some {cfg : Config} {text : Bytes} {w : WarriorDataB}
    (h : parseLoadFileU cfg text = .ok (some w)) :
    ∃ st, InvU cfg.coreSize (cfg.mode == .icws88) st ∧
      st.code.size = (countKU (readLinesB text) 0).1 ∧
      finishU (cfg.mode == .icws88) st = some w := by
  unfold parseLoadFileU at h
  simp only [bind, Except.bind] at h
  split at h
  · cases h
  rename_i r hr
  cases r with
  | none => cases h
  | some st =>
    simp only [Except.ok.injEq] at h
    refine ⟨st, ?_, ?_, h⟩
    all_goals
      have hf : ∀ st raw o, (if (cfg.mode == .icws88) = true then line88U cfg.coreSize
          else line94U cfg.coreSize) st raw = .ok o →
          LineOKU cfg.coreSize (cfg.mode == .icws88) (kindU raw) st o := by
        intro st raw o ho
        split at ho
        · rename_i hm; rw [hm]; exact line88U_ok ho
        · rename_i hm
          rw [Bool.not_eq_true] at hm
          rw [hm]; exact line94U_ok ho
      have := loadLoopU_ok hf _ _ _ hr ⟨Int.le_refl 0, by intro i hi; cases hi⟩
    · exact this.1
    · exact this.2

theorem finishU_some {legacy : Bool} {st : LoadStateB} {w : WarriorDataB}
    (h : finishU legacy st = some w) (hs : 0 ≤ st.start) :
    w.code = st.code ∧ w.start = st.start ∧
    ((st.code.size = 0 ∧ st.start = 0) ∨ (0 ≤ st.start ∧ st.start < st.code.size)) := by
  unfold finishU at h
  cases legacy
  · simp only [Bool.false_eq_true, if_false] at h
    split at h
    · cases h
    rename_i hb
    simp only [Option.some.injEq] at h
    subst h
    simp only [decide_eq_true_eq] at hb
    exact ⟨rfl, rfl, Or.inr (by omega)⟩
  · simp only [if_true] at h
    split at h
    · cases h
    rename_i hb
    simp only [Option.some.injEq] at h
    subst h
    simp only [Bool.and_eq_true, bne_iff_ne, ne_eq, decide_eq_true_eq, not_and] at hb
    refine ⟨rfl, rfl, ?_⟩
    by_cases e : st.start = 0
    · by_cases e2 : st.code.size = 0
      · exact Or.inl ⟨e2, e⟩
      · right; omega
    · right; have := hb e; omega

/-- `loadU_ok_wf`: whatever the bytes, an accepted warrior has its entry point inside its code (or
    zero when empty), all fields below the core size, and under ICWS'88 only legal '88
    instructions with the implied modifier -/
theorem loadU_ok_wf {cfg : Config} {text : Bytes} {w : WarriorDataB}
    (_h0 : cfg.coreSize ≠ 0) (_h63 : cfg.coreSize.toNat < 2 ^ 63)
    (h : parseLoadFileU cfg text = .ok (some w)) :
    ((w.code.size = 0 ∧ w.start = 0) ∨ (0 ≤ w.start ∧ w.start < w.code.size)) ∧
    (∀ i ∈ w.code.toList, i.a < cfg.coreSize ∧ i.b < cfg.coreSize) ∧
    (cfg.mode = .icws88 → ∀ i ∈ w.code.toList, Spec.Legal88 i = true) := by
  obtain ⟨st, hi, _, hfin⟩ := parseLoadFileU_some h
  obtain ⟨e1, e2, e3⟩ := finishU_some hfin hi.1
  rw [e1, e2]
  refine ⟨e3, fun i hm => ⟨(hi.2 i hm).1, (hi.2 i hm).2.1⟩, ?_⟩
  intro hm i hmem
  exact (hi.2 i hmem).2.2 (by rw [hm]; rfl)

/-- `loadU_no_silent_skip`: an accepted read produced exactly one instruction for every
    non-blank, non-comment line before the end marker that is not an ORG/END directive -/
theorem loadU_no_silent_skip {cfg : Config} {text : Bytes} {w : WarriorDataB}
    (h : parseLoadFileU cfg text = .ok (some w)) :
    w.code.size = (Spec.significantInstrLinesU text).1 := by
  obtain ⟨st, hi, hn, hfin⟩ := parseLoadFileU_some h
  obtain ⟨e1, _, _⟩ := finishU_some hfin hi.1
  rw [e1, hn, significantInstrLinesU_eq]

end Gmars
