/-
  `parseLoadFileU_ascii`: on an ASCII byte string the byte-level reader `parseLoadFileU` and the
  ASCII reader `parseLoadFile` (Gmars/Model/Load.lean) agree, the metadata being mapped through
  the embedding of bytes into characters.
-/
import Gmars.Proofs.LoadU

namespace Gmars
open GoStr GoStrU Unicode

/-! ## characters of ASCII bytes -/

def embC (b : UInt8) : Char := Char.ofNat b.toNat

theorem embB_eq (s : Bytes) : embB s = s.map embC := rfl

def AsciiB (s : Bytes) : Prop := ∀ b ∈ s, b < 0x80
def AsciiS (s : Str) : Prop := ∀ c ∈ s, c.toNat < 128

set_option maxRecDepth 20000 in
theorem ofNat_toNat_fin256 : ∀ n : Fin 256, (Char.ofNat n.val).toNat = n.val := by decide

theorem embC_toNat (b : UInt8) : (embC b).toNat = b.toNat :=
  ofNat_toNat_fin256 ⟨b.toNat, b.toNat_lt⟩

theorem embC_inj {a b : UInt8} (h : embC a = embC b) : a = b := by
  have := congrArg Char.toNat h
  rw [embC_toNat, embC_toNat] at this
  exact UInt8.toNat_inj.mp this

theorem embC_beq (a b : UInt8) : (embC a == embC b) = (a == b) := by
  by_cases h : a = b
  · subst h; simp
  · have : embC a ≠ embC b := fun e => h (embC_inj e)
    rw [beq_eq_false_iff_ne.mpr h, beq_eq_false_iff_ne.mpr this]

theorem embC_semicolon : embC 0x3B = ';' := by decide
theorem embC_newline : embC 0x0A = '\n' := by decide

theorem asciiS_embB {s : Bytes} (h : AsciiB s) : AsciiS (embB s) := by
  intro c hc
  rw [embB_eq, List.mem_map] at hc
  obtain ⟨b, hb, rfl⟩ := hc
  rw [embC_toNat]
  exact UInt8.lt_iff_toNat_lt.mp (h b hb)

theorem lower_fin128 : ∀ n : Fin 128, (lowerChar (Char.ofNat n.val)).toNat < 128 := by decide

theorem lowerChar_ascii {c : Char} (h : c.toNat < 128) : (lowerChar c).toNat < 128 := by
  have := lower_fin128 ⟨c.toNat, h⟩
  simpa [Char.ofNat_toNat] using this

theorem isSpaceU_ascii {c : Char} (h : c.toNat < 128) : isSpaceU c = isAsciiSpace c := by
  have hv : c.val < 0x80 := UInt32.lt_iff_toNat_lt.mpr h
  simp [isSpaceU, isAsciiSpace, hv]

/-! ## decoding ASCII bytes -/

theorem runes_ascii {s : Bytes} (h : AsciiB s) : runes s = embB s := by
  induction s with
  | nil => unfold runes; rw [decodeRunes]; rfl
  | cons b t ih =>
    rw [runes_cons_ascii b t (h b (List.mem_cons_self ..)),
      ih (fun x hx => h x (List.mem_cons_of_mem _ hx))]
    rfl

theorem runesW_ascii {s : Bytes} (h : AsciiB s) : runesW s = s.map (fun b => (embC b, [b])) := by
  induction s with
  | nil => rw [runesW]; rfl
  | cons b t ih =>
    have hb : b < 0x80 := h b (List.mem_cons_self ..)
    rw [runesW]
    simp only [Utf8.decodeRune, hb, if_true, Nat.sub_self, List.take_zero, List.drop_zero,
      List.map_cons]
    rw [ih (fun x hx => h x (List.mem_cons_of_mem _ hx))]
    rfl

/-! ## TrimSpace and Fields on ASCII -/

theorem dropWhile_congr_mem {α} {p q : α → Bool} {l : List α} (h : ∀ x ∈ l, p x = q x) :
    l.dropWhile p = l.dropWhile q := by
  induction l with
  | nil => rfl
  | cons a t ih =>
    simp only [List.dropWhile_cons, h a (List.mem_cons_self ..)]
    split
    · exact ih (fun x hx => h x (List.mem_cons_of_mem _ hx))
    · rfl

theorem trimSpaceU_ascii {s : Bytes} (h : AsciiB s) : embB (trimSpaceU s) = trimSpace (embB s) := by
  have hp : ∀ x ∈ s, (spW ∘ fun b => (embC b, [b])) x = (isAsciiSpace ∘ embC) x := by
    intro x hx
    simp only [Function.comp, spW]
    apply isSpaceU_ascii
    rw [embC_toNat]
    exact UInt8.lt_iff_toNat_lt.mp (h x hx)
  have hsub : ∀ x ∈ (s.dropWhile (isAsciiSpace ∘ embC)).reverse, x ∈ s := by
    intro x hx
    exact (List.dropWhile_sublist _).subset (List.mem_reverse.mp hx)
  unfold trimSpaceU trimSpace trimLeft
  rw [runesW_ascii h, embB_eq, embB_eq]
  simp only [List.dropWhile_map, ← List.map_reverse, List.map_map]
  rw [dropWhile_congr_mem hp, dropWhile_congr_mem (fun x hx => hp x (hsub x hx))]
  have : ∀ l : Bytes, (l.map ((fun x : Char × Bytes => x.2) ∘ fun b => (embC b, [b]))).flatten = l := by
    intro l
    induction l with
    | nil => rfl
    | cons a t ih => simp only [List.map_cons, List.flatten_cons, Function.comp, ih]; rfl
  rw [this]

theorem fieldsU_go_ascii (s cur : Str) (acc : List Str) (h : AsciiS s) :
    fieldsU.go s cur acc = fields.go s cur acc := by
  induction s generalizing cur acc with
  | nil => rfl
  | cons c t ih =>
    have ht : AsciiS t := fun x hx => h x (List.mem_cons_of_mem _ hx)
    simp only [fieldsU.go, fields.go, isSpaceU_ascii (h c (List.mem_cons_self ..))]
    split
    · exact ih _ _ ht
    · exact ih _ _ ht

theorem fieldsU_ascii {s : Str} (h : AsciiS s) : fieldsU s = fields s :=
  fieldsU_go_ascii s [] [] h

theorem asciiS_lowerOf {s : Str} (h : AsciiS s) : AsciiS (lowerOf s) := by
  intro c hc
  unfold lowerOf toLower at hc
  rw [List.mem_map] at hc
  obtain ⟨a, ha, rfl⟩ := hc
  exact lowerChar_ascii (h a ((List.takeWhile_sublist _).subset ha))

theorem asciiS_replaceComma {s : Str} (h : AsciiS s) : AsciiS (replaceComma s) := by
  intro c hc
  unfold replaceComma at hc
  rw [List.mem_map] at hc
  obtain ⟨a, ha, rfl⟩ := hc
  split
  · decide
  · exact h a ha

/-! ## one line -/

theorem head_embB (raw : Bytes) : ((embB raw).head? == some ';') = (raw.head? == some 0x3B) := by
  cases raw with
  | nil => rfl
  | cons b t =>
    simp only [embB_eq, List.map_cons, List.head?_cons, ← embC_semicolon]
    have := embC_beq b 0x3B
    by_cases h : b = 0x3B
    · subst h; rfl
    · have h2 : embC b ≠ embC 0x3B := fun e => h (embC_inj e)
      have h3 : some (embC b) ≠ some (embC 0x3B) := fun e => h2 (Option.some.inj e)
      have h4 : some b ≠ some (0x3B : UInt8) := fun e => h (Option.some.inj e)
      rw [beq_eq_false_iff_ne.mpr h3, beq_eq_false_iff_ne.mpr h4]

theorem metaLine_toL (st : LoadStateB) (raw : Bytes) (lower : Str) (h : AsciiB raw) :
    metaLine st.toL (embB raw) lower = (metaLineU st raw lower).toL := by
  have hd : ∀ n, AsciiB (raw.drop n) := fun n x hx => h x ((List.drop_sublist n raw).subset hx)
  unfold metaLine metaLineU
  split
  · simp only [LoadStateB.toL, trimSpaceU_ascii (hd 5)]
    simp only [embB_eq, List.map_drop]
  · split
    · simp only [LoadStateB.toL, trimSpaceU_ascii (hd 7)]
      simp only [embB_eq, List.map_drop]
    · have hl : (embB raw).length = raw.length := by rw [embB_eq, List.length_map]
      rw [hl]
      split
      · simp only [LoadStateB.toL]
        rw [embB_eq (st.strategy ++ _), List.map_append, List.map_drop]
        rfl
      · rfl

theorem line94_toL (cs : UInt64) (st : LoadStateB) (raw : Bytes) (h : AsciiB raw) :
    line94 cs st.toL (embB raw) = (line94U cs st raw).map LineOutcomeB.toL := by
  have hf : AsciiS (replaceComma (lowerOf (embB raw))) :=
    asciiS_replaceComma (asciiS_lowerOf (asciiS_embB h))
  rw [line94_eq, line94U_eq, head_embB]
  unfold fieldsOfU commaOfU toLowerRunes
  rw [runes_ascii h, fieldsU_ascii hf]
  split
  · rw [metaLine_toL _ _ _ h]; rfl
  · exact body94_toL _ _ _ _

theorem line88_toL (cs : UInt64) (st : LoadStateB) (raw : Bytes) (h : AsciiB raw) :
    line88 cs st.toL (embB raw) = (line88U cs st raw).map LineOutcomeB.toL := by
  have hf : AsciiS (replaceComma (lowerOf (embB raw))) :=
    asciiS_replaceComma (asciiS_lowerOf (asciiS_embB h))
  rw [line88_eq, line88U_eq, head_embB]
  unfold fieldsOfU commaOfU toLowerRunes
  rw [runes_ascii h, fieldsU_ascii hf]
  split
  · rw [metaLine_toL _ _ _ h]; rfl
  · exact body88_toL _ _ _ _

/-! ## the lines -/

theorem readLines_go_embB (s cur : Bytes) (acc : List Bytes) :
    readLines.go (embB s) (embB cur) (acc.map embB) = (readLinesB.go s cur acc).map embB := by
  induction s generalizing cur acc with
  | nil =>
    simp only [embB_eq, List.map_nil, readLines.go, readLinesB.go, List.isEmpty_map]
    split
    · rw [List.map_reverse]
    · simp only [embB_eq, List.map_reverse, List.map_cons]
  | cons b t ih =>
    have e : (embC b == '\n') = (b == 0x0A) := by rw [← embC_newline]; exact embC_beq b 0x0A
    simp only [embB_eq, List.map_cons, readLines.go, readLinesB.go, e]
    split
    · have := ih [] ((b :: cur).reverse :: acc)
      simp only [embB_eq, List.map_cons, List.map_reverse, List.map_nil] at this
      exact this
    · have := ih (b :: cur) acc
      simp only [embB_eq, List.map_cons] at this
      exact this

theorem readLines_embB (s : Bytes) : readLines (embB s) = (readLinesB s).map embB :=
  readLines_go_embB s [] []

theorem readLinesB_go_ascii (s cur : Bytes) (acc : List Bytes)
    (hs : AsciiB s) (hc : AsciiB cur) (ha : ∀ l ∈ acc, AsciiB l) :
    ∀ l ∈ readLinesB.go s cur acc, AsciiB l := by
  induction s generalizing cur acc with
  | nil =>
    intro l hl
    simp only [readLinesB.go] at hl
    split at hl
    · exact ha l (List.mem_reverse.mp hl)
    · rcases List.mem_cons.mp (List.mem_reverse.mp hl) with e | e
      · subst e; intro x hx; exact hc x (List.mem_reverse.mp hx)
      · exact ha l e
  | cons b t ih =>
    have hb : b < 0x80 := hs b (List.mem_cons_self ..)
    have ht : AsciiB t := fun x hx => hs x (List.mem_cons_of_mem _ hx)
    have hbc : AsciiB (b :: cur) := by
      intro x hx
      rcases List.mem_cons.mp hx with e | e
      · subst e; exact hb
      · exact hc x e
    simp only [readLinesB.go]
    split
    · apply ih _ _ ht (by intro x hx; cases hx)
      intro l hl
      rcases List.mem_cons.mp hl with e | e
      · subst e; intro x hx; exact hbc x (List.mem_reverse.mp hx)
      · exact ha l e
    · exact ih _ _ ht hbc ha

theorem readLinesB_ascii {s : Bytes} (h : AsciiB s) : ∀ l ∈ readLinesB s, AsciiB l :=
  readLinesB_go_ascii s [] [] h (by intro x hx; cases hx) (by intro x hx; cases hx)

/-! ## the loop and the final check -/

theorem loadLoop_toL {f : LoadState → Str → Except Panic LineOutcome}
    {g : LoadStateB → Bytes → Except Panic LineOutcomeB} (ls : List Bytes)
    (hfg : ∀ l ∈ ls, ∀ st, f st.toL (embB l) = (g st l).map LineOutcomeB.toL) (st : LoadStateB) :
    loadLoop f st.toL (ls.map embB) = (loadLoopU g st ls).map (Option.map LoadStateB.toL) := by
  induction ls generalizing st with
  | nil => rfl
  | cons l ls ih =>
    have ih' := ih (fun x hx => hfg x (List.mem_cons_of_mem _ hx))
    simp only [List.map_cons, loadLoop, loadLoopU, bind, Except.bind,
      hfg l (List.mem_cons_self ..) st]
    cases g st l with
    | error e => rfl
    | ok o =>
      cases o with
      | cont st' => exact ih' st'
      | stop st' => rfl
      | fail => rfl

/-- the metadata of a byte-level warrior read as text (bytes as characters U+0000..U+00FF; for
    an ASCII file this is the text itself) -/
def WarriorDataB.toW (w : WarriorDataB) : WarriorData :=
  { name := String.ofList (embB w.name), author := String.ofList (embB w.author),
    strategy := String.ofList (embB w.strategy), code := w.code, start := w.start }

theorem finish_toL (legacy : Bool) (st : LoadStateB) :
    finish legacy st.toL = (finishU legacy st).map WarriorDataB.toW := by
  unfold finish finishU
  simp only [LoadStateB.toL]
  cases legacy <;> simp only [Bool.false_eq_true, if_false, if_true] <;>
    rw [apply_ite (Option.map WarriorDataB.toW)] <;> rfl

theorem init_toL : ({} : LoadStateB).toL = ({} : LoadState) := by
  have h1 : embB (lit "Unknown") = "Unknown".toList := by decide
  have h2 : embB (lit "Anonymous") = "Anonymous".toList := by decide
  simp only [LoadStateB.toL, h1, h2]
  rfl

/-- `parseLoadFileU_ascii`: on ASCII bytes the byte-level reader is the ASCII reader -/
theorem parseLoadFileU_ascii (cfg : Config) (text : Bytes) (h : ∀ b ∈ text, b < 0x80) :
    parseLoadFile cfg (embB text) =
      (parseLoadFileU cfg text).map (Option.map WarriorDataB.toW) := by
  unfold parseLoadFile parseLoadFileU
  have hl := readLinesB_ascii h
  have hloop : loadLoop (if (cfg.mode == .icws88) = true then line88 cfg.coreSize
        else line94 cfg.coreSize) {} (readLines (embB text)) =
      (loadLoopU (if (cfg.mode == .icws88) = true then line88U cfg.coreSize
        else line94U cfg.coreSize) {} (readLinesB text)).map (Option.map LoadStateB.toL) := by
    rw [readLines_embB, ← init_toL]
    apply loadLoop_toL
    intro l hlm st
    split
    · exact line88_toL _ _ _ (hl l hlm)
    · exact line94_toL _ _ _ (hl l hlm)
  simp only [bind, Except.bind, hloop]
  cases loadLoopU (if (cfg.mode == .icws88) = true then line88U cfg.coreSize
        else line94U cfg.coreSize) {} (readLinesB text) with
  | error e => rfl
  | ok r =>
    cases r with
    | none => rfl
    | some st =>
      simp only [Except.map, Option.map, finish_toL]

end Gmars
