/-
  C14, map iteration order: Go ranges over maps in `buildReferenceGraph`, `graphContainsCycle`,
  `expandExpressions` (and `validateSymbols`).  The model iterates an association list in list
  order; here we prove that the results do not depend on that order as long as the keys are
  unique (which they are in a Go map).
-/
import Gmars.Proofs.CompileExpand
import Gmars.Model.Parser

namespace Gmars
namespace MapOrder

open Compile

/-! ## 0. lookups in association lists with unique keys -/

theorem find?_key_iff {β : Type} :
    ∀ {l : List (String × β)} {k : String} {e : String × β}, (l.map (·.1)).Nodup →
      (l.find? (·.1 == k) = some e ↔ e ∈ l ∧ e.1 = k) := by
  intro l
  induction l with
  | nil => intro k e _; simp
  | cons x xs ih =>
    intro k e hnd
    rw [List.map_cons, List.nodup_cons] at hnd
    rw [List.find?_cons]
    by_cases hx : x.1 = k
    · have hb : (x.1 == k) = true := by simpa using hx
      rw [hb]
      simp only [Option.some.injEq, List.mem_cons]
      constructor
      · rintro rfl; exact ⟨Or.inl rfl, hx⟩
      · rintro ⟨h | h, hk⟩
        · exact h.symm
        · exfalso
          apply hnd.1
          rw [hx, ← hk]
          exact List.mem_map.mpr ⟨e, h, rfl⟩
    · have hb : (x.1 == k) = false := by simpa using hx
      rw [hb]
      simp only [List.mem_cons]
      rw [ih hnd.2]
      constructor
      · rintro ⟨h, hk⟩; exact ⟨Or.inr h, hk⟩
      · rintro ⟨h | h, hk⟩
        · subst h; exact absurd hk hx
        · exact ⟨h, hk⟩

/-- looking a key up does not depend on the order of an association list with unique keys -/
theorem find?_key_perm {β : Type} {l l' : List (String × β)} (hp : l'.Perm l)
    (hnd : (l.map (·.1)).Nodup) (k : String) :
    l'.find? (·.1 == k) = l.find? (·.1 == k) := by
  have hnd' : (l'.map (·.1)).Nodup := (hp.map (·.1)).nodup_iff.mpr hnd
  apply Option.ext
  intro e
  rw [find?_key_iff hnd', find?_key_iff hnd, hp.mem_iff]

theorem get?_perm {values values' : SymTab} (hp : values'.Perm values)
    (hnd : (values.map (·.1)).Nodup) (k : String) : values'.get? k = values.get? k := by
  unfold SymTab.get?
  rw [find?_key_perm hp hnd]

/-- membership of a key needs no uniqueness -/
theorem has_perm {values values' : SymTab} (hp : values'.Perm values) (k : String) :
    values'.has k = values.has k := by
  unfold SymTab.has
  rw [Bool.eq_iff_iff, List.find?_isSome, List.find?_isSome]
  constructor
  · rintro ⟨x, hx, h⟩; exact ⟨x, hp.mem_iff.mp hx, h⟩
  · rintro ⟨x, hx, h⟩; exact ⟨x, hp.mem_iff.mpr hx, h⟩

theorem graph_get?_perm {g g' : Graph} (hp : g'.Perm g)
    (hnd : (g.map (·.1)).Nodup) (k : String) : g'.get? k = g.get? k := by
  unfold Graph.get?
  rw [find?_key_perm hp hnd]

/-! ## 1. `buildReferenceGraph` -/

theorem refsOf_perm {values values' : SymTab} (hp : values'.Perm values) (toks : List Token) :
    refsOf values' toks = refsOf values toks := by
  unfold refsOf
  have : (fun (acc : List String) (t : Token) =>
        if (t.typ != .text) = true then acc
        else if values'.has t.val = true then (if acc.contains t.val = true then acc else acc ++ [t.val])
        else acc) =
      (fun (acc : List String) (t : Token) =>
        if (t.typ != .text) = true then acc
        else if values.has t.val = true then (if acc.contains t.val = true then acc else acc ++ [t.val])
        else acc) := by
    funext acc t
    rw [has_perm hp]
  rw [this]

theorem graphEntry_perm {values values' : SymTab} (hp : values'.Perm values) :
    graphEntry values' = graphEntry values := by
  funext e
  unfold graphEntry
  rw [refsOf_perm hp]

/-- 1. the reference graph of a permuted table is the same set of entries (each key with the
    very same adjacency list), permuted the same way.  No uniqueness of keys is needed. -/
theorem graph_perm {values values' : SymTab} (hp : values'.Perm values) :
    (buildReferenceGraph values').Perm (buildReferenceGraph values) := by
  rw [buildReferenceGraph_eq, buildReferenceGraph_eq, graphEntry_perm hp]
  exact hp.filterMap _

/-- the entries of the graph: key and the adjacency list computed from the key's own tokens -/
theorem mem_graph_iff {values : SymTab} {e : String × List String} :
    e ∈ buildReferenceGraph values ↔
      ∃ toks, (e.1, toks) ∈ values ∧ toks ≠ [] ∧ e.2 = refsOf values toks := by
  rw [buildReferenceGraph_eq, List.mem_filterMap]
  constructor
  · rintro ⟨⟨k, toks⟩, hmem, h⟩
    unfold graphEntry at h
    split at h
    · cases h
    · rename_i hne
      cases h
      exact ⟨toks, hmem, by simpa using hne, rfl⟩
  · rintro ⟨toks, hmem, hne, h2⟩
    refine ⟨(e.1, toks), hmem, ?_⟩
    unfold graphEntry
    rw [if_neg (by simpa using hne)]
    cases e
    simp only at h2
    rw [h2]

theorem graphEntry_key {values : SymTab} {e : String × List Token} {x : String × List String}
    (h : graphEntry values e = some x) : x.1 = e.1 := by
  unfold graphEntry at h
  split at h
  · cases h
  · cases h; rfl

theorem filterMap_keys_sublist (vals : SymTab) :
    ∀ l : SymTab, ((l.filterMap (graphEntry vals)).map (·.1)).Sublist (l.map (·.1)) := by
  intro l
  induction l with
  | nil => exact List.Sublist.slnil
  | cons e l ih =>
    rw [List.filterMap_cons]
    cases hg : graphEntry vals e with
    | none => exact List.Sublist.cons _ ih
    | some x =>
      simp only [List.map_cons]
      rw [graphEntry_key hg]
      exact List.Sublist.cons_cons _ ih

/-- the graph has unique keys when the table has -/
theorem graph_nodup {values : SymTab} (hnd : (values.map (·.1)).Nodup) :
    ((buildReferenceGraph values).map (·.1)).Nodup :=
  (filterMap_keys_sublist values values).nodup hnd

/-! ## 2. `graphContainsCycle` -/

/-- the search depends on the graph through its lookups only -/
theorem nodeContainsCycle_congr {g g' : Graph} (h : ∀ k, g'.get? k = g.get? k) :
    ∀ (fuel : Nat) (node : String) (visited : List String),
      nodeContainsCycle fuel node g' visited = nodeContainsCycle fuel node g visited := by
  intro fuel
  induction fuel with
  | zero => intro node visited; rfl
  | succ fuel ih =>
    intro node visited
    unfold nodeContainsCycle
    simp only [h]
    cases g.get? node with
    | none => rfl
    | some refs =>
      simp only
      congr 1
      funext r
      rw [ih]

theorem graphContainsCycle_perm {g g' : Graph} (hp : g'.Perm g) (hnd : (g.map (·.1)).Nodup) :
    graphContainsCycle g' = graphContainsCycle g := by
  unfold graphContainsCycle
  rw [hp.length_eq]
  have : (fun (x : String × List String) =>
        match x with | (k, _) => nodeContainsCycle (g.length + 2) k g' []) =
      (fun (x : String × List String) =>
        match x with | (k, _) => nodeContainsCycle (g.length + 2) k g []) := by
    funext x
    exact nodeContainsCycle_congr (graph_get?_perm hp hnd) _ _ _
  rw [this]
  exact hp.any_eq

/-- 2. whether the cycle check fires does not depend on the order of the table -/
theorem cycle_perm {values values' : SymTab} (hp : values'.Perm values)
    (hnd : (values.map (·.1)).Nodup) :
    graphContainsCycle (buildReferenceGraph values') =
      graphContainsCycle (buildReferenceGraph values) :=
  graphContainsCycle_perm (graph_perm hp) (graph_nodup hnd)

/-! ## 3. `expandExpressions` -/

/-- textual substitution of the resolved symbols into a token list (the `flatMap` of
    `expandValue` and `expandAndEvaluate`) -/
def subst (res : SymTab) (ts : List Token) : List Token :=
  ts.flatMap (fun t =>
    if t.typ == .text then
      match res.get? t.val with
      | some v => v
      | none => [t]
    else [t])

theorem subst_congr {res res' : SymTab} :
    ∀ {ts : List Token}, (∀ t ∈ ts, t.typ = .text → res'.get? t.val = res.get? t.val) →
      subst res' ts = subst res ts := by
  intro ts
  induction ts with
  | nil => intro _; rfl
  | cons t r ih =>
    intro h
    unfold subst at ih ⊢
    rw [List.flatMap_cons, List.flatMap_cons, ih (fun t ht => h t (List.mem_cons_of_mem _ ht))]
    congr 1
    by_cases ht : t.typ = .text
    · rw [h t (List.mem_cons_self ..) ht]
    · have : (t.typ == .text) = false := by simpa using ht
      simp only [this]
      rfl

/-- entries once resolved keep their value -/
def MonoGet (res res' : SymTab) : Prop := ∀ k v, res.get? k = some v → res'.get? k = some v

theorem MonoGet.refl (res : SymTab) : MonoGet res res := fun _ _ h => h

theorem MonoGet.trans {a b c : SymTab} (h1 : MonoGet a b) (h2 : MonoGet b c) : MonoGet a c :=
  fun k v h => h2 k v (h1 k v h)

theorem MonoGet.has {res res' : SymTab} (h : MonoGet res res') {k : String}
    (hk : res.has k = true) : res'.has k = true := by
  rw [SymTab.has_eq] at hk ⊢
  cases hg : res.get? k with
  | none => rw [hg] at hk; cases hk
  | some v => rw [h k v hg]; rfl

theorem fold_none' {β : Type} (π : β → String) (E : String → SymTab → Option SymTab)
    (l : List β) :
    l.foldl (fun (acc : Option SymTab) x =>
      match acc with
      | none => none
      | some r => if r.has (π x) then some r else E (π x) r) none = none := by
  induction l with
  | nil => rfl
  | cons x xs ih => rw [List.foldl_cons]; exact ih

theorem fold_gen {β : Type} (P : SymTab → Prop) (π : β → String)
    (E : String → SymTab → Option SymTab)
    (hE : ∀ dep res res', P res → E dep res = some res' →
      P res' ∧ MonoGet res res' ∧ res'.has dep = true) :
    ∀ (l : List β) (res res' : SymTab), P res →
      l.foldl (fun (acc : Option SymTab) x =>
        match acc with
        | none => none
        | some r => if r.has (π x) then some r else E (π x) r) (some res) = some res' →
      P res' ∧ MonoGet res res' ∧ ∀ x ∈ l, res'.has (π x) = true := by
  intro l
  induction l with
  | nil =>
    intro res res' hinv h
    cases h
    exact ⟨hinv, MonoGet.refl _, fun x hx => by cases hx⟩
  | cons x xs ih =>
    intro res res' hinv h
    rw [List.foldl_cons] at h
    simp only at h
    by_cases hx : res.has (π x) = true
    · rw [if_pos hx] at h
      obtain ⟨h1, h2, h3⟩ := ih res res' hinv h
      refine ⟨h1, h2, ?_⟩
      intro y hy
      rcases List.mem_cons.mp hy with rfl | hy
      · exact h2.has hx
      · exact h3 y hy
    · rw [if_neg hx] at h
      cases hEx : E (π x) res with
      | none => rw [hEx, fold_none'] at h; cases h
      | some r1 =>
        rw [hEx] at h
        obtain ⟨i1, m1, k1⟩ := hE _ _ _ hinv hEx
        obtain ⟨h1, h2, h3⟩ := ih r1 res' i1 h
        refine ⟨h1, m1.trans h2, ?_⟩
        intro y hy
        rcases List.mem_cons.mp hy with rfl | hy
        · exact h2.has k1
        · exact h3 y hy

theorem fold_some {β : Type} (π : β → String) (E : String → SymTab → Option SymTab) :
    ∀ (l : List β), (∀ x ∈ l, ∀ r, ∃ r', E (π x) r = some r') → ∀ res, ∃ res',
      l.foldl (fun (acc : Option SymTab) x =>
        match acc with
        | none => none
        | some r => if r.has (π x) then some r else E (π x) r) (some res) = some res' := by
  intro l
  induction l with
  | nil => intro _ res; exact ⟨res, rfl⟩
  | cons x xs ih =>
    intro hE res
    rw [List.foldl_cons]
    simp only
    have ih' := ih (fun y hy => hE y (List.mem_cons_of_mem _ hy))
    by_cases hx : res.has (π x) = true
    · rw [if_pos hx]; exact ih' res
    · rw [if_neg hx]
      obtain ⟨r1, hr1⟩ := hE x (List.mem_cons_self ..) res
      rw [hr1]
      exact ih' r1

/-- the invariant of the resolved table: every entry is the substitution of the table itself
    into the entry's defining tokens, and everything those tokens refer to is resolved too -/
def Inv (values res : SymTab) : Prop :=
  ∀ k v, res.get? k = some v → ∃ value, values.get? k = some value ∧ v = subst res value ∧
    ∀ t ∈ value, t.typ = .text → values.has t.val = true → res.has t.val = true

theorem Inv_nil (values : SymTab) : Inv values [] := fun k v h => by cases h

theorem has_congr {res res' : SymTab} (h : ∀ k, res'.get? k = res.get? k) (k : String) :
    res'.has k = res.has k := by
  rw [SymTab.has_eq, SymTab.has_eq, h]

theorem Inv_congr {values res res' : SymTab} (h : ∀ k, res'.get? k = res.get? k)
    (hi : Inv values res) : Inv values res' := by
  intro k v hk
  rw [h] at hk
  obtain ⟨value, h1, h2, h3⟩ := hi k v hk
  refine ⟨value, h1, ?_, ?_⟩
  · rw [h2]; exact (subst_congr fun t _ _ => h t.val).symm
  · intro t ht htxt hh
    rw [has_congr h]
    exact h3 t ht htxt hh

theorem has_of_get? {m : SymTab} {k : String} {v : List Token} (h : m.get? k = some v) :
    m.has k = true := by
  rw [SymTab.has_eq, h]; rfl

/-- writing the substituted value of `key` keeps the invariant and all earlier entries -/
theorem Inv_set {values res : SymTab} {key : String} {value : List Token} (hi : Inv values res)
    (hv : values.get? key = some value)
    (hcl : ∀ t ∈ value, t.typ = .text → values.has t.val = true → res.has t.val = true) :
    Inv values (res.set key (subst res value)) ∧ MonoGet res (res.set key (subst res value)) ∧
      (res.set key (subst res value)).has key = true := by
  have hhas : (res.set key (subst res value)).has key = true := by
    rw [SymTab.has_set]; simp
  cases hk : res.get? key with
  | some v =>
    -- already there (cannot happen on an acyclic table): the write changes nothing
    obtain ⟨value', h1, h2, _⟩ := hi key v hk
    rw [hv] at h1
    cases h1
    have hsame : ∀ k, (res.set key (subst res value)).get? k = res.get? k := by
      intro k
      by_cases hkk : k = key
      · subst hkk; rw [SymTab.get?_set_self, hk, h2]
      · exact SymTab.get?_set_ne _ _ hkk
    exact ⟨Inv_congr hsame hi, fun k v h => by rw [hsame]; exact h, hhas⟩
  | none =>
    have hnk : res.has key = false := by rw [SymTab.has_eq, hk]; rfl
    have hvk : values.has key = true := has_of_get? hv
    -- a closed token list does not mention `key`
    have hsub : ∀ ts : List Token,
        (∀ t ∈ ts, t.typ = .text → values.has t.val = true → res.has t.val = true) →
        subst (res.set key (subst res value)) ts = subst res ts := by
      intro ts hts
      apply subst_congr
      intro t ht htxt
      apply SymTab.get?_set_ne
      intro heq
      cases hh : values.has t.val with
      | true =>
        have := hts t ht htxt hh
        rw [heq, hnk] at this
        cases this
      | false =>
        rw [heq, hvk] at hh
        cases hh
    refine ⟨?_, ?_, hhas⟩
    · intro k v hkv
      by_cases hkk : k = key
      · subst hkk
        rw [SymTab.get?_set_self] at hkv
        cases hkv
        refine ⟨value, hv, (hsub value hcl).symm, ?_⟩
        intro t ht htxt hh
        rw [SymTab.has_set, hcl t ht htxt hh, Bool.or_true]
      · rw [SymTab.get?_set_ne _ _ hkk] at hkv
        obtain ⟨value', h1, h2, h3⟩ := hi k v hkv
        refine ⟨value', h1, ?_, ?_⟩
        · rw [h2]; exact (hsub value' h3).symm
        · intro t ht htxt hh
          rw [SymTab.has_set, h3 t ht htxt hh, Bool.or_true]
    · intro k v hkv
      by_cases hkk : k = key
      · subst hkk; rw [hk] at hkv; cases hkv
      · rw [SymTab.get?_set_ne _ _ hkk]; exact hkv

theorem expandValue_Inv (values : SymTab) :
    ∀ (fuel : Nat) (key : String) (res res' : SymTab), Inv values res →
      expandValue fuel key values res (buildReferenceGraph values) = some res' →
      Inv values res' ∧ MonoGet res res' ∧ res'.has key = true := by
  intro fuel
  induction fuel with
  | zero =>
    intro key res res' _ h
    unfold expandValue at h
    cases h
  | succ fuel ih =>
    intro key res res' hinv h
    unfold expandValue at h
    cases hv : values.get? key with
    | none => rw [hv] at h; cases h
    | some value =>
      rw [hv] at h
      simp only at h
      by_cases hk : res.has key = true
      · rw [if_pos hk] at h
        cases h
        exact ⟨hinv, MonoGet.refl _, hk⟩
      · rw [if_neg hk] at h
        split at h
        · cases h
        · rename_i r2 hfold
          cases h
          obtain ⟨i2, m2, d2⟩ := fold_gen (Inv values) (fun s : String => s)
            (fun dep r => expandValue fuel dep values r (buildReferenceGraph values))
            (fun dep r r' hr he => ih dep r r' hr he) _ res r2 hinv hfold
          have hcl : ∀ t ∈ value, t.typ = .text → values.has t.val = true →
              r2.has t.val = true := by
            intro t ht htxt hh
            have hne : value ≠ [] := by intro h; subst h; cases ht
            have hg := graph_get?_of_get? values values hv hne
            rw [← buildReferenceGraph_eq] at hg
            exact d2 t.val (by rw [hg]; exact mem_refsOf ht htxt hh)
          obtain ⟨i3, m3, k3⟩ := Inv_set i2 hv hcl
          exact ⟨i3, m2.trans m3, k3⟩

/-- the resolved table satisfies the defining equation of the full expansion: the keys are those
    of `values`, and each value is the table itself substituted into the defining tokens.
    (No assumption on the order, on unique keys or on cycles.) -/
theorem expand_fixpoint {values res : SymTab}
    (h : expandExpressions values (buildReferenceGraph values) = some res) (k : String) :
    res.get? k = (values.get? k).map (subst res) := by
  unfold expandExpressions at h
  obtain ⟨hinv, _, hall⟩ := fold_gen (Inv values) (fun e : String × List Token => e.1)
    (fun dep r => expandValue (values.length + 2) dep values r (buildReferenceGraph values))
    (fun dep r r' hr he => expandValue_Inv values _ dep r r' hr he) values [] res
    (Inv_nil values) h
  cases hv : values.get? k with
  | none =>
    cases hr : res.get? k with
    | none => rfl
    | some v =>
      obtain ⟨value, h1, _⟩ := hinv k v hr
      rw [hv] at h1; cases h1
  | some value =>
    have hmem : ∃ x ∈ values, x.1 = k := by
      unfold SymTab.get? at hv
      cases hf : values.find? (·.1 == k) with
      | none => rw [hf] at hv; cases hv
      | some x =>
        exact ⟨x, List.mem_of_find?_eq_some hf, by simpa using List.find?_some hf⟩
    obtain ⟨x, hx, rfl⟩ := hmem
    have := hall x hx
    rw [SymTab.has_eq] at this
    cases hr : res.get? x.1 with
    | none => rw [hr] at this; cases this
    | some v =>
      obtain ⟨value', h1, h2, _⟩ := hinv _ v hr
      rw [hv] at h1
      cases h1
      rw [h2]; rfl

/-! ### the fuel suffices on an acyclic table -/

theorem refs_foldl_sub (values : SymTab) (toks : List Token) :
    ∀ acc : List String, ∀ s ∈ toks.foldl (fun (acc : List String) t =>
        if t.typ != .text then acc
        else if values.has t.val then (if acc.contains t.val then acc else acc ++ [t.val]) else acc) acc,
      s ∈ acc ∨ ∃ t ∈ toks, t.typ = .text ∧ values.has t.val = true ∧ t.val = s := by
  induction toks with
  | nil => intro acc s hs; exact Or.inl hs
  | cons t r ih =>
    intro acc s hs
    rw [List.foldl_cons] at hs
    rcases ih _ s hs with h | ⟨t', ht', h⟩
    · split at h
      · exact Or.inl h
      · rename_i htxt
        split at h
        · rename_i hh
          split at h
          · exact Or.inl h
          · rcases List.mem_append.mp h with h | h
            · exact Or.inl h
            · simp only [List.mem_singleton] at h
              exact Or.inr ⟨t, List.mem_cons_self .., by simpa using htxt, hh, h.symm⟩
        · exact Or.inl h
    · exact Or.inr ⟨t', List.mem_cons_of_mem _ ht', h⟩

/-- the adjacency lists only name keys of the table -/
theorem has_of_mem_refsOf {values : SymTab} {toks : List Token} {s : String}
    (h : s ∈ refsOf values toks) : values.has s = true := by
  rcases refs_foldl_sub values toks [] s h with h | ⟨t, _, _, hh, rfl⟩
  · cases h
  · exact hh

theorem has_of_graph_ref {values : SymTab} {k : String} {refs : List String}
    (hg : (buildReferenceGraph values).get? k = some refs) {r : String} (hr : r ∈ refs) :
    values.has r = true := by
  obtain ⟨toks, _, _, h⟩ := mem_graph_iff.mp (mem_keys_of_get? hg)
  simp only at h
  subst h
  exact has_of_mem_refsOf hr

theorem get?_of_has {m : SymTab} {k : String} (h : m.has k = true) : ∃ v, m.get? k = some v := by
  rw [SymTab.has_eq] at h
  cases hg : m.get? k with
  | none => rw [hg] at h; cases h
  | some v => exact ⟨v, rfl⟩

/-- `expandValue` succeeds with fuel above the height of the key in an acyclic graph -/
theorem expandValue_some {values : SymTab}
    (hc : graphContainsCycle (buildReferenceGraph values) = false) :
    ∀ (fuel : Nat) (key : String) (res : SymTab), values.has key = true →
      graphRank (buildReferenceGraph values) key < fuel →
      ∃ res', expandValue fuel key values res (buildReferenceGraph values) = some res' := by
  intro fuel
  induction fuel with
  | zero => intro key res _ h; omega
  | succ fuel ih =>
    intro key res hkey hlt
    obtain ⟨value, hv⟩ := get?_of_has hkey
    unfold expandValue
    rw [hv]
    simp only
    by_cases hk : res.has key = true
    · rw [if_pos hk]; exact ⟨_, rfl⟩
    · rw [if_neg hk]
      have hdeps : ∀ dep ∈ ((buildReferenceGraph values).get? key).getD [], ∀ r, ∃ r',
          expandValue fuel dep values r (buildReferenceGraph values) = some r' := by
        intro dep hdep r
        cases hg : (buildReferenceGraph values).get? key with
        | none => rw [hg] at hdep; cases hdep
        | some refs =>
          rw [hg] at hdep
          simp only [Option.getD_some] at hdep
          have := graphRank_lt hc hg hdep
          exact ih dep r (has_of_graph_ref hg hdep) (by omega)
      obtain ⟨r2, hr2⟩ := fold_some (fun s : String => s)
        (fun dep r => expandValue fuel dep values r (buildReferenceGraph values)) _ hdeps res
      split
      · rename_i hnone
        have : some r2 = none := hr2.symm.trans hnone
        cases this
      · exact ⟨_, rfl⟩

theorem has_of_mem {values : SymTab} {x : String × List Token} (hx : x ∈ values) :
    values.has x.1 = true := by
  unfold SymTab.has
  rw [List.find?_isSome]
  exact ⟨x, hx, by simp⟩

/-- `expandExpressions` succeeds on every table that passed the cycle check -/
theorem expandExpressions_some {values : SymTab}
    (hc : graphContainsCycle (buildReferenceGraph values) = false) :
    ∃ res, expandExpressions values (buildReferenceGraph values) = some res := by
  unfold expandExpressions
  refine fold_some (fun e : String × List Token => e.1)
    (fun dep r => expandValue (values.length + 2) dep values r (buildReferenceGraph values))
    values ?_ []
  intro x hx r
  refine expandValue_some hc _ _ r (has_of_mem hx) ?_
  have := (ranked_of_acyclic hc).2 x.1
  omega

/-! ### the defining equation has one solution on a ranked table -/

theorem fixpoint_unique {values values' res res' : SymTab} {d : String → Nat}
    (hr : Ranked values d) (hget : ∀ k, values'.get? k = values.get? k)
    (h : ∀ k, res.get? k = (values.get? k).map (subst res))
    (h' : ∀ k, res'.get? k = (values'.get? k).map (subst res')) :
    ∀ (n : Nat) (k : String), d k ≤ n → res'.get? k = res.get? k := by
  intro n
  induction n with
  | zero =>
    intro k hk
    rw [h, h', hget]
    cases hv : values.get? k with
    | none => rfl
    | some value =>
      simp only [Option.map_some, Option.some.injEq]
      apply subst_congr
      intro t ht htxt
      have := hr k value hv t ht htxt
      omega
  | succ n ih =>
    intro k hk
    rw [h, h', hget]
    cases hv : values.get? k with
    | none => rfl
    | some value =>
      simp only [Option.map_some, Option.some.injEq]
      apply subst_congr
      intro t ht htxt
      have := hr k value hv t ht htxt
      exact ih t.val (by omega)

/-- 3. on a table that passed the cycle check, `expandExpressions` succeeds for every order of
    the table, and the resolved value of every symbol is the same -/
theorem expand_perm {values values' : SymTab} (hp : values'.Perm values)
    (hnd : (values.map (·.1)).Nodup)
    (hc : graphContainsCycle (buildReferenceGraph values) = false) :
    ∃ res res', expandExpressions values (buildReferenceGraph values) = some res ∧
      expandExpressions values' (buildReferenceGraph values') = some res' ∧
      ∀ k, res'.get? k = res.get? k := by
  have hc' : graphContainsCycle (buildReferenceGraph values') = false := by
    rw [cycle_perm hp hnd]; exact hc
  obtain ⟨res, hres⟩ := expandExpressions_some hc
  obtain ⟨res', hres'⟩ := expandExpressions_some hc'
  refine ⟨res, res', hres, hres', fun k => ?_⟩
  exact fixpoint_unique (ranked_of_acyclic hc).1 (get?_perm hp hnd)
    (expand_fixpoint hres) (expand_fixpoint hres') _ k (Nat.le_refl _)

/-! ## 4. the FOR count evaluator -/

/-- 4. `ExpandAndEvaluate` does not depend on the order of the symbol table -/
theorem expandAndEvaluate_perm {values values' : SymTab} (hp : values'.Perm values)
    (hnd : (values.map (·.1)).Nodup) (expr : List Token) :
    expandAndEvaluate expr values' = expandAndEvaluate expr values := by
  unfold expandAndEvaluate
  simp only
  rw [cycle_perm hp hnd]
  cases hc : graphContainsCycle (buildReferenceGraph values) with
  | true => rfl
  | false =>
    obtain ⟨res, res', h1, h2, h3⟩ := expand_perm hp hnd hc
    rw [h1, h2]
    simp only [Bool.false_eq_true, if_false]
    have : subst res' expr = subst res expr := subst_congr fun t _ _ => h3 t.val
    exact congrArg evaluateExpression this

/-! ## 5. the resolved table in closed form -/

/-- the full expansion of a token list: substitute the defining tokens of every name,
    `n` levels deep -/
def full (values : SymTab) : Nat → List Token → List Token
  | 0, ts => ts
  | n + 1, ts => ts.flatMap (fun t =>
      if t.typ == .text then
        match values.get? t.val with
        | some v => full values n v
        | none => [t]
      else [t])

theorem flatMap_singleton_id (ts : List Token) (f : Token → List Token)
    (h : ∀ t ∈ ts, f t = [t]) : ts.flatMap f = ts := by
  induction ts with
  | nil => rfl
  | cons t r ih =>
    rw [List.flatMap_cons, h t (List.mem_cons_self ..), ih fun t ht => h t (List.mem_cons_of_mem _ ht)]
    rfl

theorem flatMap_congr' {ts : List Token} {f g : Token → List Token}
    (h : ∀ t ∈ ts, f t = g t) : ts.flatMap f = ts.flatMap g := by
  induction ts with
  | nil => rfl
  | cons t r ih =>
    rw [List.flatMap_cons, List.flatMap_cons, h t (List.mem_cons_self ..),
      ih fun t ht => h t (List.mem_cons_of_mem _ ht)]

/-- a solution of the defining equation substitutes like the full expansion -/
theorem subst_eq_full {values res : SymTab} {d : String → Nat} (hr : Ranked values d)
    (h : ∀ k, res.get? k = (values.get? k).map (subst res)) :
    ∀ (n : Nat) (ts : List Token), (∀ t ∈ ts, t.typ = .text → values.has t.val = true → d t.val < n) →
      subst res ts = full values n ts := by
  intro n
  induction n with
  | zero =>
    intro ts hts
    unfold subst full
    apply flatMap_singleton_id
    intro t ht
    split
    · rename_i htxt
      have htxt : t.typ = .text := by simpa using htxt
      rw [h]
      cases hv : values.get? t.val with
      | none => rfl
      | some v =>
        have := hts t ht htxt (has_of_get? hv)
        omega
    · rfl
  | succ n ih =>
    intro ts hts
    unfold subst full
    apply flatMap_congr'
    intro t ht
    split
    · rename_i htxt
      have htxt : t.typ = .text := by simpa using htxt
      rw [h]
      cases hv : values.get? t.val with
      | none => rfl
      | some v =>
        simp only [Option.map_some]
        apply ih
        intro t' ht' htxt' _
        have h1 := hr _ _ hv t' ht' htxt'
        have h2 := hts t ht htxt (has_of_get? hv)
        omega
    · rfl

/-- on a table that passed the cycle check `expandExpressions` returns the table of the full
    expansions: same keys, each value expanded `values.length` levels deep (which is all the way
    down: the result contains no name of the table any more, `Compile.ResInv`) -/
theorem expand_full {values : SymTab}
    (hc : graphContainsCycle (buildReferenceGraph values) = false) :
    ∃ res, expandExpressions values (buildReferenceGraph values) = some res ∧
      ∀ k, res.get? k = (values.get? k).map (full values values.length) := by
  obtain ⟨res, hres⟩ := expandExpressions_some hc
  refine ⟨res, hres, fun k => ?_⟩
  have hfp := expand_fixpoint hres
  obtain ⟨hr, hd⟩ := ranked_of_acyclic hc
  rw [hfp]
  cases hv : values.get? k with
  | none => rfl
  | some value =>
    simp only [Option.map_some, Option.some.injEq]
    apply subst_eq_full hr hfp
    intro t ht htxt _
    have := hr k value hv t ht htxt
    have := hd k
    omega

/-- the closed form itself is independent of the order -/
theorem full_perm {values values' : SymTab} (hp : values'.Perm values)
    (hnd : (values.map (·.1)).Nodup) :
    ∀ (n : Nat) (ts : List Token), full values' n ts = full values n ts := by
  intro n
  induction n with
  | zero => intro ts; rfl
  | succ n ih =>
    intro ts
    unfold full
    apply flatMap_congr'
    intro t _
    rw [get?_perm hp hnd]
    split
    · cases values.get? t.val with
      | none => rfl
      | some v => exact ih v
    · rfl

/-! ## 6. `parser.validateSymbols` ranges over `references` -/

theorem contains_perm {l l' : List String} (hp : l'.Perm l) (s : String) :
    l'.contains s = l.contains s := by
  rw [Bool.eq_iff_iff, List.contains_iff_mem, List.contains_iff_mem, hp.mem_iff]

/-- the outcome of `validateSymbols` depends on the key sets only -/
theorem symbolsValid_perm {p p' : Parser.PState} (hr : p'.references.Perm p.references)
    (hs : p'.symbols.Perm p.symbols) : Parser.symbolsValid p' = Parser.symbolsValid p := by
  unfold Parser.symbolsValid
  have : (fun s => p'.symbols.contains s) = (fun s => p.symbols.contains s) := by
    funext s; exact contains_perm hs s
  rw [this]
  exact hr.all_eq

/-! ## 7. unique keys are needed from the cycle check on

  With a duplicated key (impossible in a Go map) the first entry shadows the second one in every
  lookup, so a permutation changes the table that is looked at. -/

def dupA : SymTab := [("a", [{ typ := .text, val := "a" }]), ("a", [{ typ := .number, val := "1" }])]
def dupB : SymTab := [("a", [{ typ := .number, val := "1" }]), ("a", [{ typ := .text, val := "a" }])]

theorem dup_perm : dupB.Perm dupA := List.Perm.swap _ _ _

theorem dup_cycle : graphContainsCycle (buildReferenceGraph dupA) = true ∧
    graphContainsCycle (buildReferenceGraph dupB) = false := by
  constructor <;> decide

end MapOrder
end Gmars
