/-
  queue.go: the ring buffer refines a bounded FIFO list (C02 `queue_refines`).
  Statements fixed here; proofs by the queue task.
-/
import Gmars.Proofs.Abs

namespace Gmars

/-! ### arithmetic helpers -/

private theorem mod_ne_of_lt {s i l n : Nat} (hil : i < l) (hln : l < n) :
    (s + i) % n ≠ (s + l) % n := by
  intro heq
  have h0 := Nat.sub_mod_eq_zero_of_mod_eq heq.symm
  have h1 : (s + l) - (s + i) = l - i := by omega
  rw [h1, Nat.mod_eq_of_lt (by omega)] at h0
  omega

private theorem getD_set_ne (xs : Array UInt64) (i j : Nat) (v : UInt64) (h : i < xs.size)
    (hij : i ≠ j) : (xs.set i v h).getD j 0 = xs.getD j 0 := by
  simp only [Array.getD_eq_getD_getElem?, Array.getElem?_set, if_neg hij]

private theorem getD_set_eq (xs : Array UInt64) (i : Nat) (v : UInt64) (h : i < xs.size) :
    (xs.set i v h).getD i 0 = v := by
  simp only [Array.getD_eq_getD_getElem?, Array.getElem?_set, if_true, Option.getD_some]

theorem PQ.toList_length (q : PQ) : q.toList.length = q.length.toNat := by
  simp [PQ.toList]

theorem PQ.new_inv (size : UInt64) (h : 0 < size.toNat) :
    (PQ.new size).Inv ∧ (PQ.new size).toList = [] ∧ (PQ.new size).size = size := by
  refine ⟨⟨?_, h, ?_, ?_, ?_⟩, ?_, rfl⟩
  · simp only [PQ.new, Array.size_replicate]
  · simp only [PQ.new, UInt64.toNat_zero, Nat.zero_le]
  · simpa only [PQ.new, UInt64.toNat_zero] using h
  · simp only [PQ.new, UInt64.toNat_zero, Nat.add_zero, Nat.zero_mod]
  · simp only [PQ.toList, PQ.new, UInt64.toNat_zero, List.range_zero, List.map_nil]

/-- `Push` never panics on a well-formed queue; it appends unless the queue is full -/
theorem PQ.push_ok (q : PQ) (a : UInt64) (h : q.Inv) :
    ∃ q', q.push a = .ok q' ∧ q'.Inv ∧ q'.size = q.size ∧
      q'.toList = (if q.toList.length < q.size.toNat then q.toList ++ [a] else q.toList) := by
  have hI := h
  obtain ⟨hqs, hpos, hlen, hstart, hend⟩ := h
  unfold PQ.push
  by_cases hfull : q.length ≥ q.size
  · rw [if_pos hfull]
    have hle : q.size.toNat ≤ q.length.toNat := UInt64.le_iff_toNat_le.mp hfull
    refine ⟨q, rfl, hI, rfl, ?_⟩
    rw [PQ.toList_length, if_neg (by omega)]
  · rw [if_neg hfull]
    have hlt : q.length.toNat < q.size.toNat := by
      have : ¬ q.size.toNat ≤ q.length.toNat := fun h => hfull (UInt64.le_iff_toNat_le.mpr h)
      omega
    have he : q.end_.toNat < q.queue.size := by rw [hqs, hend]; exact Nat.mod_lt _ hpos
    have hsz : q.size.toNat < 2 ^ 64 := q.size.toNat_lt
    have he1 : (q.end_ + 1).toNat = q.end_.toNat + 1 := by
      rw [UInt64.toNat_add, UInt64.toNat_one, Nat.mod_eq_of_lt]
      rw [hqs] at he; omega
    have hl1 : (q.length + 1).toNat = q.length.toNat + 1 := by
      rw [UInt64.toNat_add, UInt64.toNat_one, Nat.mod_eq_of_lt]
      omega
    rw [dif_pos he]
    refine ⟨_, rfl, ⟨?_, hpos, ?_, hstart, ?_⟩, rfl, ?_⟩
    · simp only [Array.size_set]; exact hqs
    · simp only [hl1]; omega
    · simp only [UInt64.toNat_mod, he1, hl1, hend, Nat.mod_add_mod, Nat.add_assoc]
    · rw [PQ.toList_length, if_pos hlt]
      simp only [PQ.toList, hl1, List.range_succ, List.map_append, List.map_cons, List.map_nil]
      congr 1
      · apply List.map_congr_left
        intro i hi
        rw [List.mem_range] at hi
        apply getD_set_ne
        rw [hend]
        exact (mod_ne_of_lt hi hlt).symm
      · rw [← hend, getD_set_eq]

/-- `Pop` never panics on a well-formed queue; it removes the oldest entry -/
theorem PQ.pop_ok (q : PQ) (h : q.Inv) :
    ∃ q', q.pop = .ok (q.toList.head?, q') ∧ q'.Inv ∧ q'.size = q.size ∧ q'.toList = q.toList.tail := by
  have hI := h
  obtain ⟨hqs, hpos, hlen, hstart, hend⟩ := h
  unfold PQ.pop
  by_cases hz : q.length = 0
  · have hnil : q.toList = [] := by
      simp only [PQ.toList, hz, UInt64.toNat_zero, List.range_zero, List.map_nil]
    refine ⟨q, ?_, hI, rfl, ?_⟩
    · simp only [hz, beq_self_eq_true, if_true, hnil, List.head?_nil]
    · rw [hnil]; rfl
  · have hne : (q.length == 0) = false := by simpa using hz
    have hlpos : 0 < q.length.toNat := by
      have : q.length.toNat ≠ (0 : UInt64).toNat := fun h => hz (UInt64.toNat_inj.mp h)
      rw [UInt64.toNat_zero] at this; omega
    have hs : q.start.toNat < q.queue.size := by rw [hqs]; exact hstart
    have hsz : q.size.toNat < 2 ^ 64 := q.size.toNat_lt
    have hs1 : (q.start + 1).toNat = q.start.toNat + 1 := by
      rw [UInt64.toNat_add, UInt64.toNat_one, Nat.mod_eq_of_lt]; omega
    have hl1 : (q.length - 1).toNat = q.length.toNat - 1 := by
      rw [UInt64.toNat_sub_of_le, UInt64.toNat_one]
      rw [UInt64.le_iff_toNat_le, UInt64.toNat_one]; omega
    obtain ⟨n, hn⟩ : ∃ n, q.length.toNat = n + 1 := ⟨q.length.toNat - 1, by omega⟩
    rw [hne, if_neg (by simp), dif_pos hs]
    refine ⟨{ q with start := (q.start + 1) % q.size, length := q.length - 1 }, ?_,
      ⟨hqs, hpos, ?_, ?_, ?_⟩, rfl, ?_⟩
    · congr 3
      simp only [PQ.toList, hn, List.range_succ_eq_map, List.map_cons, List.head?_cons,
        Nat.add_zero, Nat.mod_eq_of_lt hstart, Array.getD_eq_getD_getElem?,
        Array.getElem?_eq_getElem hs, Option.getD_some]
    · simp only [hl1]; omega
    · simp only [UInt64.toNat_mod, hs1]; exact Nat.mod_lt _ hpos
    · simp only [UInt64.toNat_mod, hs1, hl1, hend, Nat.mod_add_mod]
      congr 1; omega
    · simp only [PQ.toList, UInt64.toNat_mod, hs1, hl1, hn, Nat.add_sub_cancel,
        List.range_succ_eq_map, List.map_cons, List.tail_cons, List.map_map]
      apply List.map_congr_left
      intro i _
      simp only [Function.comp, Nat.mod_add_mod, Nat.succ_eq_add_one]
      congr 2; omega

/-- `get` at an offset that does not make `start + n` wrap around 2^64 -/
theorem PQ.get_ok (q : PQ) (h : q.Inv) (i : Nat) (hi : q.start.toNat + i < 2 ^ 64) :
    q.get (UInt64.ofNat i) = .ok (q.queue.getD ((q.start.toNat + i) % q.size.toNat) 0) := by
  obtain ⟨hqs, hpos, hlen, hstart, hend⟩ := h
  have hsz : (q.size == 0) = false := by
    have : q.size ≠ 0 := by
      intro h0; rw [h0, UInt64.toNat_zero] at hpos; omega
    simpa using this
  have hi' : (UInt64.ofNat i).toNat = i := UInt64.toNat_ofNat_of_lt' (by
    show i < 2 ^ 64; omega)
  have hidx : ((q.start + UInt64.ofNat i) % q.size).toNat = (q.start.toNat + i) % q.size.toNat := by
    rw [UInt64.toNat_mod, UInt64.toNat_add, hi', Nat.mod_eq_of_lt hi]
  have hlt : (q.start.toNat + i) % q.size.toNat < q.queue.size := by
    rw [hqs]; exact Nat.mod_lt _ hpos
  unfold PQ.get
  rw [hsz, hidx, Array.getElem?_eq_getElem hlt]
  simp only [Bool.false_eq_true, if_false, Array.getD_eq_getD_getElem?,
    Array.getElem?_eq_getElem hlt, Option.getD_some]

private theorem mapM_ok {α β : Type} (f : α → Except Panic β) (g : α → β) :
    ∀ (l : List α), (∀ x ∈ l, f x = .ok (g x)) → l.mapM f = .ok (l.map g)
  | [], _ => rfl
  | x :: l, h => by
    rw [List.mapM_cons, h x (List.mem_cons_self), mapM_ok f g l (fun y hy => h y (List.mem_cons_of_mem _ hy))]
    rfl

/-- `Values()` returns the abstract list, provided `start + length` does not exceed 2^64
(always the case when `size ≤ 2^63`; see `PQ.values_wraps_above_2_63` for why it is needed). -/
theorem PQ.values_ok (q : PQ) (h : q.Inv) (hw : q.start.toNat + q.length.toNat ≤ 2 ^ 64) :
    q.values = .ok q.toList := by
  unfold PQ.values PQ.toList
  apply mapM_ok
  intro i hi
  rw [List.mem_range] at hi
  exact PQ.get_ok q h i (by omega)

theorem PQ.values_ok_of_size_le (q : PQ) (h : q.Inv) (hs : q.size.toNat ≤ 2 ^ 63) :
    q.values = .ok q.toList :=
  PQ.values_ok q h (by have := h.len; have := h.start; omega)

theorem PQ.next_ok (q : PQ) (h : q.Inv) : q.next = .ok q.toList.head? := by
  unfold PQ.next
  by_cases hz : q.length = 0
  · simp only [hz, beq_self_eq_true, if_true, PQ.toList, UInt64.toNat_zero, List.range_zero,
      List.map_nil, List.head?_nil]
  · have hne : (q.length == 0) = false := by simpa using hz
    have hlpos : 0 < q.length.toNat := by
      have : q.length.toNat ≠ (0 : UInt64).toNat := fun h => hz (UInt64.toNat_inj.mp h)
      rw [UInt64.toNat_zero] at this; omega
    obtain ⟨n, hn⟩ : ∃ n, q.length.toNat = n + 1 := ⟨q.length.toNat - 1, by omega⟩
    have hg := PQ.get_ok q h 0 (by have := q.start.toNat_lt; omega)
    have h0 : UInt64.ofNat 0 = 0 := rfl
    rw [h0] at hg
    rw [hne, if_neg (by simp), hg]
    simp only [PQ.toList, hn, List.range_succ_eq_map, List.map_cons, List.head?_cons]
    rfl

theorem PQ.push_entries_lt (q : PQ) (a m : UInt64) (h : q.Inv) (hq : ∀ x ∈ q.toList, x < m)
    (ha : a < m) : ∀ q', q.push a = .ok q' → ∀ x ∈ q'.toList, x < m := by
  intro q' hq' x hx
  obtain ⟨q'', hp, _, _, hl⟩ := PQ.push_ok q a h
  rw [hp] at hq'
  cases hq'
  rw [hl] at hx
  split at hx
  · rcases List.mem_append.mp hx with hx | hx
    · exact hq x hx
    · rw [List.mem_singleton] at hx; rw [hx]; exact ha
  · exact hq x hx

/-- the queue used in `PQ.values_wraps_above_2_63`: size 2^64-1, start 2^64-2, three entries
occupying slots 2^64-2, 0, 1; slot 1 holds 1, all others 0. -/
def PQ.wrapExample : PQ :=
  { queue := (Array.replicate 18446744073709551615 (0 : UInt64)).setIfInBounds 1 1,
    size := 18446744073709551615, length := 3, start := 18446744073709551614, end_ := 2 }

/-- Counterexample to `values_ok` without the no-wrap hypothesis: for `size > 2^63`
`start + n` in `PQ.get` can wrap around 2^64, and `Values()` then reads the wrong slot. -/
theorem PQ.values_wraps_above_2_63 :
    PQ.wrapExample.Inv ∧ 2 ^ 63 < PQ.wrapExample.size.toNat ∧
    PQ.wrapExample.toList = [0, 0, 1] ∧ PQ.wrapExample.values = .ok [0, 0, 0] ∧
    PQ.wrapExample.values ≠ .ok PQ.wrapExample.toList := by
  have hr : List.range 3 = [0, 1, 2] := by decide
  have hl : PQ.wrapExample.toList = [0, 0, 1] := by
    simp [PQ.toList, PQ.wrapExample, hr, Array.getD_eq_getD_getElem?,
      Array.getElem?_setIfInBounds, Array.getElem?_replicate]
  have hv : PQ.wrapExample.values = .ok [0, 0, 0] := by
    simp [PQ.values, PQ.get, PQ.wrapExample, hr, Array.getElem?_setIfInBounds,
      Array.getElem?_replicate]
    rfl
  refine ⟨⟨?_, ?_, ?_, ?_, ?_⟩, ?_, hl, hv, ?_⟩
  · simp [PQ.wrapExample]
  · decide
  · decide
  · decide
  · decide
  · decide
  · rw [hl, hv]; intro h; injection h with h; exact absurd h (by decide)

end Gmars
