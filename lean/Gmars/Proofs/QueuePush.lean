/-
  Self-contained proof of the `Push` lemma used by `WFExec` (same statement as
  `PQ.push_ok` in `Queue.lean`, primed so that the two files do not clash), and
  the derived bound on the queued entries.
-/
import Gmars.Proofs.Abs
namespace Gmars

theorem add_mod_two (a b M : Nat) (ha : a < M) (hb : b < M) :
    (a + b) % M = if a + b < M then a + b else a + b - M := by
  split
  · exact Nat.mod_eq_of_lt ‹_›
  · rw [Nat.mod_eq_sub_mod (by omega)]
    exact Nat.mod_eq_of_lt (by omega)

theorem PQ.push_ok' (q : PQ) (a : UInt64) (h : q.Inv) :
    ∃ q', q.push a = .ok q' ∧ q'.Inv ∧ q'.size = q.size ∧
      q'.toList = (if q.toList.length < q.size.toNat then q.toList ++ [a] else q.toList) := by
  have hlen : q.toList.length = q.length.toNat := by simp [PQ.toList]
  obtain ⟨hqs, hpos, hl, hst, hend⟩ := h
  unfold PQ.push
  by_cases hfull : q.length ≥ q.size
  · rw [if_pos hfull]
    refine ⟨q, rfl, ⟨hqs, hpos, hl, hst, hend⟩, rfl, ?_⟩
    rw [hlen, if_neg]
    have := UInt64.le_iff_toNat_le.mp hfull
    omega
  · rw [if_neg hfull]
    have hlt : q.length.toNat < q.size.toNat := by
      have : q.length < q.size := UInt64.not_le.mp hfull
      exact UInt64.lt_iff_toNat_lt.mp this
    have hsz : q.size.toNat < 2 ^ 64 := q.size.toNat_lt
    have hend_lt : q.end_.toNat < q.size.toNat := by rw [hend]; exact Nat.mod_lt _ hpos
    have he : q.end_.toNat < q.queue.size := by rw [hqs]; exact hend_lt
    rw [dif_pos he]
    have hlen1 : (q.length + 1).toNat = q.length.toNat + 1 := by
      rw [UInt64.toNat_add]; simp; omega
    have hend1 : ((q.end_ + 1) % q.size).toNat = (q.start.toNat + (q.length.toNat + 1)) % q.size.toNat := by
      rw [UInt64.toNat_mod, UInt64.toNat_add]
      have : (1 : UInt64).toNat = 1 := rfl
      rw [this, Nat.mod_eq_of_lt (a := q.end_.toNat + 1) (by omega), hend]
      rw [← Nat.add_assoc]
      exact Nat.mod_add_mod _ _ _
    refine ⟨_, rfl, ⟨?_, hpos, ?_, hst, ?_⟩, rfl, ?_⟩
    · simpa using hqs
    · simp only [hlen1]; omega
    · simp only [hlen1, hend1]
    · rw [hlen, if_pos hlt]
      unfold PQ.toList
      simp only [hlen1, List.range_succ, List.map_append, List.map_cons, List.map_nil]
      congr 1
      · apply List.map_congr_left
        intro i hi
        have hi' : i < q.length.toNat := List.mem_range.mp hi
        rw [Array.getD_eq_getD_getElem?, Array.getD_eq_getD_getElem?, Array.getElem?_set_ne]
        rw [hend, add_mod_two _ _ _ hst hlt]
        have hi2 : i < q.size.toNat := by omega
        rw [add_mod_two _ _ _ hst hi2]
        split <;> split <;> omega
      · rw [Array.getD_eq_getD_getElem?, ← hend, Array.getElem?_set_self]
        rfl

/-- entries stay below `m` when an address below `m` is pushed -/
theorem PQ.push_entries_lt' (q q' : PQ) (a m : UInt64) (h : q.Inv) (hp : q.push a = .ok q')
    (hq : ∀ x ∈ q.toList, x < m) (ha : a < m) : ∀ x ∈ q'.toList, x < m := by
  obtain ⟨q'', h1, _, _, h4⟩ := PQ.push_ok' q a h
  rw [hp] at h1
  cases h1
  rw [h4]
  split
  · intro x hx
    rcases List.mem_append.mp hx with hx | hx
    · exact hq x hx
    · simp only [List.mem_singleton] at hx; subst hx; exact ha
  · exact hq

end Gmars
