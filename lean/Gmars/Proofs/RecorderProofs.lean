/-
  staterecorder.go (C15): the bundled state recorder never panics on a well-formed
  report stream and shows, for every address, the kind and warrior of the last
  operation reported for it (a last-writer fold over the report stream).
-/
import Gmars.Model.Sim

namespace Gmars

/-- size invariant of the recorder -/
def Recorder.Inv (r : Recorder) : Prop :=
  r.color.size = r.coresize.toNat ∧ r.state.size = r.coresize.toNat

/-- what the recorder shows for an address (default for addresses outside the core) -/
def Recorder.view (r : Recorder) (a : Nat) : CoreState × Int :=
  (r.state.getD a .empty, r.color.getD a (-1))

/-- point update of a view -/
def updView (view : Nat → CoreState × Int) (a : Nat) (v : CoreState × Int) :
    Nat → CoreState × Int :=
  fun b => if b = a then v else view b

/-- Specification: the (kind, warrior) of the last operation per address, one report step. -/
def lastOp (M : Nat) (len : Int → Option Nat) (recordReads : Bool)
    (view : Nat → CoreState × Int) (rp : Report) : Nat → CoreState × Int :=
  match rp.typ with
  | .simReset => fun _ => (.empty, -1)
  | .warriorSpawn =>
    match len rp.wi with
    | some n => fun a =>
        if ∃ i, i < n ∧ (rp.addr.toNat + i) % M = a then (.written, rp.wi) else view a
    | none => view
  | .taskTerminate => updView view rp.addr.toNat (.terminated, rp.wi)
  | .taskPop => updView view rp.addr.toNat (.executed, rp.wi)
  | .write => updView view rp.addr.toNat (.written, rp.wi)
  | .increment => updView view rp.addr.toNat (.incremented, rp.wi)
  | .decrement => updView view rp.addr.toNat (.decremented, rp.wi)
  | .read => if recordReads then updView view rp.addr.toNat (.read, rp.wi) else view
  | _ => view

/-- Exactly the hypotheses on a report under which `Recorder.report` is shown not to panic
    and to agree with `lastOp` (`M` = core size):
    * point reports (`taskTerminate`, `taskPop`, `write`, `increment`, `decrement`, and `read`
      when reads are recorded): the address is inside the core;
    * `warriorSpawn`: the warrior exists (`len` is `some n`), the 64-bit address arithmetic
      `addr + i` (`i < n`) does not wrap, and an empty core only sees empty warriors;
    * all other reports: nothing. -/
def Report.OK (M : Nat) (len : Int → Option Nat) (recordReads : Bool) (rp : Report) : Prop :=
  match rp.typ with
  | .warriorSpawn =>
    ∃ n, len rp.wi = some n ∧ rp.addr.toNat + n ≤ 2 ^ 64 ∧ (M = 0 → n = 0)
  | .taskTerminate | .taskPop | .write | .increment | .decrement => rp.addr.toNat < M
  | .read => recordReads = true → rp.addr.toNat < M
  | _ => True

/-- the conclusion shared by all step lemmas -/
def Recorder.StepTo (r r' : Recorder) (f : Nat → CoreState × Int) : Prop :=
  r'.Inv ∧ r'.coresize = r.coresize ∧ r'.recordReads = r.recordReads ∧ ∀ a, r'.view a = f a

/-! ## `NewStateRecorder` and reset -/

theorem Recorder.new_inv (coresize : UInt64) : (Recorder.new coresize).Inv := by
  simp [Recorder.Inv, Recorder.new]

theorem Recorder.new_view (coresize : UInt64) (a : Nat) :
    (Recorder.new coresize).view a = (.empty, -1) := by
  simp only [Recorder.view, Recorder.new, Array.getD_eq_getD_getElem?, Array.getElem?_replicate]
  split <;> rfl

/-! ## `set` -/

theorem Recorder.set_ok (r : Recorder) (a : UInt64) (st : CoreState) (wi : Int)
    (h : r.Inv) (ha : a.toNat < r.coresize.toNat) :
    ∃ r', r.set a st wi = .ok r' ∧ r.StepTo r' (updView r.view a.toNat (st, wi)) := by
  obtain ⟨hc, hs⟩ := h
  have hb : a.toNat < r.color.size ∧ a.toNat < r.state.size := by omega
  refine ⟨{ r with color := r.color.set a.toNat wi hb.1, state := r.state.set a.toNat st hb.2 },
    by simp only [Recorder.set, dif_pos hb], ?_, rfl, rfl, ?_⟩
  · simp [Recorder.Inv, hc, hs]
  · intro b
    simp only [Recorder.view, updView, Array.getD_eq_getD_getElem?, Array.getElem?_set]
    by_cases hba : b = a.toNat
    · subst hba; simp
    · have : ¬ a.toNat = b := fun e => hba e.symm
      simp [hba, this]

/-! ## spawn loop -/

theorem spawn_addr (addr cs : UInt64) (i : Nat) (h : addr.toNat + i < 2 ^ 64) :
    ((addr + UInt64.ofNat i) % cs).toNat = (addr.toNat + i) % cs.toNat := by
  have hi : i < 2 ^ 64 := by omega
  rw [UInt64.toNat_mod, UInt64.toNat_add, UInt64.toNat_ofNat']
  simp only [Nat.reducePow] at *
  rw [Nat.mod_eq_of_lt hi, Nat.mod_eq_of_lt h]

/-- The spawn loop with the model's own (wrapping) address arithmetic: needs only the
    invariant and a non-empty core. -/
theorem Recorder.spawnLoop_model (addr : UInt64) (wi : Int) (l : List Nat) :
    ∀ (r : Recorder), r.Inv → 0 < r.coresize.toNat →
    ∃ r', l.foldlM (fun (r : Recorder) i =>
            r.set ((addr + UInt64.ofNat i) % r.coresize) .written wi) r = .ok r' ∧
      r.StepTo r' (fun a =>
        if ∃ i, i ∈ l ∧ ((addr + UInt64.ofNat i) % r.coresize).toNat = a then (.written, wi)
        else r.view a) := by
  induction l with
  | nil =>
    intro r h _
    exact ⟨r, rfl, h, rfl, rfl, fun a => by simp⟩
  | cons i l ih =>
    intro r h hpos
    have hlt : ((addr + UInt64.ofNat i) % r.coresize).toNat < r.coresize.toNat := by
      rw [UInt64.toNat_mod]; exact Nat.mod_lt _ hpos
    obtain ⟨r1, e1, inv1, cs1, rr1, v1⟩ := Recorder.set_ok r _ .written wi h hlt
    obtain ⟨r2, e2, inv2, cs2, rr2, v2⟩ := ih r1 inv1 (by rw [cs1]; exact hpos)
    refine ⟨r2, ?_, inv2, cs2.trans cs1, rr2.trans rr1, ?_⟩
    · simp only [List.foldlM_cons, e1]; exact e2
    · intro a
      rw [v2 a]
      simp only [v1, cs1, updView]
      by_cases h1 : ∃ j, j ∈ l ∧ ((addr + UInt64.ofNat j) % r.coresize).toNat = a
      · have : ∃ j, j ∈ i :: l ∧ ((addr + UInt64.ofNat j) % r.coresize).toNat = a := by
          obtain ⟨j, hj, e⟩ := h1; exact ⟨j, List.mem_cons_of_mem _ hj, e⟩
        rw [if_pos h1, if_pos this]
      · rw [if_neg h1]
        by_cases h2 : a = ((addr + UInt64.ofNat i) % r.coresize).toNat
        · have : ∃ j, j ∈ i :: l ∧ ((addr + UInt64.ofNat j) % r.coresize).toNat = a :=
            ⟨i, List.mem_cons_self, h2.symm⟩
          rw [if_pos h2, if_pos this]
        · have : ¬ ∃ j, j ∈ i :: l ∧ ((addr + UInt64.ofNat j) % r.coresize).toNat = a := by
            rintro ⟨j, hj, e⟩
            rcases List.mem_cons.mp hj with hj | hj
            · subst hj; exact h2 e.symm
            · exact h1 ⟨j, hj, e⟩
          rw [if_neg h2, if_neg this]

/-- The spawn loop against the specification's addresses `(addr + i) % M`: additionally needs
    that `addr + i` does not wrap at 2^64. -/
theorem Recorder.spawnLoop_ok (addr : UInt64) (wi : Int) (l : List Nat)
    (r : Recorder) (h : r.Inv) (hpos : 0 < r.coresize.toNat)
    (hl : ∀ i ∈ l, addr.toNat + i < 2 ^ 64) :
    ∃ r', l.foldlM (fun (r : Recorder) i =>
            r.set ((addr + UInt64.ofNat i) % r.coresize) .written wi) r = .ok r' ∧
      r.StepTo r' (fun a =>
        if ∃ i, i ∈ l ∧ (addr.toNat + i) % r.coresize.toNat = a then (.written, wi)
        else r.view a) := by
  obtain ⟨r', e, inv, cs, rr, v⟩ := Recorder.spawnLoop_model addr wi l r h hpos
  refine ⟨r', e, inv, cs, rr, fun a => ?_⟩
  rw [v a]
  show (if _ then _ else _) = (if _ then _ else _)
  have hiff : (∃ i, i ∈ l ∧ ((addr + UInt64.ofNat i) % r.coresize).toNat = a) ↔
      (∃ i, i ∈ l ∧ (addr.toNat + i) % r.coresize.toNat = a) := by
    constructor
    · rintro ⟨i, hi, e⟩; exact ⟨i, hi, by rw [← spawn_addr _ _ _ (hl i hi)]; exact e⟩
    · rintro ⟨i, hi, e⟩; exact ⟨i, hi, by rw [spawn_addr _ _ _ (hl i hi)]; exact e⟩
  by_cases hc : ∃ i, i ∈ l ∧ (addr.toNat + i) % r.coresize.toNat = a
  · rw [if_pos hc, if_pos (hiff.mpr hc)]
  · rw [if_neg hc, if_neg (fun x => hc (hiff.mp x))]

/-! ## one report -/

theorem Recorder.stepTo_refl (r : Recorder) (h : r.Inv) : r.StepTo r r.view :=
  ⟨h, rfl, rfl, fun _ => rfl⟩

/-- Main step theorem with exactly the hypotheses needed (`Report.OK`): `Report` never panics
    and the visible state afterwards is the last-writer step. -/
theorem Recorder.report_ok' (r : Recorder) (len : Int → Option Nat) (rp : Report)
    (h : r.Inv) (hok : rp.OK r.coresize.toNat len r.recordReads) :
    ∃ r', r.report len rp = .ok r' ∧
      r.StepTo r' (lastOp r.coresize.toNat len r.recordReads r.view rp) := by
  unfold Report.OK at hok
  unfold Recorder.report lastOp
  cases ht : rp.typ <;> simp only [ht] at hok ⊢
  case simReset =>
    exact ⟨_, rfl, Recorder.new_inv _, rfl, rfl, fun a => Recorder.new_view _ a⟩
  case cycleStart => exact ⟨r, rfl, r.stepTo_refl h⟩
  case cycleEnd => exact ⟨r, rfl, r.stepTo_refl h⟩
  case taskPush => exact ⟨r, rfl, r.stepTo_refl h⟩
  case warriorTerminate => exact ⟨r, rfl, r.stepTo_refl h⟩
  case taskPop => exact Recorder.set_ok r _ _ _ h hok
  case taskTerminate => exact Recorder.set_ok r _ _ _ h hok
  case write => exact Recorder.set_ok r _ _ _ h hok
  case increment => exact Recorder.set_ok r _ _ _ h hok
  case decrement => exact Recorder.set_ok r _ _ _ h hok
  case read =>
    cases hrr : r.recordReads
    · exact ⟨r, rfl, h, rfl, rfl, fun _ => rfl⟩
    · simp only [hrr, if_true] at hok ⊢
      have := Recorder.set_ok r rp.addr .read rp.wi h (hok trivial)
      simpa only [Recorder.StepTo, hrr] using this
  case warriorSpawn =>
    obtain ⟨n, hn, hov, h0⟩ := hok
    simp only [hn]
    by_cases hz : r.coresize = 0
    · have hn0 : n = 0 := h0 (by rw [hz]; rfl)
      subst hn0
      refine ⟨r, by simp [hz], h, rfl, rfl, fun a => ?_⟩
      simp
    · have hpos : 0 < r.coresize.toNat := by
        rcases Nat.eq_zero_or_pos r.coresize.toNat with e | e
        · exact absurd (UInt64.toNat_inj.mp (by rw [e]; rfl)) hz
        · exact e
      have hbeq : (r.coresize == 0) = false := by simpa using hz
      simp only [hbeq, Bool.false_eq_true, if_false]
      obtain ⟨r', e, inv, cs, rr, v⟩ := Recorder.spawnLoop_ok rp.addr rp.wi (List.range n) r h hpos
        (fun i hi => by have := List.mem_range.mp hi; omega)
      refine ⟨r', e, inv, cs, rr, fun a => ?_⟩
      rw [v a]
      simp only [List.mem_range]

/-- The requested form: `r.Inv`, `0 < M`, `rp.addr < r.coresize`, and for spawn reports
    `len rp.wi = some n` — plus the ADDED hypothesis `rp.addr.toNat + n ≤ 2^64` (without it the
    model's wrapping 64-bit addition differs from `(addr + i) % M` on cores above 2^63 cells, see
    `Recorder.wrap_counterexample`; on cores up to 2^63 cells it always holds, see
    `Recorder.spawn_any_offset` and `Recorder.reports_ok_small`). -/
theorem Recorder.report_ok (r : Recorder) (len : Int → Option Nat) (rp : Report)
    (h : r.Inv) (hpos : 0 < r.coresize.toNat) (ha : rp.addr < r.coresize)
    (hspawn : rp.typ = .warriorSpawn → ∃ n, len rp.wi = some n ∧ rp.addr.toNat + n ≤ 2 ^ 64) :
    ∃ r', r.report len rp = .ok r' ∧ r'.Inv ∧ r'.coresize = r.coresize ∧
      r'.recordReads = r.recordReads ∧
      ∀ a < r.coresize.toNat,
        (r'.state.getD a .empty, r'.color.getD a (-1)) =
          lastOp r.coresize.toNat len r.recordReads
            (fun a => (r.state.getD a .empty, r.color.getD a (-1))) rp a := by
  have ha' : rp.addr.toNat < r.coresize.toNat := UInt64.lt_iff_toNat_lt.mp ha
  have hok : rp.OK r.coresize.toNat len r.recordReads := by
    unfold Report.OK
    cases ht : rp.typ <;> simp only [] <;> first | trivial | exact ha' | skip
    · obtain ⟨n, hn, hov⟩ := hspawn ht
      exact ⟨n, hn, hov, fun e => by omega⟩
    · exact fun _ => ha'
  obtain ⟨r', e, inv, cs, rr, v⟩ := r.report_ok' len rp h hok
  exact ⟨r', e, inv, cs, rr, fun a _ => v a⟩

/-- Why the no-wrap hypothesis is needed for the RECORDER on cores above 2^63 cells (this is the
    recorder's own loop `(addr + i) % coresize` over an address that is already below the core
    size; it does not depend on how `SpawnWarrior` treats its offset): with `M = 2^64-1`,
    `addr = 2^64-2 < M`, `i = 2` the model writes address 0 while `(addr + i) % M = 1`. -/
theorem Recorder.wrap_counterexample :
    ((0xFFFFFFFFFFFFFFFE + UInt64.ofNat 2) % (0xFFFFFFFFFFFFFFFF : UInt64)).toNat = 0 ∧
    ((0xFFFFFFFFFFFFFFFE : UInt64).toNat + 2) % (0xFFFFFFFFFFFFFFFF : UInt64).toNat = 1 := by
  decide

/-- The statement as literally requested (no no-wrap hypothesis) is FALSE: a recorder for a core
    of size `2^64-1`, a warrior of length 3 spawned at `2^64-2`. The model writes addresses
    `M-1, 0, 0`, the specification `M-1, 0, 1`; they differ at address 1. -/
theorem Recorder.report_ok_unhyp_false :
    ¬ (∀ (r : Recorder) (len : Int → Option Nat) (rp : Report) (n : Nat),
        r.Inv → 0 < r.coresize.toNat → rp.addr < r.coresize →
        (rp.typ = .warriorSpawn → len rp.wi = some n) →
        ∃ r', r.report len rp = .ok r' ∧ r'.Inv ∧ r'.coresize = r.coresize ∧
          r'.recordReads = r.recordReads ∧
          ∀ a < r.coresize.toNat,
            (r'.state.getD a .empty, r'.color.getD a (-1)) =
              lastOp r.coresize.toNat len r.recordReads
                (fun a => (r.state.getD a .empty, r.color.getD a (-1))) rp a) := by
  intro H
  have hinv := Recorder.new_inv 0xFFFFFFFFFFFFFFFF
  have hcs : (Recorder.new 0xFFFFFFFFFFFFFFFF).coresize = 0xFFFFFFFFFFFFFFFF := rfl
  have hv1 : (Recorder.new 0xFFFFFFFFFFFFFFFF).view 1 = (.empty, -1) := Recorder.new_view _ 1
  generalize Recorder.new 0xFFFFFFFFFFFFFFFF = r at hinv hcs hv1
  have hpos : 0 < r.coresize.toNat := by rw [hcs]; decide
  obtain ⟨r', e, -, -, -, v⟩ := H r (fun _ => some 3)
    { typ := .warriorSpawn, wi := 0, addr := 0xFFFFFFFFFFFFFFFE } 3 hinv hpos
    (by rw [hcs]; decide) (fun _ => rfl)
  obtain ⟨r'', e', -, -, -, v'⟩ :=
    Recorder.spawnLoop_model 0xFFFFFFFFFFFFFFFE 0 (List.range 3) r hinv hpos
  have hne : (r.coresize == 0) = false := by rw [hcs]; decide
  have e2 : r.report (fun _ => some 3)
      { typ := .warriorSpawn, wi := 0, addr := 0xFFFFFFFFFFFFFFFE } = .ok r'' := by
    simp only [Recorder.report, hne, Bool.false_eq_true, if_false]
    exact e'
  have hr : r' = r'' := by
    have := e.symm.trans e2
    exact Except.ok.inj this
  subst hr
  have h1 := v 1 (by rw [hcs]; decide)
  have h2 := v' 1
  simp only [Recorder.view] at h2 hv1
  rw [h2] at h1
  simp only [lastOp, hcs, hv1] at h1
  have hm : ¬ ∃ i, i ∈ List.range 3 ∧
      (((0xFFFFFFFFFFFFFFFE : UInt64) + UInt64.ofNat i) % 0xFFFFFFFFFFFFFFFF).toNat = 1 := by
    decide
  have hs : ∃ i, i < 3 ∧
      ((0xFFFFFFFFFFFFFFFE : UInt64).toNat + i) % (0xFFFFFFFFFFFFFFFF : UInt64).toNat = 1 :=
    ⟨2, by decide, by decide⟩
  rw [if_neg hm, if_pos hs] at h1
  exact absurd h1 (by decide)

/-- **`SpawnWarrior` at any offset, seen by the recorder.** `SpawnWarrior` reduces its offset
    modulo the core size and reports `Address: startOffset % s.m`; so for EVERY 64-bit offset,
    on a core of at most 2^63 cells and for a warrior of at most 2^63 instructions, the spawn
    report satisfies what `Recorder.report_ok` asks of it: address below the core size and no
    wrap-around in the recorder's loop. -/
theorem Recorder.spawn_any_offset (off m : UInt64) (n : Nat) (hm0 : 0 < m.toNat)
    (hm : m.toNat ≤ 2 ^ 63) (hn : n ≤ 2 ^ 63) :
    off % m < m ∧ (off % m).toNat + n ≤ 2 ^ 64 := by
  have h : (off % m).toNat < m.toNat := by rw [UInt64.toNat_mod]; exact Nat.mod_lt _ hm0
  exact ⟨UInt64.lt_iff_toNat_lt.mpr h, by omega⟩

example : (0xFFFFFFFFFFFFFFFF % 8000 : UInt64) < 8000 ∧
    (0xFFFFFFFFFFFFFFFF % 8000 : UInt64).toNat + 100 ≤ 2 ^ 64 :=
  Recorder.spawn_any_offset 0xFFFFFFFFFFFFFFFF 8000 100 (by decide) (by decide) (by decide)

/-! ## reset -/

theorem Recorder.reset_empty (r : Recorder) (len : Int → Option Nat) (rp : Report)
    (ht : rp.typ = .simReset) :
    ∃ r', r.report len rp = .ok r' ∧ r'.Inv ∧ r'.coresize = r.coresize ∧
      r'.recordReads = r.recordReads ∧
      ∀ a, (r'.state.getD a .empty, r'.color.getD a (-1)) = (.empty, -1) := by
  refine ⟨{ Recorder.new r.coresize with recordReads := r.recordReads }, ?_,
    Recorder.new_inv _, rfl, rfl, fun a => Recorder.new_view _ a⟩
  simp only [Recorder.report, ht]

/-! ## report streams -/

theorem Recorder.reports_ok' (len : Int → Option Nat) (rps : List Report) :
    ∀ (r : Recorder), r.Inv → (∀ rp ∈ rps, rp.OK r.coresize.toNat len r.recordReads) →
    ∃ r', rps.foldlM (fun r rp => Recorder.report r len rp) r = .ok r' ∧
      r.StepTo r' (rps.foldl (lastOp r.coresize.toNat len r.recordReads) r.view) := by
  induction rps with
  | nil => intro r h _; exact ⟨r, rfl, r.stepTo_refl h⟩
  | cons rp rps ih =>
    intro r h hall
    obtain ⟨r1, e1, inv1, cs1, rr1, v1⟩ := r.report_ok' len rp h (hall rp (by simp))
    obtain ⟨r2, e2, inv2, cs2, rr2, v2⟩ := ih r1 inv1 (fun q hq => by
      rw [cs1, rr1]; exact hall q (by simp [hq]))
    refine ⟨r2, ?_, inv2, cs2.trans cs1, rr2.trans rr1, fun a => ?_⟩
    · simp only [List.foldlM_cons, e1]; exact e2
    · rw [v2 a, cs1, rr1, List.foldl_cons]
      have : r1.view = lastOp r.coresize.toNat len r.recordReads r.view rp := funext v1
      rw [this]

/-- Stream version in the requested hypothesis form (with the added no-wrap hypothesis). -/
theorem Recorder.reports_ok (r : Recorder) (len : Int → Option Nat) (rps : List Report)
    (h : r.Inv) (hpos : 0 < r.coresize.toNat)
    (hall : ∀ rp ∈ rps, rp.addr < r.coresize ∧
      (rp.typ = .warriorSpawn → ∃ n, len rp.wi = some n ∧ rp.addr.toNat + n ≤ 2 ^ 64)) :
    ∃ r', rps.foldlM (fun r rp => Recorder.report r len rp) r = .ok r' ∧ r'.Inv ∧
      r'.coresize = r.coresize ∧ r'.recordReads = r.recordReads ∧
      ∀ a < r.coresize.toNat,
        (r'.state.getD a .empty, r'.color.getD a (-1)) =
          rps.foldl (lastOp r.coresize.toNat len r.recordReads)
            (fun a => (r.state.getD a .empty, r.color.getD a (-1))) a := by
  have hok : ∀ rp ∈ rps, rp.OK r.coresize.toNat len r.recordReads := by
    intro rp hrp
    obtain ⟨ha, hspawn⟩ := hall rp hrp
    have ha' : rp.addr.toNat < r.coresize.toNat := UInt64.lt_iff_toNat_lt.mp ha
    unfold Report.OK
    cases ht : rp.typ <;> simp only [] <;> first | trivial | exact ha' | skip
    · obtain ⟨n, hn, hov⟩ := hspawn ht
      exact ⟨n, hn, hov, fun e => by omega⟩
    · exact fun _ => ha'
  obtain ⟨r', e, inv, cs, rr, v⟩ := Recorder.reports_ok' len rps r h hok
  exact ⟨r', e, inv, cs, rr, fun a _ => v a⟩

/-- Stream version for cores of at most 2^63 cells: NO no-wrap hypothesis, only addresses below
    the core size and spawn reports that name existing warriors of at most 2^63 instructions. -/
theorem Recorder.reports_ok_small (r : Recorder) (len : Int → Option Nat) (rps : List Report)
    (h : r.Inv) (hpos : 0 < r.coresize.toNat) (hsmall : r.coresize.toNat ≤ 2 ^ 63)
    (hall : ∀ rp ∈ rps, rp.addr < r.coresize ∧
      (rp.typ = .warriorSpawn → ∃ n, len rp.wi = some n ∧ n ≤ 2 ^ 63)) :
    ∃ r', rps.foldlM (fun r rp => Recorder.report r len rp) r = .ok r' ∧ r'.Inv ∧
      r'.coresize = r.coresize ∧ r'.recordReads = r.recordReads ∧
      ∀ a < r.coresize.toNat,
        (r'.state.getD a .empty, r'.color.getD a (-1)) =
          rps.foldl (lastOp r.coresize.toNat len r.recordReads)
            (fun a => (r.state.getD a .empty, r.color.getD a (-1))) a := by
  refine Recorder.reports_ok r len rps h hpos (fun rp hrp => ?_)
  obtain ⟨ha, hspawn⟩ := hall rp hrp
  refine ⟨ha, fun ht => ?_⟩
  obtain ⟨n, hn, hle⟩ := hspawn ht
  have ha' : rp.addr.toNat < r.coresize.toNat := UInt64.lt_iff_toNat_lt.mp ha
  exact ⟨n, hn, by omega⟩

end Gmars
