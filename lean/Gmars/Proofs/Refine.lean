/-
  C01, the central refinement: one executed task of the model (`Sim.exec`) is one
  step of the ICWS'94 reference (`Spec.step`) on the abstracted core, and queues
  exactly the reference's successors.
-/
import Gmars.Proofs.RefineOps

namespace Gmars

/-! ### splitting `exec` and `step` at the opcode dispatch -/

/-- the opcode dispatch of `exec`, after both operands have been prepared -/
def Sim.opPhase (s : Sim) (ir ira irb : Instr) (pc rpa rpb wpb : UInt64) (wi : Nat) :
    Except Panic Sim :=
  let wab := (pc + wpb) % s.m
  let rab := (pc + rpa) % s.m
  match ir.op with
  | .dat => pure (s.terminate wi pc)
  | .mov => do let s ← s.mov ir ira wab pc wi; pure (s.report (rep .write wi wab))
  | .add => do let s ← s.arith s.addF ir ira irb wab pc wi; pure (s.report (rep .write wi wab))
  | .sub => do let s ← s.arith s.subF ir ira irb wab pc wi; pure (s.report (rep .write wi wab))
  | .mul => do let s ← s.arith s.mulF ir ira irb wab pc wi; pure (s.report (rep .write wi wab))
  | .div => do let s ← s.divmod (· / ·) ir ira irb wab pc wi; pure (s.report (rep .write wi wab))
  | .mod => do let s ← s.divmod (· % ·) ir ira irb wab pc wi; pure (s.report (rep .write wi wab))
  | .jmp => s.push wi rab
  | .jmz => s.jmz ir irb rab pc wi
  | .jmn => s.jmn ir irb rab pc wi
  | .djn => do let s ← s.djn ir irb rab wab pc wi; pure (s.report (rep .decrement wi wab))
  | .cmp | .seq => do
      let s ← s.skipIf (cmpCond ir ira irb) pc wi; pure (s.reads pc rpa rpb wi)
  | .slt => do
      let s ← s.skipIf (sltCond ir ira irb) pc wi; pure (s.reads pc rpa rpb wi)
  | .sne => do
      let s ← s.skipIf (sneCond ir ira irb) pc wi; pure (s.reads pc rpa rpb wi)
  | .spl => do let s ← s.push wi ((pc + 1) % s.m); s.push wi rab
  | .nop => s.push wi ((pc + 1) % s.m)

theorem exec_eq (s : Sim) (pc : UInt64) (wi : Nat) :
    s.exec pc wi = (do
      if s.m == 0 || s.readLimit == 0 || s.writeLimit == 0 then throw .divZero
      let ir ← s.rd pc
      let (s, rpa, pip) ← s.aOperand pc ir wi
      let ira ← s.rd ((pc + rpa) % s.m)
      let s ← s.aPost ir pip wi
      let (s, rpb, wpb, pip) ← s.bOperand pc ir wi pip
      let irb ← s.rd ((pc + rpb) % s.m)
      let s ← s.bPost ir pip wi
      s.opPhase ir ira irb pc rpa rpb wpb wi) := rfl

theorem exec_of_steps {s s1 s2 s3 s4 : Sim} {pc rpa pipa rpb wpb pipb : UInt64} {wi : Nat}
    {ir ira irb : Instr}
    (hck : (s.m == 0 || s.readLimit == 0 || s.writeLimit == 0) = false)
    (h1 : s.rd pc = .ok ir)
    (h2 : s.aOperand pc ir wi = .ok (s1, rpa, pipa))
    (h3 : s1.rd ((pc + rpa) % s1.m) = .ok ira)
    (h4 : s1.aPost ir pipa wi = .ok s2)
    (h5 : s2.bOperand pc ir wi pipa = .ok (s3, rpb, wpb, pipb))
    (h6 : s3.rd ((pc + rpb) % s3.m) = .ok irb)
    (h7 : s3.bPost ir pipb wi = .ok s4) :
    s.exec pc wi = s4.opPhase ir ira irb pc rpa rpb wpb wi := by
  rw [exec_eq]
  simp only [hck, h1, h2, h3, h4, h5, h6, h7, except_bind_ok, Bool.false_eq_true, ↓reduceIte]

namespace Spec

/-- the result part of `step`, given the evaluated operands -/
def opStep (M : Nat) (op : Op) (md : Modifier) (ira irb : SInstr) (c2 : Core)
    (wt jt nxt skp : Nat) : StepResult :=
  match op with
  | .dat => ⟨c2, []⟩
  | .mov =>
    if md = .i then ⟨c2.set wt ira, [nxt]⟩
    else ⟨applyPairs c2 wt (arithPairs md ira irb) (fun _ => true) (fun _ y => y), [nxt]⟩
  | .add => ⟨applyPairs c2 wt (arithPairs md ira irb) (fun _ => true) (fun x y => (x + y) % M), [nxt]⟩
  | .sub => ⟨applyPairs c2 wt (arithPairs md ira irb) (fun _ => true) (fun x y => (x + M - y) % M), [nxt]⟩
  | .mul => ⟨applyPairs c2 wt (arithPairs md ira irb) (fun _ => true) (fun x y => (x * y) % M), [nxt]⟩
  | .div =>
    let ps := arithPairs md ira irb
    ⟨applyPairs c2 wt ps (· != 0) (fun x y => x / y),
     if ps.all (fun (_, _, y) => y != 0) then [nxt] else []⟩
  | .mod =>
    let ps := arithPairs md ira irb
    ⟨applyPairs c2 wt ps (· != 0) (fun x y => x % y),
     if ps.all (fun (_, _, y) => y != 0) then [nxt] else []⟩
  | .jmp => ⟨c2, [jt]⟩
  | .jmz => ⟨c2, [if (testFields md).all (fun f => getF f irb == 0) then jt else nxt]⟩
  | .jmn => ⟨c2, [if (testFields md).any (fun f => getF f irb != 0) then jt else nxt]⟩
  | .djn =>
    let fs := testFields md
    let c3 := fs.foldl (fun c f => c.modF wt f (fun v => (v + M - 1) % M)) c2
    ⟨c3, [if fs.any (fun f => (getF f irb + M - 1) % M != 0) then jt else nxt]⟩
  | .cmp | .seq => ⟨c2, [if eqTest md ira irb then skp else nxt]⟩
  | .sne => ⟨c2, [if eqTest md ira irb then nxt else skp]⟩
  | .slt => ⟨c2, [if (cmpPairs md ira irb).all (fun (x, y) => x < y) then skp else nxt]⟩
  | .spl => ⟨c2, [nxt, jt]⟩
  | .nop => ⟨c2, [nxt]⟩

theorem step_eq (M R W : Nat) (c : Core) (pc : Nat) :
    step M R W c pc =
      (let ir := c.at pc
       let oa := evalOperand M R W pc c ir.am ir.a
       let ira := oa.core.at ((pc + oa.rp) % M)
       let c1 := postInc M oa.core oa.pip
       let ob := evalOperand M R W pc c1 ir.bm ir.b
       let irb := ob.core.at ((pc + ob.rp) % M)
       let c2 := postInc M ob.core ob.pip
       opStep M ir.op ir.md ira irb c2 ((pc + ob.wp) % M) ((pc + oa.rp) % M) ((pc + 1) % M)
         ((pc + 2) % M)) := rfl

end Spec

/-! ### the opcode phase -/

section
variable {M R W : Nat} {s0 s : Sim} {wi : Nat} {P : UInt64} {c : Spec.Core} {ql : List Nat}

theorem Ctx.addF_spec (hc : Ctx M R W s) (x y : UInt64) (hx : x.toNat < M) (hy : y.toNat < M) :
    (s.addF x y).toNat = (fun x y => (x + y) % M) x.toNat y.toNat ∧
      (fun x y => (x + y) % M) x.toNat y.toNat < M :=
  ⟨hc.idx hx hy, Nat.mod_lt _ hc.pos⟩

theorem Ctx.subF_spec (hc : Ctx M R W s) (x y : UInt64) (hx : x.toNat < M) (hy : y.toNat < M) :
    (s.subF x y).toNat = (fun x y => (x + M - y) % M) x.toNat y.toNat ∧
      (fun x y => (x + M - y) % M) x.toNat y.toNat < M :=
  ⟨u_sub_toNat hc.hm hc.dim.m32 hx hy, Nat.mod_lt _ hc.pos⟩

theorem Ctx.mulF_spec (hc : Ctx M R W s) (x y : UInt64) (hx : x.toNat < M) (hy : y.toNat < M) :
    (s.mulF x y).toNat = (fun x y => (x * y) % M) x.toNat y.toNat ∧
      (fun x y => (x * y) % M) x.toNat y.toNat < M :=
  ⟨u_mul_toNat hc.hm hc.dim.m32 hx hy, Nat.mod_lt _ hc.pos⟩

theorem div_spec (x y : UInt64) (hx : x.toNat < M) (_hy : y.toNat < M) (_h0 : y.toNat ≠ 0) :
    ((fun a b : UInt64 => a / b) x y).toNat = (fun x y => x / y) x.toNat y.toNat ∧
      (fun x y => x / y) x.toNat y.toNat < M :=
  ⟨UInt64.toNat_div x y, Nat.lt_of_le_of_lt (Nat.div_le_self _ _) hx⟩

theorem mod_spec (x y : UInt64) (hx : x.toNat < M) (_hy : y.toNat < M) (_h0 : y.toNat ≠ 0) :
    ((fun a b : UInt64 => a % b) x y).toNat = (fun x y => x % y) x.toNat y.toNat ∧
      (fun x y => x % y) x.toNat y.toNat < M :=
  ⟨UInt64.toNat_mod x y, Nat.lt_of_le_of_lt (Nat.mod_le _ _) hx⟩

theorem St.opPhase (h : St M R W s0 wi P s c ql) (ir ira irb : Instr) (hira : ira.Bd M)
    (hirb : irb.Bd M) (pc rpa rpb wpb : UInt64) (hpc : pc.toNat < M) (hrpa : rpa.toNat < M)
    (hwpb : wpb.toNat < M) :
    ∃ s', s.opPhase ir ira irb pc rpa rpb wpb wi = .ok s' ∧
      St M R W s0 wi P s'
        (Spec.opStep M ir.op ir.md ira.abs irb.abs c ((pc.toNat + wpb.toNat) % M)
          ((pc.toNat + rpa.toNat) % M) ((pc.toNat + 1) % M) ((pc.toNat + 2) % M)).core
        (Spec.enqueue P.toNat ql
          (Spec.opStep M ir.op ir.md ira.abs irb.abs c ((pc.toNat + wpb.toNat) % M)
            ((pc.toNat + rpa.toNat) % M) ((pc.toNat + 1) % M) ((pc.toNat + 2) % M)).succ) := by
  have hc := h.ctx
  have hw : ((pc + wpb) % s.m).toNat = (pc.toNat + wpb.toNat) % M := hc.idx hpc hwpb
  have hj : ((pc + rpa) % s.m).toNat = (pc.toNat + rpa.toNat) % M := hc.idx hpc hrpa
  have hwt : (pc.toNat + wpb.toNat) % M < M := Nat.mod_lt _ hc.pos
  cases hop : ir.op
  case dat =>
    exact ⟨s.terminate wi pc, by simp only [Sim.opPhase, hop, except_pure],
      by simpa [Spec.opStep] using h.terminate pc⟩
  case mov =>
    obtain ⟨s1, e1, h1⟩ := h.mov ir ira irb hira pc _ _ hpc hw hwt
    have h2 := h1.report (rep .write wi ((pc + wpb) % s.m))
    refine ⟨_, by simp only [Sim.opPhase, hop, e1, except_bind_ok, except_pure]; rfl, ?_⟩
    by_cases hi : ir.md = .i
    · simpa [Spec.opStep, hi] using h2
    · simpa [Spec.opStep, hi] using h2
  case add =>
    obtain ⟨s1, e1, h1⟩ := h.arith s.addF (fun x y => (x + y) % M) hc.addF_spec ir ira irb hira hirb
      pc _ _ hpc hw hwt
    have h2 := h1.report (rep .write wi ((pc + wpb) % s.m))
    exact ⟨_, by simp only [Sim.opPhase, hop, e1, except_bind_ok, except_pure]; rfl,
      by simpa [Spec.opStep] using h2⟩
  case sub =>
    obtain ⟨s1, e1, h1⟩ := h.arith s.subF (fun x y => (x + M - y) % M) hc.subF_spec ir ira irb
      hira hirb pc _ _ hpc hw hwt
    have h2 := h1.report (rep .write wi ((pc + wpb) % s.m))
    exact ⟨_, by simp only [Sim.opPhase, hop, e1, except_bind_ok, except_pure]; rfl,
      by simpa [Spec.opStep] using h2⟩
  case mul =>
    obtain ⟨s1, e1, h1⟩ := h.arith s.mulF (fun x y => (x * y) % M) hc.mulF_spec ir ira irb
      hira hirb pc _ _ hpc hw hwt
    have h2 := h1.report (rep .write wi ((pc + wpb) % s.m))
    exact ⟨_, by simp only [Sim.opPhase, hop, e1, except_bind_ok, except_pure]; rfl,
      by simpa [Spec.opStep] using h2⟩
  case div =>
    obtain ⟨s1, e1, h1⟩ := h.divmod (· / ·) (fun x y => x / y) div_spec ir ira irb
      hira hirb pc _ _ hpc hw hwt
    have h2 := h1.report (rep .write wi ((pc + wpb) % s.m))
    exact ⟨_, by simp only [Sim.opPhase, hop, e1, except_bind_ok, except_pure]; rfl,
      by simpa [Spec.opStep] using h2⟩
  case mod =>
    obtain ⟨s1, e1, h1⟩ := h.divmod (· % ·) (fun x y => x % y) mod_spec ir ira irb
      hira hirb pc _ _ hpc hw hwt
    have h2 := h1.report (rep .write wi ((pc + wpb) % s.m))
    exact ⟨_, by simp only [Sim.opPhase, hop, e1, except_bind_ok, except_pure]; rfl,
      by simpa [Spec.opStep] using h2⟩
  case jmp =>
    obtain ⟨s1, e1, h1⟩ := h.push ((pc + rpa) % s.m)
    exact ⟨s1, by simp only [Sim.opPhase, hop, e1], by simpa [Spec.opStep, hj] using h1⟩
  case jmz =>
    obtain ⟨s1, e1, h1⟩ := h.jmz ir irb _ _ hj pc hpc
    exact ⟨s1, by simp only [Sim.opPhase, hop, e1], by simpa [Spec.opStep] using h1⟩
  case jmn =>
    obtain ⟨s1, e1, h1⟩ := h.jmn ir irb _ _ hj pc hpc
    exact ⟨s1, by simp only [Sim.opPhase, hop, e1], by simpa [Spec.opStep] using h1⟩
  case djn =>
    obtain ⟨s1, e1, h1⟩ := h.djn ir irb hirb _ _ hj pc _ _ hpc hw hwt
    have h2 := h1.report (rep .decrement wi ((pc + wpb) % s.m))
    exact ⟨_, by simp only [Sim.opPhase, hop, e1, except_bind_ok, except_pure]; rfl,
      by simpa [Spec.opStep] using h2⟩
  case cmp | seq =>
    obtain ⟨s1, e1, h1⟩ := h.skipIf _ _ (cmpCond_spec ir ira irb) pc hpc
    have h2 : St M R W s0 wi P (s1.reads pc rpa rpb wi) _ _ := (h1.report _).report _
    exact ⟨_, by simp only [Sim.opPhase, hop, e1, except_bind_ok, except_pure]; rfl,
      by simpa [Spec.opStep] using h2⟩
  case sne =>
    obtain ⟨s1, e1, h1⟩ := h.skipIf _ _ (sneCond_spec ir ira irb) pc hpc
    have h2 : St M R W s0 wi P (s1.reads pc rpa rpb wi) _ _ := (h1.report _).report _
    refine ⟨_, by simp only [Sim.opPhase, hop, e1, except_bind_ok, except_pure]; rfl, ?_⟩
    cases ht : Spec.eqTest ir.md ira.abs irb.abs <;> simpa [Spec.opStep, ht] using h2
  case slt =>
    obtain ⟨s1, e1, h1⟩ := h.skipIf _ _ (sltCond_spec ir ira irb) pc hpc
    have h2 : St M R W s0 wi P (s1.reads pc rpa rpb wi) _ _ := (h1.report _).report _
    exact ⟨_, by simp only [Sim.opPhase, hop, e1, except_bind_ok, except_pure]; rfl,
      by simpa [Spec.opStep] using h2⟩
  case spl =>
    obtain ⟨s1, e1, h1⟩ := h.push ((pc + 1) % s.m)
    rw [u_succ_toNat hc.hm hc.dim.m3 hc.dim.m32 hpc] at h1
    obtain ⟨s2, e2, h2⟩ := h1.push ((pc + rpa) % s.m)
    rw [hj, enqueue_append] at h2
    exact ⟨s2, by simp only [Sim.opPhase, hop, e1, except_bind_ok, e2],
      by simpa [Spec.opStep] using h2⟩
  case nop =>
    obtain ⟨s1, e1, h1⟩ := h.push ((pc + 1) % s.m)
    rw [u_succ_toNat hc.hm hc.dim.m3 hc.dim.m32 hpc] at h1
    exact ⟨s1, by simp only [Sim.opPhase, hop, e1], by simpa [Spec.opStep] using h1⟩
end

end Gmars

namespace Gmars

/-! ### assembly -/

namespace Spec

theorem evalOperand_rp_lt {M R W : Nat} (hd : Dim M R W) (pc : Nat) (c : Core) (mode : Mode)
    (num : Nat) : (evalOperand M R W pc c mode num).rp < M := by
  have hM : 0 < M := by have := hd.m3; omega
  unfold evalOperand
  cases kind mode <;> first | exact hM | exact fold_lt _ _ _ hd.r1 hd.rM

theorem evalOperand_wp_lt {M R W : Nat} (hd : Dim M R W) (pc : Nat) (c : Core) (mode : Mode)
    (num : Nat) : (evalOperand M R W pc c mode num).wp < M := by
  have hM : 0 < M := by have := hd.m3; omega
  unfold evalOperand
  cases kind mode <;> first | exact hM | exact fold_lt _ _ _ hd.w1 hd.wM

end Spec

theorem StepPre.dim {s : Sim} {pc : UInt64} {wi : Nat} {q : PQ} (h : StepPre s pc wi q) :
    Dim s.m.toNat s.readLimit.toNat s.writeLimit.toNat :=
  ⟨h.wf.m3, h.m32, h.wf.rl, h.rl, h.wf.wl, h.wl⟩

theorem StepPre.ctx {s : Sim} {pc : UInt64} {wi : Nat} {q : PQ} (h : StepPre s pc wi q) :
    Ctx s.m.toNat s.readLimit.toNat s.writeLimit.toNat s :=
  ⟨h.dim, rfl, rfl, rfl, h.wf.size, fun i hi =>
    ⟨UInt64.lt_iff_toNat_lt.mp (h.wf.fields i hi).1, UInt64.lt_iff_toNat_lt.mp (h.wf.fields i hi).2⟩⟩

theorem StepPre.st {s : Sim} {pc : UInt64} {wi : Nat} {q : PQ} (h : StepPre s pc wi q) :
    St s.m.toNat s.readLimit.toNat s.writeLimit.toNat s wi q.size s s.absCore
      (q.toList.map (·.toNat)) :=
  ⟨h.ctx, rfl, ⟨q, h.pq, h.qinv, rfl, rfl⟩, Frame.refl s wi⟩

theorem StepPre.check {s : Sim} {pc : UInt64} {wi : Nat} {q : PQ} (h : StepPre s pc wi q) :
    (s.m == 0 || s.readLimit == 0 || s.writeLimit == 0) = false := by
  have h1 := h.wf.m3
  have h2 := h.wf.rl
  have h3 := h.wf.wl
  simp only [u_eq_zero_iff, Bool.or_eq_false_iff, beq_eq_false_iff_ne, ne_eq]
  omega

/-- C01: one executed task of the model is one step of the ICWS'94 reference. -/
theorem exec_refines (s : Sim) (pc : UInt64) (wi : Nat) (q : PQ) (h : StepPre s pc wi q) :
    ∃ s' q', s.exec pc wi = .ok s' ∧
      s'.absCore = (Spec.step s.m.toNat s.readLimit.toNat s.writeLimit.toNat s.absCore pc.toNat).core ∧
      s'.pqOf wi = some q' ∧ q'.Inv ∧ q'.size = q.size ∧
      q'.toList.map (·.toNat) =
        Spec.enqueue q.size.toNat (q.toList.map (·.toNat))
          (Spec.step s.m.toNat s.readLimit.toNat s.writeLimit.toNat s.absCore pc.toNat).succ ∧
      Frame s s' wi ∧ s'.FieldsOK := by
  have hd := h.dim
  have hM : 0 < s.m.toNat := by have := hd.m3; omega
  have hpc : pc.toNat < s.m.toNat := UInt64.lt_iff_toNat_lt.mp h.pc
  have h0 := h.st
  -- fetch
  obtain ⟨ir, e1, hir, _⟩ := h0.rd pc hpc
  -- A operand
  obtain ⟨s1, rpa, pipa, e2, h1, hrpa, hpipa, hpl⟩ := h0.aOperand pc hpc ir
  have hrpa' : rpa.toNat < s.m.toNat := hrpa ▸ Spec.evalOperand_rp_lt hd _ _ _ _
  have erd : ((pc + rpa) % s1.m).toNat = (pc.toNat + rpa.toNat) % s.m.toNat := h1.ctx.idx hpc hrpa'
  obtain ⟨ira, e3, hira, hiraB⟩ := h1.rdN _ _ erd (Nat.mod_lt _ hM)
  obtain ⟨s2, e4, h2⟩ := h1.aPost ir pipa hpl
  -- B operand
  obtain ⟨s3, rpb, wpb, pipb, e5, h3, hrpb, hwpb, hpipb, hplb⟩ := h2.bOperand pc hpc ir pipa hpl
  have hrpb' : rpb.toNat < s.m.toNat := hrpb ▸ Spec.evalOperand_rp_lt hd _ _ _ _
  have hwpb' : wpb.toNat < s.m.toNat := hwpb ▸ Spec.evalOperand_wp_lt hd _ _ _ _
  have erdb : ((pc + rpb) % s3.m).toNat = (pc.toNat + rpb.toNat) % s.m.toNat := h3.ctx.idx hpc hrpb'
  obtain ⟨irb, e6, hirb, hirbB⟩ := h3.rdN _ _ erdb (Nat.mod_lt _ hM)
  obtain ⟨s4, e7, h4⟩ := h3.bPost ir pipb hplb
  -- opcode
  obtain ⟨s', e8, h5⟩ := h4.opPhase ir ira irb hiraB hirbB pc rpa rpb wpb hpc hrpa' hwpb'
  have hexec : s.exec pc wi = .ok s' := (exec_of_steps h.check e1 e2 e3 e4 e5 e6 e7).trans e8
  -- the reference step, in the model's terms
  rw [hira, hirb, hrpa, hrpb, hwpb, ← hpipb, ← hpipa] at h5
  have hstep : Spec.step s.m.toNat s.readLimit.toNat s.writeLimit.toNat s.absCore pc.toNat = _ :=
    Spec.step_eq _ _ _ _ _
  rw [← hir] at hstep
  obtain ⟨q', hq', hinv', hsz', hl'⟩ := h5.pq
  refine ⟨s', q', hexec, ?_, hq', hinv', hsz', ?_, h5.frame, ?_⟩
  · rw [hstep]; exact h5.core
  · rw [hstep]; exact hl'
  · intro i hi
    have := h5.ctx.fields i hi
    rw [← h5.ctx.hm] at this
    exact ⟨UInt64.lt_iff_toNat_lt.mpr this.1, UInt64.lt_iff_toNat_lt.mpr this.2⟩

end Gmars
