/-
  UInt64 primitives of sim.go / simops.go against their `Nat` readings, under the
  bounds that make every operation wrap-free (operands `< M ≤ 2^32`).
-/
import Gmars.Proofs.RefineStmt

namespace Gmars

/-- numeric side conditions shared by all step lemmas -/
structure Dim (M R W : Nat) : Prop where
  m3  : 3 ≤ M
  m32 : M ≤ 2 ^ 32
  r1  : 1 ≤ R
  rM  : R ≤ M
  w1  : 1 ≤ W
  wM  : W ≤ M

section arith
variable {M : Nat} {m x y : UInt64}

theorem u_add_toNat (hm : m.toNat = M) (h32 : M ≤ 2 ^ 32) (hx : x.toNat < M) (hy : y.toNat < M) :
    (x + y).toNat = x.toNat + y.toNat := by
  rw [UInt64.toNat_add, Nat.mod_eq_of_lt (by omega)]

/-- `(x + y) % m` -/
theorem u_idx_toNat (hm : m.toNat = M) (h32 : M ≤ 2 ^ 32) (hx : x.toNat < M) (hy : y.toNat < M) :
    ((x + y) % m).toNat = (x.toNat + y.toNat) % M := by
  rw [UInt64.toNat_mod, u_add_toNat hm h32 hx hy, hm]

theorem u_idx_lt (hm : m.toNat = M) (h0 : 0 < M) (z : UInt64) : (z % m).toNat < M := by
  rw [UInt64.toNat_mod, hm]; exact Nat.mod_lt _ h0

theorem u_one_toNat : (1 : UInt64).toNat = 1 := rfl
theorem u_two_toNat : (2 : UInt64).toNat = 2 := rfl

theorem u_succ_toNat (hm : m.toNat = M) (h3 : 3 ≤ M) (h32 : M ≤ 2 ^ 32) (hx : x.toNat < M) :
    ((x + 1) % m).toNat = (x.toNat + 1) % M := by
  have := u_idx_toNat (m := m) (x := x) (y := 1) hm h32 hx (by rw [u_one_toNat]; omega)
  rw [this, u_one_toNat]

theorem u_succ2_toNat (hm : m.toNat = M) (h3 : 3 ≤ M) (h32 : M ≤ 2 ^ 32) (hx : x.toNat < M) :
    ((x + 2) % m).toNat = (x.toNat + 2) % M := by
  have := u_idx_toNat (m := m) (x := x) (y := 2) hm h32 hx (by rw [u_two_toNat]; omega)
  rw [this, u_two_toNat]

/-- `(x + m - 1) % m` -/
theorem u_dec_toNat (hm : m.toNat = M) (h3 : 3 ≤ M) (h32 : M ≤ 2 ^ 32) (hx : x.toNat < M) :
    ((x + m - 1) % m).toNat = (x.toNat + M - 1) % M := by
  have h1 : (x + m).toNat = x.toNat + M := by
    rw [UInt64.toNat_add, hm, Nat.mod_eq_of_lt (by omega)]
  have h2 : (x + m - 1).toNat = x.toNat + M - 1 := by
    rw [UInt64.toNat_sub_of_le _ _ (by rw [UInt64.le_iff_toNat_le, h1, u_one_toNat]; omega), h1,
      u_one_toNat]
  rw [UInt64.toNat_mod, h2, hm]

/-- `(x + (m - y)) % m` -/
theorem u_sub_toNat (hm : m.toNat = M) (h32 : M ≤ 2 ^ 32) (hx : x.toNat < M) (hy : y.toNat < M) :
    ((x + (m - y)) % m).toNat = (x.toNat + M - y.toNat) % M := by
  have h1 : (m - y).toNat = M - y.toNat := by
    rw [UInt64.toNat_sub_of_le _ _ (by rw [UInt64.le_iff_toNat_le, hm]; omega), hm]
  have h2 : (x + (m - y)).toNat = x.toNat + M - y.toNat := by
    rw [UInt64.toNat_add, h1, Nat.mod_eq_of_lt (by omega)]; omega
  rw [UInt64.toNat_mod, h2, hm]

theorem u_mul_toNat (hm : m.toNat = M) (h32 : M ≤ 2 ^ 32) (hx : x.toNat < M) (hy : y.toNat < M) :
    ((x * y) % m).toNat = (x.toNat * y.toNat) % M := by
  have : x.toNat * y.toNat < 2 ^ 32 * 2 ^ 32 :=
    Nat.mul_lt_mul'' (by omega) (by omega)
  have h2 : (x * y).toNat = x.toNat * y.toNat := by
    rw [UInt64.toNat_mul, Nat.mod_eq_of_lt (by omega)]
  rw [UInt64.toNat_mod, h2, hm]

theorem u_eq_zero_iff : (x == 0) = (x.toNat == 0) := by
  rw [Bool.eq_iff_iff]; simp [← UInt64.toNat_inj]

theorem u_ne_zero_iff : (x != 0) = (x.toNat != 0) := by
  simp only [bne, u_eq_zero_iff]

theorem u_beq_iff : (x == y) = (x.toNat == y.toNat) := by
  rw [Bool.eq_iff_iff]; simp [← UInt64.toNat_inj]

theorem u_bne_iff : (x != y) = (x.toNat != y.toNat) := by
  simp only [bne, u_beq_iff]

theorem u_lt_iff : (decide (x < y)) = decide (x.toNat < y.toNat) := by
  simp [UInt64.lt_iff_toNat_lt]

/-- the DJN test `x - 1 != 0` (on the value read before the decrement) -/
theorem u_djn_test (h3 : 3 ≤ M) (hx : x.toNat < M) :
    (x - 1 != 0) = ((x.toNat + M - 1) % M != 0) := by
  have hx64 : x.toNat < 2 ^ 64 := x.toNat_lt
  rw [u_ne_zero_iff, UInt64.toNat_sub, u_one_toNat]
  by_cases h0 : x.toNat = 0
  · rw [h0, Nat.add_zero, Nat.zero_add, Nat.mod_eq_of_lt (by omega), Nat.mod_eq_of_lt (by omega)]
    simp; omega
  · by_cases h1 : x.toNat = 1
    · rw [h1]; simp
    · have e1 : (2 ^ 64 - 1 + x.toNat) % 2 ^ 64 = x.toNat - 1 := by
        rw [show 2 ^ 64 - 1 + x.toNat = (x.toNat - 1) + 2 ^ 64 by omega, Nat.add_mod_right,
          Nat.mod_eq_of_lt (by omega)]
      have e2 : (x.toNat + M - 1) % M = x.toNat - 1 := by
        rw [show x.toNat + M - 1 = (x.toNat - 1) + M by omega, Nat.add_mod_right,
          Nat.mod_eq_of_lt (by omega)]
      rw [e1, e2]

end arith

end Gmars
