/-
  The bookkeeping layer of the step refinement: the state predicate `St` that is
  threaded through one `exec`, and how `rd`, `upd`, `report`, `push` act on it.
-/
import Gmars.Proofs.RefineArith

namespace Gmars

/-- both numbers of an instruction are below the core size -/
def Instr.Bd (M : Nat) (x : Instr) : Prop := x.a.toNat < M ∧ x.b.toNat < M

/-- the part of the invariant the arithmetic of one step depends on -/
structure Ctx (M R W : Nat) (s : Sim) : Prop where
  dim    : Dim M R W
  hm     : s.m.toNat = M
  hr     : s.readLimit.toNat = R
  hw     : s.writeLimit.toNat = W
  size   : s.mem.size = M
  fields : ∀ i (h : i < s.mem.size), (s.mem[i]).Bd M

/-! ### Frame is a preorder, and the primitive state changes are framed -/

theorem Frame.refl (s : Sim) (wi : Nat) : Frame s s wi where
  m := rfl
  maxProcs := rfl
  maxCycles := rfl
  readLimit := rfl
  writeLimit := rfl
  legacy := rfl
  size := rfl
  wsize := rfl
  others := fun _ _ => rfl
  same := fun w w' h h' => by rw [h] at h'; cases h'; exact ⟨rfl, rfl, rfl⟩
  widx := rfl
  count := rfl
  living := rfl
  cycle := rfl
  log := ⟨[], by simp⟩

theorem Frame.trans {s1 s2 s3 : Sim} {wi : Nat} (h12 : Frame s1 s2 wi) (h23 : Frame s2 s3 wi) :
    Frame s1 s3 wi where
  m := h23.m.trans h12.m
  maxProcs := h23.maxProcs.trans h12.maxProcs
  maxCycles := h23.maxCycles.trans h12.maxCycles
  readLimit := h23.readLimit.trans h12.readLimit
  writeLimit := h23.writeLimit.trans h12.writeLimit
  legacy := h23.legacy.trans h12.legacy
  size := h23.size.trans h12.size
  wsize := h23.wsize.trans h12.wsize
  others := fun j hj => (h23.others j hj).trans (h12.others j hj)
  same := by
    intro w w'' h1 h3
    have hlt : wi < s2.warriors.size := by
      rw [h12.wsize]
      exact (Array.getElem?_eq_some_iff.mp h1).1
    have h2 : s2.warriors[wi]? = some s2.warriors[wi] := Array.getElem?_eq_getElem hlt
    obtain ⟨a1, a2, a3⟩ := h12.same _ _ h1 h2
    obtain ⟨b1, b2, b3⟩ := h23.same _ _ h2 h3
    exact ⟨b1.trans a1, b2.trans a2, b3.trans a3⟩
  widx := h23.widx.trans h12.widx
  count := h23.count.trans h12.count
  living := h23.living.trans h12.living
  cycle := h23.cycle.trans h12.cycle
  log := by
    obtain ⟨n1, e1⟩ := h12.log
    obtain ⟨n2, e2⟩ := h23.log
    exact ⟨n1 ++ n2, by rw [e2, e1, List.append_assoc]⟩

/-- a change of `mem` and an extension of `log` only -/
theorem Frame.of_mem_log (s : Sim) (wi : Nat) (mem : Array Instr) (hsz : mem.size = s.mem.size)
    (new : List Report) :
    Frame s { s with mem := mem, log := s.log ++ new.toArray } wi where
  m := rfl
  maxProcs := rfl
  maxCycles := rfl
  readLimit := rfl
  writeLimit := rfl
  legacy := rfl
  size := hsz
  wsize := rfl
  others := fun _ _ => rfl
  same := fun w w' h h' => by
    have h'' : s.warriors[wi]? = some w' := h'
    rw [h] at h''; cases h''; exact ⟨rfl, rfl, rfl⟩
  widx := rfl
  count := rfl
  living := rfl
  cycle := rfl
  log := ⟨new, by simp⟩

theorem Frame.report (s : Sim) (wi : Nat) (r : Report) : Frame s (s.report r) wi := by
  have := Frame.of_mem_log s wi s.mem rfl [r]
  simpa [Sim.report] using this

/-! ### core access -/

theorem absCore_length (s : Sim) : s.absCore.length = s.mem.size := by
  simp [Sim.absCore]

theorem absCore_at (s : Sim) (i : Nat) (h : i < s.mem.size) : s.absCore.at i = (s.mem[i]).abs := by
  simp [Sim.absCore, Spec.Core.at, List.getD_eq_getElem?_getD, h]

theorem absCore_report (s : Sim) (r : Report) : (s.report r).absCore = s.absCore := rfl

theorem pqOf_report (s : Sim) (r : Report) (wi : Nat) : (s.report r).pqOf wi = s.pqOf wi := rfl

theorem Ctx.report {M R W : Nat} {s : Sim} (h : Ctx M R W s) (r : Report) : Ctx M R W (s.report r) :=
  ⟨h.dim, h.hm, h.hr, h.hw, h.size, h.fields⟩

theorem Ctx.rd {M R W : Nat} {s : Sim} (h : Ctx M R W s) (i : UInt64) (hi : i.toNat < M) :
    ∃ x, s.rd i = .ok x ∧ x.abs = s.absCore.at i.toNat ∧ x.Bd M := by
  have hlt : i.toNat < s.mem.size := by rw [h.size]; exact hi
  refine ⟨s.mem[i.toNat], ?_, (absCore_at s _ hlt).symm, h.fields _ hlt⟩
  simp [Sim.rd, hlt]

/-! ### the threaded state predicate -/

/-- `s` is an intermediate state of the task started in `s0`: its core reads as `c`,
    the queue of warrior `wi` reads as `ql`, everything else is as in `s0`. -/
structure St (M R W : Nat) (s0 : Sim) (wi : Nat) (P : UInt64) (s : Sim) (c : Spec.Core)
    (ql : List Nat) : Prop where
  ctx   : Ctx M R W s
  core  : s.absCore = c
  pq    : ∃ q, s.pqOf wi = some q ∧ q.Inv ∧ q.size = P ∧ q.toList.map (·.toNat) = ql
  frame : Frame s0 s wi

section St
variable {M R W : Nat} {s0 s : Sim} {wi : Nat} {P : UInt64} {c : Spec.Core} {ql : List Nat}

theorem St.length (h : St M R W s0 wi P s c ql) : c.length = M := by
  rw [← h.core, absCore_length, h.ctx.size]

theorem St.report (h : St M R W s0 wi P s c ql) (r : Report) :
    St M R W s0 wi P (s.report r) c ql :=
  ⟨h.ctx.report r, h.core, h.pq, h.frame.trans (Frame.report s wi r)⟩

theorem St.rd (h : St M R W s0 wi P s c ql) (i : UInt64) (hi : i.toNat < M) :
    ∃ x, s.rd i = .ok x ∧ x.abs = c.at i.toNat ∧ x.Bd M := by
  have := h.ctx.rd i hi
  rwa [h.core] at this

/-- `s.mem[i] = f(s.mem[i])` against `c.set i (g (c.at i))` -/
theorem St.upd (h : St M R W s0 wi P s c ql) (i : UInt64) (hi : i.toNat < M)
    (f : Instr → Instr) (g : SInstr → SInstr)
    (hfg : ∀ x : Instr, x.Bd M → (f x).abs = g x.abs ∧ (f x).Bd M) :
    ∃ s', s.upd i f = .ok s' ∧ St M R W s0 wi P s' (c.set i.toNat (g (c.at i.toNat))) ql := by
  have hlt : i.toNat < s.mem.size := by rw [h.ctx.size]; exact hi
  obtain ⟨hfa, hfb⟩ := hfg _ (h.ctx.fields _ hlt)
  refine ⟨{ s with mem := s.mem.set i.toNat (f s.mem[i.toNat]) hlt }, ?_, ?_, ?_, h.pq, ?_⟩
  · simp [Sim.upd, hlt]
  · refine ⟨h.ctx.dim, h.ctx.hm, h.ctx.hr, h.ctx.hw, ?_, ?_⟩
    · simp [h.ctx.size]
    · intro j hj
      simp only [Array.size_set] at hj
      simp only [Array.getElem_set]
      split
      · exact hfb
      · exact h.ctx.fields j hj
  · rw [← h.core, absCore_at s _ hlt, ← hfa]
    simp [Sim.absCore, List.map_set]
  · refine h.frame.trans ?_
    have := Frame.of_mem_log s wi (s.mem.set i.toNat (f s.mem[i.toNat]) hlt) (by simp) []
    simpa using this

end St

end Gmars

namespace Gmars

section Push
variable {M R W : Nat} {s0 s : Sim} {wi : Nat} {P : UInt64} {c : Spec.Core} {ql : List Nat}

theorem pqOf_some {s : Sim} {wi : Nat} {q : PQ} (h : s.pqOf wi = some q) :
    ∃ hlt : wi < s.warriors.size, (s.warriors[wi]).pq = some q := by
  unfold Sim.pqOf at h
  cases hw : s.warriors[wi]? with
  | none => rw [hw] at h; cases h
  | some w =>
    rw [hw] at h
    obtain ⟨hlt, rfl⟩ := Array.getElem?_eq_some_iff.mp hw
    exact ⟨hlt, h⟩

theorem Frame.setPq (s : Sim) (wi : Nat) (hlt : wi < s.warriors.size) (q' : PQ) :
    Frame s { s with warriors := s.warriors.set wi { s.warriors[wi] with pq := some q' } hlt } wi where
  m := rfl
  maxProcs := rfl
  maxCycles := rfl
  readLimit := rfl
  writeLimit := rfl
  legacy := rfl
  size := rfl
  wsize := by simp
  others := fun j hj => by
    show (s.warriors.set wi _ hlt)[j]? = _
    rw [Array.getElem?_set_ne hlt (Ne.symm hj)]
  same := fun w w' h h' => by
    have h'' : (s.warriors.set wi { s.warriors[wi] with pq := some q' } hlt)[wi]? = some w' := h'
    rw [Array.getElem?_set_self hlt] at h''
    obtain ⟨_, rfl⟩ := Array.getElem?_eq_some_iff.mp h
    cases h''
    exact ⟨rfl, rfl, rfl⟩
  widx := rfl
  count := rfl
  living := rfl
  cycle := rfl
  log := ⟨[], by simp⟩

theorem enqueue_one (P : Nat) (l : List Nat) (a : Nat) :
    Spec.enqueue P l [a] = if l.length < P then l ++ [a] else l := rfl

theorem enqueue_append (P : Nat) (l xs ys : List Nat) :
    Spec.enqueue P (Spec.enqueue P l xs) ys = Spec.enqueue P l (xs ++ ys) := by
  simp [Spec.enqueue, List.foldl_append]

/-- `w.pq.Push(a)` -/
theorem St.push (h : St M R W s0 wi P s c ql) (a : UInt64) :
    ∃ s', s.push wi a = .ok s' ∧ St M R W s0 wi P s' c (Spec.enqueue P.toNat ql [a.toNat]) := by
  obtain ⟨q, hq, hinv, hsz, hl⟩ := h.pq
  obtain ⟨hlt, hwq⟩ := pqOf_some hq
  obtain ⟨q', hp, hinv', hsz', hl'⟩ := PQ.push_ok q a hinv
  refine ⟨{ s with warriors := s.warriors.set wi { s.warriors[wi] with pq := some q' } hlt },
    ?_, ?_, h.core, ?_, h.frame.trans (Frame.setPq s wi hlt q')⟩
  · simp only [Sim.push, hlt, ↓reduceDIte, hwq, hp]
    rfl
  · exact ⟨h.ctx.dim, h.ctx.hm, h.ctx.hr, h.ctx.hw, h.ctx.size, h.ctx.fields⟩
  · refine ⟨q', ?_, hinv', hsz'.trans hsz, ?_⟩
    · simp [Sim.pqOf]
    · rw [hl', enqueue_one, ← hl, ← hsz, List.length_map]
      split <;> simp

theorem St.pushNext (h : St M R W s0 wi P s c ql) (a : UInt64) :
    ∃ s', s.pushNext wi a = .ok s' ∧ St M R W s0 wi P s' c (Spec.enqueue P.toNat ql [a.toNat]) :=
  (h.report _).push a

end Push

end Gmars
