/-
  Operand phases of `exec` against `Spec.evalOperand` / `Spec.postInc`.
-/
import Gmars.Proofs.RefineMem

namespace Gmars

/-! ### simp vocabulary for the `Except` monad and `report` -/

@[simp] theorem except_pure {ε α : Type} (a : α) : (pure a : Except ε α) = .ok a := rfl
@[simp] theorem except_map_ok {ε α β : Type} (f : α → β) (a : α) :
    f <$> (.ok a : Except ε α) = .ok (f a) := rfl
@[simp] theorem except_bind_ok {ε α β : Type} (f : α → Except ε β) (a : α) :
    ((.ok a : Except ε α) >>= f) = f a := rfl

@[simp] theorem report_m (s : Sim) (r : Report) : (s.report r).m = s.m := rfl
@[simp] theorem report_rd (s : Sim) (r : Report) (i : UInt64) : (s.report r).rd i = s.rd i := rfl
@[simp] theorem report_readFold (s : Sim) (r : Report) (p : UInt64) :
    (s.report r).readFold p = s.readFold p := rfl
@[simp] theorem report_writeFold (s : Sim) (r : Report) (p : UInt64) :
    (s.report r).writeFold p = s.writeFold p := rfl

/-! ### arithmetic in a context -/

section ctx
variable {M R W : Nat} {s : Sim}

theorem Ctx.readFold_toNat (h : Ctx M R W s) (p : UInt64) :
    (s.readFold p).toNat = Spec.fold p.toNat R M := by
  rw [Sim.readFold_eq, foldU_toNat _ _ _ (by rw [h.hr]; exact h.dim.r1)
    (by rw [h.hr, h.hm]; exact h.dim.rM), h.hr, h.hm]

theorem Ctx.writeFold_toNat (h : Ctx M R W s) (p : UInt64) :
    (s.writeFold p).toNat = Spec.fold p.toNat W M := by
  rw [Sim.writeFold_eq, foldU_toNat _ _ _ (by rw [h.hw]; exact h.dim.w1)
    (by rw [h.hw, h.hm]; exact h.dim.wM), h.hw, h.hm]

theorem Ctx.readFold_lt (h : Ctx M R W s) (p : UInt64) : (s.readFold p).toNat < M := by
  rw [h.readFold_toNat]; exact Spec.fold_lt _ _ _ h.dim.r1 h.dim.rM

theorem Ctx.writeFold_lt (h : Ctx M R W s) (p : UInt64) : (s.writeFold p).toNat < M := by
  rw [h.writeFold_toNat]; exact Spec.fold_lt _ _ _ h.dim.w1 h.dim.wM

theorem Ctx.pos (h : Ctx M R W s) : 0 < M := by have := h.dim.m3; omega

theorem Ctx.idx (h : Ctx M R W s) {x y : UInt64} (hx : x.toNat < M) (hy : y.toNat < M) :
    ((x + y) % s.m).toNat = (x.toNat + y.toNat) % M :=
  u_idx_toNat h.hm h.dim.m32 hx hy

theorem Ctx.idx_lt (h : Ctx M R W s) (z : UInt64) : (z % s.m).toNat < M :=
  u_idx_lt h.hm h.pos z

theorem Ctx.add (h : Ctx M R W s) {x y : UInt64} (hx : x.toNat < M) (hy : y.toNat < M) :
    (x + y).toNat = x.toNat + y.toNat :=
  u_add_toNat h.hm h.dim.m32 hx hy

/-- secondary fold of a read pointer -/
theorem Ctx.readFold2 (h : Ctx M R W s) {p v : UInt64} (hp : p.toNat < M) (hv : v.toNat < M) :
    (s.readFold (p + v)).toNat = Spec.fold (p.toNat + v.toNat) R M := by
  rw [h.readFold_toNat, h.add hp hv]

theorem Ctx.writeFold2 (h : Ctx M R W s) {p v : UInt64} (hp : p.toNat < M) (hv : v.toNat < M) :
    (s.writeFold (p + v)).toNat = Spec.fold (p.toNat + v.toNat) W M := by
  rw [h.writeFold_toNat, h.add hp hv]

theorem decA_spec (hc : Ctx M R W s) (x : Instr) (hx : x.Bd M) :
    (decA s.m x).abs = Spec.setF .A x.abs ((fun v => (v + M - 1) % M) (Spec.getF .A x.abs)) ∧
      (decA s.m x).Bd M := by
  have e := u_dec_toNat (m := s.m) (x := x.a) hc.hm hc.dim.m3 hc.dim.m32 hx.1
  refine ⟨?_, ?_, hx.2⟩
  · simp only [decA, Instr.abs, Spec.setF, Spec.getF, e]
  · show ((x.a + s.m - 1) % s.m).toNat < M
    exact hc.idx_lt _

theorem decB_spec (hc : Ctx M R W s) (x : Instr) (hx : x.Bd M) :
    (decB s.m x).abs = Spec.setF .B x.abs ((fun v => (v + M - 1) % M) (Spec.getF .B x.abs)) ∧
      (decB s.m x).Bd M := by
  have e := u_dec_toNat (m := s.m) (x := x.b) hc.hm hc.dim.m3 hc.dim.m32 hx.2
  refine ⟨?_, hx.1, ?_⟩
  · simp only [decB, Instr.abs, Spec.setF, Spec.getF, e]
  · show ((x.b + s.m - 1) % s.m).toNat < M
    exact hc.idx_lt _

theorem incA_spec (hc : Ctx M R W s) (x : Instr) (hx : x.Bd M) :
    (incA s.m x).abs = Spec.setF .A x.abs ((fun v => (v + 1) % M) (Spec.getF .A x.abs)) ∧
      (incA s.m x).Bd M := by
  have e := u_succ_toNat (m := s.m) (x := x.a) hc.hm hc.dim.m3 hc.dim.m32 hx.1
  refine ⟨?_, ?_, hx.2⟩
  · simp only [incA, Instr.abs, Spec.setF, Spec.getF, e]
  · show ((x.a + 1) % s.m).toNat < M
    exact hc.idx_lt _

theorem incB_spec (hc : Ctx M R W s) (x : Instr) (hx : x.Bd M) :
    (incB s.m x).abs = Spec.setF .B x.abs ((fun v => (v + 1) % M) (Spec.getF .B x.abs)) ∧
      (incB s.m x).Bd M := by
  have e := u_succ_toNat (m := s.m) (x := x.b) hc.hm hc.dim.m3 hc.dim.m32 hx.2
  refine ⟨?_, hx.1, ?_⟩
  · simp only [incB, Instr.abs, Spec.setF, Spec.getF, e]
  · show ((x.b + 1) % s.m).toNat < M
    exact hc.idx_lt _

end ctx

section updF
variable {M R W : Nat} {s0 s : Sim} {wi : Nat} {P : UInt64} {c : Spec.Core} {ql : List Nat}

/-- `upd` with a function that rewrites one number, at an index known as a `Nat` -/
theorem St.updF (h : St M R W s0 wi P s c ql) (i : UInt64) (n : Nat) (hin : i.toNat = n)
    (hn : n < M) (f : Instr → Instr) (fld : Spec.Field) (g : Nat → Nat)
    (hfg : ∀ x : Instr, x.Bd M →
      (f x).abs = Spec.setF fld x.abs (g (Spec.getF fld x.abs)) ∧ (f x).Bd M) :
    ∃ s', s.upd i f = .ok s' ∧ St M R W s0 wi P s' (c.modF n fld g) ql := by
  subst hin
  exact h.upd i hn f (fun x => Spec.setF fld x (g (Spec.getF fld x))) hfg

theorem St.rdN (h : St M R W s0 wi P s c ql) (i : UInt64) (n : Nat) (hin : i.toNat = n)
    (hn : n < M) : ∃ x, s.rd i = .ok x ∧ x.abs = c.at n ∧ x.Bd M := by
  subst hin
  exact h.rd i hn

end updF

/-! ### closed forms of the model's operand functions, mode by mode -/

section model
variable {s s1 : Sim} {pc pip0 : UInt64} {ir x y : Instr} {wi : Nat}

theorem aOperand_imm (hm : ir.am = .immediate) : s.aOperand pc ir wi = .ok (s, 0, 0) := by
  simp [Sim.aOperand, hm]

theorem aOperand_dir (hm : ir.am = .direct) :
    s.aOperand pc ir wi = .ok (s, s.readFold ir.a, 0) := by
  simp [Sim.aOperand, hm, Mode.isA, Mode.isB]

theorem aOperand_aInd (hm : ir.am = .aInd) (hr : s.rd ((pc + s.readFold ir.a) % s.m) = .ok x) :
    s.aOperand pc ir wi = .ok (s, s.readFold (s.readFold ir.a + x.a), 0) := by
  simp [Sim.aOperand, hm, Mode.isA, Mode.isB, hr]

theorem aOperand_bInd (hm : ir.am = .bInd) (hr : s.rd ((pc + s.readFold ir.a) % s.m) = .ok x) :
    s.aOperand pc ir wi = .ok (s, s.readFold (s.readFold ir.a + x.b), 0) := by
  simp [Sim.aOperand, hm, Mode.isA, Mode.isB, hr]

theorem aOperand_aDec (hm : ir.am = .aDec)
    (hu : s.upd ((pc + s.writeFold ir.a) % s.m) (decA s.m) = .ok s1)
    (hr : s1.rd ((pc + s.readFold ir.a) % s1.m) = .ok x) :
    s.aOperand pc ir wi =
      .ok (s1.report (rep .decrement wi ((pc + s.writeFold ir.a) % s.m)),
           s1.readFold (s.readFold ir.a + x.a), 0) := by
  simp [Sim.aOperand, hm, Mode.isA, Mode.isB, hu, hr]

theorem aOperand_bDec (hm : ir.am = .bDec)
    (hu : s.upd ((pc + s.writeFold ir.a) % s.m) (decB s.m) = .ok s1)
    (hr : s1.rd ((pc + s.readFold ir.a) % s1.m) = .ok x) :
    s.aOperand pc ir wi =
      .ok (s1.report (rep .decrement wi ((pc + s.writeFold ir.a) % s.m)),
           s1.readFold (s.readFold ir.a + x.b), 0) := by
  simp [Sim.aOperand, hm, Mode.isA, Mode.isB, hu, hr]

theorem aOperand_aInc (hm : ir.am = .aInc) (hr : s.rd ((pc + s.readFold ir.a) % s.m) = .ok x) :
    s.aOperand pc ir wi =
      .ok (s, s.readFold (s.readFold ir.a + x.a), (pc + s.writeFold ir.a) % s.m) := by
  simp [Sim.aOperand, hm, Mode.isA, Mode.isB, hr]

theorem aOperand_bInc (hm : ir.am = .bInc) (hr : s.rd ((pc + s.readFold ir.a) % s.m) = .ok x) :
    s.aOperand pc ir wi =
      .ok (s, s.readFold (s.readFold ir.a + x.b), (pc + s.writeFold ir.a) % s.m) := by
  simp [Sim.aOperand, hm, Mode.isA, Mode.isB, hr]

theorem aPost_aInc {pip : UInt64} (hm : ir.am = .aInc) (hu : s.upd pip (incA s.m) = .ok s1) :
    s.aPost ir pip wi = .ok (s1.report (rep .increment wi pip)) := by
  simp [Sim.aPost, hm, hu]

theorem aPost_bInc {pip : UInt64} (hm : ir.am = .bInc) (hu : s.upd pip (incB s.m) = .ok s1) :
    s.aPost ir pip wi = .ok (s1.report (rep .increment wi pip)) := by
  simp [Sim.aPost, hm, hu]

theorem aPost_other {pip : UInt64} (h1 : ir.am ≠ .aInc) (h2 : ir.am ≠ .bInc) :
    s.aPost ir pip wi = .ok s := by
  simp [Sim.aPost, h1, h2]

theorem bOperand_imm (hm : ir.bm = .immediate) :
    s.bOperand pc ir wi pip0 = .ok (s, 0, 0, pip0) := by
  simp [Sim.bOperand, hm]

theorem bOperand_dir (hm : ir.bm = .direct) :
    s.bOperand pc ir wi pip0 = .ok (s, s.readFold ir.b, s.writeFold ir.b, pip0) := by
  simp [Sim.bOperand, hm, Mode.isA, Mode.isB]

theorem bOperand_aInd (hm : ir.bm = .aInd) (hr : s.rd ((pc + s.readFold ir.b) % s.m) = .ok x)
    (hw : s.rd ((pc + s.writeFold ir.b) % s.m) = .ok y) :
    s.bOperand pc ir wi pip0 =
      .ok (s, s.readFold (s.readFold ir.b + x.a), s.writeFold (s.writeFold ir.b + y.a), pip0) := by
  simp [Sim.bOperand, hm, Mode.isA, Mode.isB, hr, hw]

theorem bOperand_bInd (hm : ir.bm = .bInd) (hr : s.rd ((pc + s.readFold ir.b) % s.m) = .ok x)
    (hw : s.rd ((pc + s.writeFold ir.b) % s.m) = .ok y) :
    s.bOperand pc ir wi pip0 =
      .ok (s, s.readFold (s.readFold ir.b + x.b), s.writeFold (s.writeFold ir.b + y.b), pip0) := by
  simp [Sim.bOperand, hm, Mode.isA, Mode.isB, hr, hw]

theorem bOperand_aDec (hm : ir.bm = .aDec)
    (hu : s.upd ((pc + s.writeFold ir.b) % s.m) (decA s.m) = .ok s1)
    (hr : s1.rd ((pc + s.readFold ir.b) % s1.m) = .ok x)
    (hw : s1.rd ((pc + s.writeFold ir.b) % s1.m) = .ok y) :
    s.bOperand pc ir wi pip0 =
      .ok (s1.report (rep .decrement wi ((pc + s.writeFold ir.b) % s.m)),
           s1.readFold (s.readFold ir.b + x.a), s1.writeFold (s.writeFold ir.b + y.a), pip0) := by
  simp [Sim.bOperand, hm, Mode.isA, Mode.isB, hu, hr, hw]

theorem bOperand_bDec (hm : ir.bm = .bDec)
    (hu : s.upd ((pc + s.writeFold ir.b) % s.m) (decB s.m) = .ok s1)
    (hr : s1.rd ((pc + s.readFold ir.b) % s1.m) = .ok x)
    (hw : s1.rd ((pc + s.writeFold ir.b) % s1.m) = .ok y) :
    s.bOperand pc ir wi pip0 =
      .ok (s1.report (rep .decrement wi ((pc + s.writeFold ir.b) % s.m)),
           s1.readFold (s.readFold ir.b + x.b), s1.writeFold (s.writeFold ir.b + y.b), pip0) := by
  simp [Sim.bOperand, hm, Mode.isA, Mode.isB, hu, hr, hw]

theorem bOperand_aInc (hm : ir.bm = .aInc) (hr : s.rd ((pc + s.readFold ir.b) % s.m) = .ok x)
    (hw : s.rd ((pc + s.writeFold ir.b) % s.m) = .ok y) :
    s.bOperand pc ir wi pip0 =
      .ok (s, s.readFold (s.readFold ir.b + x.a), s.writeFold (s.writeFold ir.b + y.a),
           (pc + s.writeFold ir.b) % s.m) := by
  simp [Sim.bOperand, hm, Mode.isA, Mode.isB, hr, hw]

theorem bOperand_bInc (hm : ir.bm = .bInc) (hr : s.rd ((pc + s.readFold ir.b) % s.m) = .ok x)
    (hw : s.rd ((pc + s.writeFold ir.b) % s.m) = .ok y) :
    s.bOperand pc ir wi pip0 =
      .ok (s, s.readFold (s.readFold ir.b + x.b), s.writeFold (s.writeFold ir.b + y.b),
           (pc + s.writeFold ir.b) % s.m) := by
  simp [Sim.bOperand, hm, Mode.isA, Mode.isB, hr, hw]

theorem bPost_aInc {pip : UInt64} (hm : ir.bm = .aInc) (hu : s.upd pip (incA s.m) = .ok s1) :
    s.bPost ir pip wi = .ok (s1.report (rep .increment wi pip)) := by
  simp [Sim.bPost, hm, hu]

theorem bPost_bInc {pip : UInt64} (hm : ir.bm = .bInc) (hu : s.upd pip (incB s.m) = .ok s1) :
    s.bPost ir pip wi = .ok (s1.report (rep .increment wi pip)) := by
  simp [Sim.bPost, hm, hu]

theorem bPost_other {pip : UInt64} (h1 : ir.bm ≠ .aInc) (h2 : ir.bm ≠ .bInc) :
    s.bPost ir pip wi = .ok s := by
  simp [Sim.bPost, h1, h2]

end model

end Gmars

namespace Gmars

/-! ### refinement of the operand phases -/

section refine
variable {M R W : Nat} {s0 s : Sim} {wi : Nat} {P : UInt64} {c : Spec.Core} {ql : List Nat}

/-- the post-increment request as the model carries it: a bare cell address, the
    number being implied by the addressing mode -/
def pipOf (mode : Mode) (pip : UInt64) : Option (Nat × Spec.Field) :=
  match Spec.kind mode with
  | .post f => some (pip.toNat, f)
  | _ => none

theorem St.aOperand (h : St M R W s0 wi P s c ql) (pc : UInt64) (hpc : pc.toNat < M) (ir : Instr) :
    ∃ s1 rpa pip, s.aOperand pc ir wi = .ok (s1, rpa, pip) ∧
      St M R W s0 wi P s1 (Spec.evalOperand M R W pc.toNat c ir.am ir.a.toNat).core ql ∧
      rpa.toNat = (Spec.evalOperand M R W pc.toNat c ir.am ir.a.toNat).rp ∧
      (Spec.evalOperand M R W pc.toNat c ir.am ir.a.toNat).pip = pipOf ir.am pip ∧
      pip.toNat < M := by
  have hc := h.ctx
  have hrl := hc.readFold_lt ir.a
  have hwl := hc.writeFold_lt ir.a
  have erd : ((pc + s.readFold ir.a) % s.m).toNat = (pc.toNat + Spec.fold ir.a.toNat R M) % M := by
    rw [hc.idx hpc hrl, hc.readFold_toNat]
  have ewr : ((pc + s.writeFold ir.a) % s.m).toNat = (pc.toNat + Spec.fold ir.a.toNat W M) % M := by
    rw [hc.idx hpc hwl, hc.writeFold_toNat]
  have hM := hc.pos
  have h0 : (0 : UInt64).toNat < M := hM
  cases hm : ir.am
  case immediate =>
    exact ⟨_, _, _, aOperand_imm hm, by simpa [Spec.evalOperand, Spec.kind] using h, rfl, rfl, h0⟩
  case direct =>
    refine ⟨_, _, _, aOperand_dir hm, by simpa [Spec.evalOperand, Spec.kind] using h, ?_, rfl, h0⟩
    simp [Spec.evalOperand, Spec.kind, hc.readFold_toNat]
  case aInd =>
    obtain ⟨x, hr, hx, hxb⟩ := h.rdN _ _ erd (Nat.mod_lt _ hM)
    refine ⟨_, _, _, aOperand_aInd hm hr, by simpa [Spec.evalOperand, Spec.kind] using h, ?_, rfl, h0⟩
    rw [hc.readFold2 hrl hxb.1, hc.readFold_toNat]
    simp [Spec.evalOperand, Spec.kind, ← hx, Spec.getF, Instr.abs]
  case bInd =>
    obtain ⟨x, hr, hx, hxb⟩ := h.rdN _ _ erd (Nat.mod_lt _ hM)
    refine ⟨_, _, _, aOperand_bInd hm hr, by simpa [Spec.evalOperand, Spec.kind] using h, ?_, rfl, h0⟩
    rw [hc.readFold2 hrl hxb.2, hc.readFold_toNat]
    simp [Spec.evalOperand, Spec.kind, ← hx, Spec.getF, Instr.abs]
  case aDec =>
    obtain ⟨s1, hu, h1⟩ := h.updF _ _ ewr (Nat.mod_lt _ hM) (decA s.m) .A (fun v => (v + M - 1) % M)
      (decA_spec hc)
    have hc1 := h1.ctx
    have erd1 : ((pc + s.readFold ir.a) % s1.m).toNat =
        (pc.toNat + Spec.fold ir.a.toNat R M) % M := by
      rw [hc1.idx hpc hrl, hc.readFold_toNat]
    obtain ⟨x, hr, hx, hxb⟩ := h1.rdN _ _ erd1 (Nat.mod_lt _ hM)
    refine ⟨_, _, _, aOperand_aDec hm hu hr, ?_, ?_, rfl, h0⟩
    · simpa [Spec.evalOperand, Spec.kind] using h1.report _
    · rw [hc1.readFold2 hrl hxb.1, hc.readFold_toNat]
      simp [Spec.evalOperand, Spec.kind, ← hx, Spec.getF, Instr.abs]
  case bDec =>
    obtain ⟨s1, hu, h1⟩ := h.updF _ _ ewr (Nat.mod_lt _ hM) (decB s.m) .B (fun v => (v + M - 1) % M)
      (decB_spec hc)
    have hc1 := h1.ctx
    have erd1 : ((pc + s.readFold ir.a) % s1.m).toNat =
        (pc.toNat + Spec.fold ir.a.toNat R M) % M := by
      rw [hc1.idx hpc hrl, hc.readFold_toNat]
    obtain ⟨x, hr, hx, hxb⟩ := h1.rdN _ _ erd1 (Nat.mod_lt _ hM)
    refine ⟨_, _, _, aOperand_bDec hm hu hr, ?_, ?_, rfl, h0⟩
    · simpa [Spec.evalOperand, Spec.kind] using h1.report _
    · rw [hc1.readFold2 hrl hxb.2, hc.readFold_toNat]
      simp [Spec.evalOperand, Spec.kind, ← hx, Spec.getF, Instr.abs]
  case aInc =>
    obtain ⟨x, hr, hx, hxb⟩ := h.rdN _ _ erd (Nat.mod_lt _ hM)
    refine ⟨_, _, _, aOperand_aInc hm hr, by simpa [Spec.evalOperand, Spec.kind] using h, ?_, ?_,
      hc.idx_lt _⟩
    · rw [hc.readFold2 hrl hxb.1, hc.readFold_toNat]
      simp [Spec.evalOperand, Spec.kind, ← hx, Spec.getF, Instr.abs]
    · simp [Spec.evalOperand, Spec.kind, pipOf, ewr]
  case bInc =>
    obtain ⟨x, hr, hx, hxb⟩ := h.rdN _ _ erd (Nat.mod_lt _ hM)
    refine ⟨_, _, _, aOperand_bInc hm hr, by simpa [Spec.evalOperand, Spec.kind] using h, ?_, ?_,
      hc.idx_lt _⟩
    · rw [hc.readFold2 hrl hxb.2, hc.readFold_toNat]
      simp [Spec.evalOperand, Spec.kind, ← hx, Spec.getF, Instr.abs]
    · simp [Spec.evalOperand, Spec.kind, pipOf, ewr]

theorem St.aPost (h : St M R W s0 wi P s c ql) (ir : Instr) (pip : UInt64) (hp : pip.toNat < M) :
    ∃ s', s.aPost ir pip wi = .ok s' ∧
      St M R W s0 wi P s' (Spec.postInc M c (pipOf ir.am pip)) ql := by
  have hc := h.ctx
  by_cases h1 : ir.am = .aInc
  · obtain ⟨s1, hu, hs1⟩ := h.updF pip _ rfl hp (incA s.m) .A (fun v => (v + 1) % M) (incA_spec hc)
    refine ⟨_, aPost_aInc h1 hu, ?_⟩
    simpa [pipOf, Spec.kind, h1, Spec.postInc] using hs1.report _
  · by_cases h2 : ir.am = .bInc
    · obtain ⟨s1, hu, hs1⟩ := h.updF pip _ rfl hp (incB s.m) .B (fun v => (v + 1) % M) (incB_spec hc)
      refine ⟨_, aPost_bInc h2 hu, ?_⟩
      simpa [pipOf, Spec.kind, h2, Spec.postInc] using hs1.report _
    · refine ⟨_, aPost_other h1 h2, ?_⟩
      have : pipOf ir.am pip = none := by
        cases hm : ir.am <;> simp_all [pipOf, Spec.kind]
      simpa [this, Spec.postInc] using h

theorem St.bOperand (h : St M R W s0 wi P s c ql) (pc : UInt64) (hpc : pc.toNat < M) (ir : Instr)
    (pip0 : UInt64) (hp0 : pip0.toNat < M) :
    ∃ s1 rpb wpb pip, s.bOperand pc ir wi pip0 = .ok (s1, rpb, wpb, pip) ∧
      St M R W s0 wi P s1 (Spec.evalOperand M R W pc.toNat c ir.bm ir.b.toNat).core ql ∧
      rpb.toNat = (Spec.evalOperand M R W pc.toNat c ir.bm ir.b.toNat).rp ∧
      wpb.toNat = (Spec.evalOperand M R W pc.toNat c ir.bm ir.b.toNat).wp ∧
      (Spec.evalOperand M R W pc.toNat c ir.bm ir.b.toNat).pip = pipOf ir.bm pip ∧
      pip.toNat < M := by
  have hc := h.ctx
  have hrl := hc.readFold_lt ir.b
  have hwl := hc.writeFold_lt ir.b
  have erd : ((pc + s.readFold ir.b) % s.m).toNat = (pc.toNat + Spec.fold ir.b.toNat R M) % M := by
    rw [hc.idx hpc hrl, hc.readFold_toNat]
  have ewr : ((pc + s.writeFold ir.b) % s.m).toNat = (pc.toNat + Spec.fold ir.b.toNat W M) % M := by
    rw [hc.idx hpc hwl, hc.writeFold_toNat]
  have hM := hc.pos
  have h0 : (0 : UInt64).toNat < M := hM
  cases hm : ir.bm
  case immediate =>
    exact ⟨_, _, _, _, bOperand_imm hm, by simpa [Spec.evalOperand, Spec.kind] using h, rfl, rfl,
      rfl, hp0⟩
  case direct =>
    refine ⟨_, _, _, _, bOperand_dir hm, by simpa [Spec.evalOperand, Spec.kind] using h, ?_, ?_,
      rfl, hp0⟩
    · simp [Spec.evalOperand, Spec.kind, hc.readFold_toNat]
    · simp [Spec.evalOperand, Spec.kind, hc.writeFold_toNat]
  case aInd =>
    obtain ⟨x, hr, hx, hxb⟩ := h.rdN _ _ erd (Nat.mod_lt _ hM)
    obtain ⟨y, hw, hy, hyb⟩ := h.rdN _ _ ewr (Nat.mod_lt _ hM)
    refine ⟨_, _, _, _, bOperand_aInd hm hr hw, by simpa [Spec.evalOperand, Spec.kind] using h,
      ?_, ?_, rfl, hp0⟩
    · rw [hc.readFold2 hrl hxb.1, hc.readFold_toNat]
      simp [Spec.evalOperand, Spec.kind, ← hx, Spec.getF, Instr.abs]
    · rw [hc.writeFold2 hwl hyb.1, hc.writeFold_toNat]
      simp [Spec.evalOperand, Spec.kind, ← hy, Spec.getF, Instr.abs]
  case bInd =>
    obtain ⟨x, hr, hx, hxb⟩ := h.rdN _ _ erd (Nat.mod_lt _ hM)
    obtain ⟨y, hw, hy, hyb⟩ := h.rdN _ _ ewr (Nat.mod_lt _ hM)
    refine ⟨_, _, _, _, bOperand_bInd hm hr hw, by simpa [Spec.evalOperand, Spec.kind] using h,
      ?_, ?_, rfl, hp0⟩
    · rw [hc.readFold2 hrl hxb.2, hc.readFold_toNat]
      simp [Spec.evalOperand, Spec.kind, ← hx, Spec.getF, Instr.abs]
    · rw [hc.writeFold2 hwl hyb.2, hc.writeFold_toNat]
      simp [Spec.evalOperand, Spec.kind, ← hy, Spec.getF, Instr.abs]
  case aDec =>
    obtain ⟨s1, hu, h1⟩ := h.updF _ _ ewr (Nat.mod_lt _ hM) (decA s.m) .A (fun v => (v + M - 1) % M)
      (decA_spec hc)
    have hc1 := h1.ctx
    have erd1 : ((pc + s.readFold ir.b) % s1.m).toNat =
        (pc.toNat + Spec.fold ir.b.toNat R M) % M := by
      rw [hc1.idx hpc hrl, hc.readFold_toNat]
    have ewr1 : ((pc + s.writeFold ir.b) % s1.m).toNat =
        (pc.toNat + Spec.fold ir.b.toNat W M) % M := by
      rw [hc1.idx hpc hwl, hc.writeFold_toNat]
    obtain ⟨x, hr, hx, hxb⟩ := h1.rdN _ _ erd1 (Nat.mod_lt _ hM)
    obtain ⟨y, hw, hy, hyb⟩ := h1.rdN _ _ ewr1 (Nat.mod_lt _ hM)
    refine ⟨_, _, _, _, bOperand_aDec hm hu hr hw, ?_, ?_, ?_, rfl, hp0⟩
    · simpa [Spec.evalOperand, Spec.kind] using h1.report _
    · rw [hc1.readFold2 hrl hxb.1, hc.readFold_toNat]
      simp [Spec.evalOperand, Spec.kind, ← hx, Spec.getF, Instr.abs]
    · rw [hc1.writeFold2 hwl hyb.1, hc.writeFold_toNat]
      simp [Spec.evalOperand, Spec.kind, ← hy, Spec.getF, Instr.abs]
  case bDec =>
    obtain ⟨s1, hu, h1⟩ := h.updF _ _ ewr (Nat.mod_lt _ hM) (decB s.m) .B (fun v => (v + M - 1) % M)
      (decB_spec hc)
    have hc1 := h1.ctx
    have erd1 : ((pc + s.readFold ir.b) % s1.m).toNat =
        (pc.toNat + Spec.fold ir.b.toNat R M) % M := by
      rw [hc1.idx hpc hrl, hc.readFold_toNat]
    have ewr1 : ((pc + s.writeFold ir.b) % s1.m).toNat =
        (pc.toNat + Spec.fold ir.b.toNat W M) % M := by
      rw [hc1.idx hpc hwl, hc.writeFold_toNat]
    obtain ⟨x, hr, hx, hxb⟩ := h1.rdN _ _ erd1 (Nat.mod_lt _ hM)
    obtain ⟨y, hw, hy, hyb⟩ := h1.rdN _ _ ewr1 (Nat.mod_lt _ hM)
    refine ⟨_, _, _, _, bOperand_bDec hm hu hr hw, ?_, ?_, ?_, rfl, hp0⟩
    · simpa [Spec.evalOperand, Spec.kind] using h1.report _
    · rw [hc1.readFold2 hrl hxb.2, hc.readFold_toNat]
      simp [Spec.evalOperand, Spec.kind, ← hx, Spec.getF, Instr.abs]
    · rw [hc1.writeFold2 hwl hyb.2, hc.writeFold_toNat]
      simp [Spec.evalOperand, Spec.kind, ← hy, Spec.getF, Instr.abs]
  case aInc =>
    obtain ⟨x, hr, hx, hxb⟩ := h.rdN _ _ erd (Nat.mod_lt _ hM)
    obtain ⟨y, hw, hy, hyb⟩ := h.rdN _ _ ewr (Nat.mod_lt _ hM)
    refine ⟨_, _, _, _, bOperand_aInc hm hr hw, by simpa [Spec.evalOperand, Spec.kind] using h,
      ?_, ?_, ?_, hc.idx_lt _⟩
    · rw [hc.readFold2 hrl hxb.1, hc.readFold_toNat]
      simp [Spec.evalOperand, Spec.kind, ← hx, Spec.getF, Instr.abs]
    · rw [hc.writeFold2 hwl hyb.1, hc.writeFold_toNat]
      simp [Spec.evalOperand, Spec.kind, ← hy, Spec.getF, Instr.abs]
    · simp [Spec.evalOperand, Spec.kind, pipOf, ewr]
  case bInc =>
    obtain ⟨x, hr, hx, hxb⟩ := h.rdN _ _ erd (Nat.mod_lt _ hM)
    obtain ⟨y, hw, hy, hyb⟩ := h.rdN _ _ ewr (Nat.mod_lt _ hM)
    refine ⟨_, _, _, _, bOperand_bInc hm hr hw, by simpa [Spec.evalOperand, Spec.kind] using h,
      ?_, ?_, ?_, hc.idx_lt _⟩
    · rw [hc.readFold2 hrl hxb.2, hc.readFold_toNat]
      simp [Spec.evalOperand, Spec.kind, ← hx, Spec.getF, Instr.abs]
    · rw [hc.writeFold2 hwl hyb.2, hc.writeFold_toNat]
      simp [Spec.evalOperand, Spec.kind, ← hy, Spec.getF, Instr.abs]
    · simp [Spec.evalOperand, Spec.kind, pipOf, ewr]

theorem St.bPost (h : St M R W s0 wi P s c ql) (ir : Instr) (pip : UInt64) (hp : pip.toNat < M) :
    ∃ s', s.bPost ir pip wi = .ok s' ∧
      St M R W s0 wi P s' (Spec.postInc M c (pipOf ir.bm pip)) ql := by
  have hc := h.ctx
  by_cases h1 : ir.bm = .aInc
  · obtain ⟨s1, hu, hs1⟩ := h.updF pip _ rfl hp (incA s.m) .A (fun v => (v + 1) % M) (incA_spec hc)
    refine ⟨_, bPost_aInc h1 hu, ?_⟩
    simpa [pipOf, Spec.kind, h1, Spec.postInc] using hs1.report _
  · by_cases h2 : ir.bm = .bInc
    · obtain ⟨s1, hu, hs1⟩ := h.updF pip _ rfl hp (incB s.m) .B (fun v => (v + 1) % M) (incB_spec hc)
      refine ⟨_, bPost_bInc h2 hu, ?_⟩
      simpa [pipOf, Spec.kind, h2, Spec.postInc] using hs1.report _
    · refine ⟨_, bPost_other h1 h2, ?_⟩
      have : pipOf ir.bm pip = none := by
        cases hm : ir.bm <;> simp_all [pipOf, Spec.kind]
      simpa [this, Spec.postInc] using h

end refine

end Gmars
