/-
  The opcode phase of `exec` (simops.go) against the result part of `Spec.step`,
  one lemma per opcode family.
-/
import Gmars.Proofs.RefineOperand

namespace Gmars

/-! ### list-core facts -/

namespace Spec

theorem Core.at_set_self (c : Core) (w : Nat) (x : SInstr) (hw : w < c.length) :
    Core.at (c.set w x) w = x := by
  simp [Core.at, List.getD_eq_getElem?_getD, hw]

/-- updates of the two numbers of one cell commute -/
theorem Core.modF_comm (c : Core) (w : Nat) (hw : w < c.length) (g1 g2 : Nat → Nat) :
    (c.modF w .A g1).modF w .B g2 = (c.modF w .B g2).modF w .A g1 := by
  simp [Core.modF, Core.at_set_self _ _ _ hw, List.set_set, setF, getF]

theorem enqueue_nil (P : Nat) (l : List Nat) : enqueue P l [] = l := rfl

end Spec

section
variable {M R W : Nat} {s0 s : Sim} {wi : Nat} {P : UInt64} {c : Spec.Core} {ql : List Nat}

/-! ### single-number stores -/

theorem St.setA (h : St M R W s0 wi P s c ql) (i : UInt64) (n : Nat) (hin : i.toNat = n)
    (hn : n < M) (v : UInt64) (vn : Nat) (hv : v.toNat = vn) (hvn : vn < M) :
    ∃ s', s.upd i (fun c => { c with a := v }) = .ok s' ∧
      St M R W s0 wi P s' (c.modF n .A (fun _ => vn)) ql := by
  refine h.updF i n hin hn _ .A (fun _ => vn) ?_
  intro x hx
  subst hv
  exact ⟨rfl, hvn, hx.2⟩

theorem St.setB (h : St M R W s0 wi P s c ql) (i : UInt64) (n : Nat) (hin : i.toNat = n)
    (hn : n < M) (v : UInt64) (vn : Nat) (hv : v.toNat = vn) (hvn : vn < M) :
    ∃ s', s.upd i (fun c => { c with b := v }) = .ok s' ∧
      St M R W s0 wi P s' (c.modF n .B (fun _ => vn)) ql := by
  refine h.updF i n hin hn _ .B (fun _ => vn) ?_
  intro x hx
  subst hv
  exact ⟨rfl, hx.1, hvn⟩

/-- guarded store (DIV / MOD) -/
theorem St.setA_if (h : St M R W s0 wi P s c ql) (i : UInt64) (n : Nat) (hin : i.toNat = n)
    (hn : n < M) (b : Bool) (v : UInt64) (vn : Nat) (hv : b = true → v.toNat = vn ∧ vn < M) :
    ∃ s', (if b then s.upd i (fun c => { c with a := v }) else pure s) = .ok s' ∧
      St M R W s0 wi P s' (if b then c.modF n .A (fun _ => vn) else c) ql := by
  cases b
  · exact ⟨s, rfl, h⟩
  · obtain ⟨e, l⟩ := hv rfl
    simpa using h.setA i n hin hn v vn e l

theorem St.setB_if (h : St M R W s0 wi P s c ql) (i : UInt64) (n : Nat) (hin : i.toNat = n)
    (hn : n < M) (b : Bool) (v : UInt64) (vn : Nat) (hv : b = true → v.toNat = vn ∧ vn < M) :
    ∃ s', (if b then s.upd i (fun c => { c with b := v }) else pure s) = .ok s' ∧
      St M R W s0 wi P s' (if b then c.modF n .B (fun _ => vn) else c) ql := by
  cases b
  · exact ⟨s, rfl, h⟩
  · obtain ⟨e, l⟩ := hv rfl
    simpa using h.setB i n hin hn v vn e l

/-! ### queueing the successor -/

/-- the common tail: queue `pc+1` -/
theorem St.tailNext (h : St M R W s0 wi P s c ql) (pc : UInt64) (hpc : pc.toNat < M) :
    ∃ s', s.pushNext wi ((pc + 1) % s.m) = .ok s' ∧
      St M R W s0 wi P s' c (Spec.enqueue P.toNat ql [(pc.toNat + 1) % M]) := by
  obtain ⟨s', hp, h'⟩ := h.pushNext ((pc + 1) % s.m)
  rw [u_succ_toNat h.ctx.hm h.ctx.dim.m3 h.ctx.dim.m32 hpc] at h'
  exact ⟨s', hp, h'⟩

theorem ite_toNat (b bN : Bool) (hb : b = bN) (x y : UInt64) (xn yn : Nat) (hx : x.toNat = xn)
    (hy : y.toNat = yn) : (if b then x else y).toNat = if bN then xn else yn := by
  subst hb hx hy; cases b <;> rfl

/-- queue `tgt` or `pc+1` (JMN, DJN) -/
theorem St.pushNextIf (h : St M R W s0 wi P s c ql) (b bN : Bool) (hb : b = bN)
    (tgt : UInt64) (jt : Nat) (ht : tgt.toNat = jt) (pc : UInt64) (hpc : pc.toNat < M) :
    ∃ s', s.pushNext wi (if b then tgt else (pc + 1) % s.m) = .ok s' ∧
      St M R W s0 wi P s' c
        (Spec.enqueue P.toNat ql [if bN then jt else (pc.toNat + 1) % M]) := by
  obtain ⟨s', hp, h'⟩ := h.pushNext (if b then tgt else (pc + 1) % s.m)
  rw [ite_toNat b bN hb _ _ _ _ ht
    (u_succ_toNat h.ctx.hm h.ctx.dim.m3 h.ctx.dim.m32 hpc)] at h'
  exact ⟨s', hp, h'⟩

/-- queue `tgt` or `pc+1` without a report (JMZ) -/
theorem St.pushIf (h : St M R W s0 wi P s c ql) (b bN : Bool) (hb : b = bN)
    (tgt : UInt64) (jt : Nat) (ht : tgt.toNat = jt) (pc : UInt64) (hpc : pc.toNat < M) :
    ∃ s', s.push wi (if b then tgt else (pc + 1) % s.m) = .ok s' ∧
      St M R W s0 wi P s' c
        (Spec.enqueue P.toNat ql [if bN then jt else (pc.toNat + 1) % M]) := by
  obtain ⟨s', hp, h'⟩ := h.push (if b then tgt else (pc + 1) % s.m)
  rw [ite_toNat b bN hb _ _ _ _ ht
    (u_succ_toNat h.ctx.hm h.ctx.dim.m3 h.ctx.dim.m32 hpc)] at h'
  exact ⟨s', hp, h'⟩

/-- SEQ / SNE / SLT: queue `pc+2` or `pc+1` -/
theorem St.skipIf (h : St M R W s0 wi P s c ql) (b bN : Bool) (hb : b = bN)
    (pc : UInt64) (hpc : pc.toNat < M) :
    ∃ s', s.skipIf b pc wi = .ok s' ∧
      St M R W s0 wi P s' c
        (Spec.enqueue P.toNat ql [if bN then (pc.toNat + 2) % M else (pc.toNat + 1) % M]) := by
  obtain ⟨s', hp, h'⟩ := h.pushNext (if b then (pc + 2) % s.m else (pc + 1) % s.m)
  rw [ite_toNat b bN hb _ _ _ _ (u_succ2_toNat h.ctx.hm h.ctx.dim.m3 h.ctx.dim.m32 hpc)
    (u_succ_toNat h.ctx.hm h.ctx.dim.m3 h.ctx.dim.m32 hpc)] at h'
  exact ⟨s', hp, h'⟩

/-! ### MOV -/

theorem St.mov (h : St M R W s0 wi P s c ql) (ir ira irb : Instr) (hira : ira.Bd M)
    (pc wab : UInt64) (wt : Nat) (hpc : pc.toNat < M) (hw : wab.toNat = wt) (hwt : wt < M) :
    ∃ s', s.mov ir ira wab pc wi = .ok s' ∧
      St M R W s0 wi P s'
        (if ir.md = .i then c.set wt ira.abs
         else Spec.applyPairs c wt (Spec.arithPairs ir.md ira.abs irb.abs) (fun _ => true)
           (fun _ y => y))
        (Spec.enqueue P.toNat ql [(pc.toNat + 1) % M]) := by
  cases hmd : ir.md
  case a =>
    obtain ⟨s1, hu, h1⟩ := h.setA wab wt hw hwt ira.a _ rfl hira.1
    obtain ⟨s2, hp, h2⟩ := h1.tailNext pc hpc
    exact ⟨s2, by simp [Sim.mov, hmd, hu, hp],
      by simpa [Spec.applyPairs, Spec.arithPairs, Instr.abs] using h2⟩
  case b =>
    obtain ⟨s1, hu, h1⟩ := h.setB wab wt hw hwt ira.b _ rfl hira.2
    obtain ⟨s2, hp, h2⟩ := h1.tailNext pc hpc
    exact ⟨s2, by simp [Sim.mov, hmd, hu, hp],
      by simpa [Spec.applyPairs, Spec.arithPairs, Instr.abs] using h2⟩
  case ab =>
    obtain ⟨s1, hu, h1⟩ := h.setB wab wt hw hwt ira.a _ rfl hira.1
    obtain ⟨s2, hp, h2⟩ := h1.tailNext pc hpc
    exact ⟨s2, by simp [Sim.mov, hmd, hu, hp],
      by simpa [Spec.applyPairs, Spec.arithPairs, Instr.abs] using h2⟩
  case ba =>
    obtain ⟨s1, hu, h1⟩ := h.setA wab wt hw hwt ira.b _ rfl hira.2
    obtain ⟨s2, hp, h2⟩ := h1.tailNext pc hpc
    exact ⟨s2, by simp [Sim.mov, hmd, hu, hp],
      by simpa [Spec.applyPairs, Spec.arithPairs, Instr.abs] using h2⟩
  case f =>
    obtain ⟨s1, hu, h1⟩ := h.setA wab wt hw hwt ira.a _ rfl hira.1
    obtain ⟨s1', hu', h1'⟩ := h1.setB wab wt hw hwt ira.b _ rfl hira.2
    obtain ⟨s2, hp, h2⟩ := h1'.tailNext pc hpc
    exact ⟨s2, by simp [Sim.mov, hmd, hu, hu', hp],
      by simpa [Spec.applyPairs, Spec.arithPairs, Instr.abs] using h2⟩
  case x =>
    obtain ⟨s1, hu, h1⟩ := h.setB wab wt hw hwt ira.a _ rfl hira.1
    obtain ⟨s1', hu', h1'⟩ := h1.setA wab wt hw hwt ira.b _ rfl hira.2
    obtain ⟨s2, hp, h2⟩ := h1'.tailNext pc hpc
    exact ⟨s2, by simp [Sim.mov, hmd, hu, hu', hp],
      by simpa [Spec.applyPairs, Spec.arithPairs, Instr.abs] using h2⟩
  case i =>
    obtain ⟨s1, hu, h1⟩ := h.upd wab (hw ▸ hwt) (fun _ => ira) (fun _ => ira.abs)
      (fun x _ => ⟨rfl, hira⟩)
    obtain ⟨s2, hp, h2⟩ := h1.tailNext pc hpc
    exact ⟨s2, by simp [Sim.mov, hmd, hu, hp], by simpa [hw] using h2⟩

/-! ### ADD / SUB / MUL -/

theorem St.arith (h : St M R W s0 wi P s c ql) (g : UInt64 → UInt64 → UInt64)
    (gN : Nat → Nat → Nat)
    (hg : ∀ x y : UInt64, x.toNat < M → y.toNat < M →
      (g x y).toNat = gN x.toNat y.toNat ∧ gN x.toNat y.toNat < M)
    (ir ira irb : Instr) (hira : ira.Bd M) (hirb : irb.Bd M)
    (pc wab : UInt64) (wt : Nat) (hpc : pc.toNat < M) (hw : wab.toNat = wt) (hwt : wt < M) :
    ∃ s', s.arith g ir ira irb wab pc wi = .ok s' ∧
      St M R W s0 wi P s'
        (Spec.applyPairs c wt (Spec.arithPairs ir.md ira.abs irb.abs) (fun _ => true) gN)
        (Spec.enqueue P.toNat ql [(pc.toNat + 1) % M]) := by
  obtain ⟨eaa, laa⟩ := hg irb.a ira.a hirb.1 hira.1
  obtain ⟨ebb, lbb⟩ := hg irb.b ira.b hirb.2 hira.2
  obtain ⟨eba, lba⟩ := hg irb.b ira.a hirb.2 hira.1
  obtain ⟨eab, lab⟩ := hg irb.a ira.b hirb.1 hira.2
  cases hmd : ir.md
  case a =>
    obtain ⟨s1, hu, h1⟩ := h.setA wab wt hw hwt _ _ eaa laa
    obtain ⟨s2, hp, h2⟩ := h1.tailNext pc hpc
    exact ⟨s2, by simp [Sim.arith, hmd, hu, hp],
      by simpa [Spec.applyPairs, Spec.arithPairs, Instr.abs] using h2⟩
  case b =>
    obtain ⟨s1, hu, h1⟩ := h.setB wab wt hw hwt _ _ ebb lbb
    obtain ⟨s2, hp, h2⟩ := h1.tailNext pc hpc
    exact ⟨s2, by simp [Sim.arith, hmd, hu, hp],
      by simpa [Spec.applyPairs, Spec.arithPairs, Instr.abs] using h2⟩
  case ab =>
    obtain ⟨s1, hu, h1⟩ := h.setB wab wt hw hwt _ _ eba lba
    obtain ⟨s2, hp, h2⟩ := h1.tailNext pc hpc
    exact ⟨s2, by simp [Sim.arith, hmd, hu, hp],
      by simpa [Spec.applyPairs, Spec.arithPairs, Instr.abs] using h2⟩
  case ba =>
    obtain ⟨s1, hu, h1⟩ := h.setA wab wt hw hwt _ _ eab lab
    obtain ⟨s2, hp, h2⟩ := h1.tailNext pc hpc
    exact ⟨s2, by simp [Sim.arith, hmd, hu, hp],
      by simpa [Spec.applyPairs, Spec.arithPairs, Instr.abs] using h2⟩
  case f | i =>
    obtain ⟨s1, hu, h1⟩ := h.setA wab wt hw hwt _ _ eaa laa
    obtain ⟨s1', hu', h1'⟩ := h1.setB wab wt hw hwt _ _ ebb lbb
    obtain ⟨s2, hp, h2⟩ := h1'.tailNext pc hpc
    exact ⟨s2, by simp [Sim.arith, hmd, hu, hu', hp],
      by simpa [Spec.applyPairs, Spec.arithPairs, Instr.abs] using h2⟩
  case x =>
    obtain ⟨s1, hu, h1⟩ := h.setA wab wt hw hwt _ _ eab lab
    obtain ⟨s1', hu', h1'⟩ := h1.setB wab wt hw hwt _ _ eba lba
    obtain ⟨s2, hp, h2⟩ := h1'.tailNext pc hpc
    refine ⟨s2, by simp [Sim.arith, hmd, hu, hu', hp], ?_⟩
    rw [Spec.Core.modF_comm c wt (by rw [h.length]; exact hwt)] at h2
    simpa [Spec.applyPairs, Spec.arithPairs, Instr.abs] using h2

/-! ### DIV / MOD -/

theorem St.terminate (h : St M R W s0 wi P s c ql) (pc : UInt64) :
    St M R W s0 wi P (s.terminate wi pc) c (Spec.enqueue P.toNat ql []) :=
  h.report _

theorem u_toNat_eq_zero {x : UInt64} : x.toNat = 0 ↔ x = 0 := by
  rw [← UInt64.toNat_inj]; rfl

theorem St.divmod (h : St M R W s0 wi P s c ql) (g : UInt64 → UInt64 → UInt64)
    (gN : Nat → Nat → Nat)
    (hg : ∀ x y : UInt64, x.toNat < M → y.toNat < M → y.toNat ≠ 0 →
      (g x y).toNat = gN x.toNat y.toNat ∧ gN x.toNat y.toNat < M)
    (ir ira irb : Instr) (hira : ira.Bd M) (hirb : irb.Bd M)
    (pc wab : UInt64) (wt : Nat) (hpc : pc.toNat < M) (hw : wab.toNat = wt) (hwt : wt < M) :
    ∃ s', s.divmod g ir ira irb wab pc wi = .ok s' ∧
      St M R W s0 wi P s'
        (Spec.applyPairs c wt (Spec.arithPairs ir.md ira.abs irb.abs) (· != 0) gN)
        (Spec.enqueue P.toNat ql
          (if (Spec.arithPairs ir.md ira.abs irb.abs).all (fun (_, _, y) => y != 0)
           then [(pc.toNat + 1) % M] else [])) := by
  have haa := hg irb.a ira.a hirb.1 hira.1
  have hbb := hg irb.b ira.b hirb.2 hira.2
  have hba := hg irb.b ira.a hirb.2 hira.1
  have hab := hg irb.a ira.b hirb.1 hira.2
  cases hmd : ir.md
  case a =>
    by_cases hz : ira.a = 0
    · refine ⟨s.terminate wi pc, by simp [Sim.divmod, hmd, hz], ?_⟩
      have : ira.a.toNat = 0 := u_toNat_eq_zero.mpr hz
      simpa [Spec.applyPairs, Spec.arithPairs, Instr.abs, this] using h.terminate pc
    · have hz' : ira.a.toNat ≠ 0 := fun e => hz (u_toNat_eq_zero.mp e)
      obtain ⟨s1, hu, h1⟩ := h.setA wab wt hw hwt _ _ (haa hz').1 (haa hz').2
      obtain ⟨s2, hp, h2⟩ := h1.tailNext pc hpc
      exact ⟨s2, by simp [Sim.divmod, hmd, hz, hu, hp],
        by simpa [Spec.applyPairs, Spec.arithPairs, Instr.abs, hz'] using h2⟩
  case b =>
    by_cases hz : ira.b = 0
    · refine ⟨s.terminate wi pc, by simp [Sim.divmod, hmd, hz], ?_⟩
      have : ira.b.toNat = 0 := u_toNat_eq_zero.mpr hz
      simpa [Spec.applyPairs, Spec.arithPairs, Instr.abs, this] using h.terminate pc
    · have hz' : ira.b.toNat ≠ 0 := fun e => hz (u_toNat_eq_zero.mp e)
      obtain ⟨s1, hu, h1⟩ := h.setB wab wt hw hwt _ _ (hbb hz').1 (hbb hz').2
      obtain ⟨s2, hp, h2⟩ := h1.tailNext pc hpc
      exact ⟨s2, by simp [Sim.divmod, hmd, hz, hu, hp],
        by simpa [Spec.applyPairs, Spec.arithPairs, Instr.abs, hz'] using h2⟩
  case ab =>
    by_cases hz : ira.a = 0
    · refine ⟨s.terminate wi pc, by simp [Sim.divmod, hmd, hz], ?_⟩
      have : ira.a.toNat = 0 := u_toNat_eq_zero.mpr hz
      simpa [Spec.applyPairs, Spec.arithPairs, Instr.abs, this] using h.terminate pc
    · have hz' : ira.a.toNat ≠ 0 := fun e => hz (u_toNat_eq_zero.mp e)
      obtain ⟨s1, hu, h1⟩ := h.setB wab wt hw hwt _ _ (hba hz').1 (hba hz').2
      obtain ⟨s2, hp, h2⟩ := h1.tailNext pc hpc
      exact ⟨s2, by simp [Sim.divmod, hmd, hz, hu, hp],
        by simpa [Spec.applyPairs, Spec.arithPairs, Instr.abs, hz'] using h2⟩
  case ba =>
    by_cases hz : ira.b = 0
    · refine ⟨s.terminate wi pc, by simp [Sim.divmod, hmd, hz], ?_⟩
      have : ira.b.toNat = 0 := u_toNat_eq_zero.mpr hz
      simpa [Spec.applyPairs, Spec.arithPairs, Instr.abs, this] using h.terminate pc
    · have hz' : ira.b.toNat ≠ 0 := fun e => hz (u_toNat_eq_zero.mp e)
      obtain ⟨s1, hu, h1⟩ := h.setA wab wt hw hwt _ _ (hab hz').1 (hab hz').2
      obtain ⟨s2, hp, h2⟩ := h1.tailNext pc hpc
      exact ⟨s2, by simp [Sim.divmod, hmd, hz, hu, hp],
        by simpa [Spec.applyPairs, Spec.arithPairs, Instr.abs, hz'] using h2⟩
  case f | i =>
    obtain ⟨s1, hu, h1⟩ := h.setA_if wab wt hw hwt (ira.a != 0) (g irb.a ira.a)
      (gN irb.a.toNat ira.a.toNat) (fun hb => haa (by rwa [u_ne_zero_iff, bne_iff_ne] at hb))
    obtain ⟨s2, hu', h2⟩ := h1.setB_if wab wt hw hwt (ira.b != 0) (g irb.b ira.b)
      (gN irb.b.toNat ira.b.toNat) (fun hb => hbb (by rwa [u_ne_zero_iff, bne_iff_ne] at hb))
    by_cases hz : (ira.a == 0 || ira.b == 0) = true
    · refine ⟨s2.terminate wi pc, ?_, ?_⟩
      · simp only [Sim.divmod, hmd, hu, hu', hz, except_bind_ok, ite_true]
        rfl
      · have := h2.terminate pc
        clear hu hu' h2 h1
        by_cases ha : ira.a = 0 <;> by_cases hb : ira.b = 0 <;>
          simp_all [Spec.applyPairs, Spec.arithPairs, Instr.abs, u_toNat_eq_zero]
    · obtain ⟨s3, hp, h3⟩ := h2.tailNext pc hpc
      refine ⟨s3, ?_, ?_⟩
      · simp only [Sim.divmod, hmd, hu, hu', hz, except_bind_ok]
        exact hp
      · clear hu hu' h2 h1 hp
        by_cases ha : ira.a = 0 <;> by_cases hb : ira.b = 0 <;>
          simp_all [Spec.applyPairs, Spec.arithPairs, Instr.abs, u_toNat_eq_zero]
  case x =>
    obtain ⟨s1, hu, h1⟩ := h.setB_if wab wt hw hwt (ira.a != 0) (g irb.b ira.a)
      (gN irb.b.toNat ira.a.toNat) (fun hb => hba (by rwa [u_ne_zero_iff, bne_iff_ne] at hb))
    obtain ⟨s2, hu', h2⟩ := h1.setA_if wab wt hw hwt (ira.b != 0) (g irb.a ira.b)
      (gN irb.a.toNat ira.b.toNat) (fun hb => hab (by rwa [u_ne_zero_iff, bne_iff_ne] at hb))
    by_cases hz : (ira.a == 0 || ira.b == 0) = true
    · refine ⟨s2.terminate wi pc, ?_, ?_⟩
      · simp only [Sim.divmod, hmd, hu, hu', hz, except_bind_ok, ite_true]
        rfl
      · have := h2.terminate pc
        clear hu hu' h2 h1
        by_cases ha : ira.a = 0 <;> by_cases hb : ira.b = 0 <;>
          simp_all [Spec.applyPairs, Spec.arithPairs, Instr.abs, u_toNat_eq_zero]
    · obtain ⟨s3, hp, h3⟩ := h2.tailNext pc hpc
      refine ⟨s3, ?_, ?_⟩
      · simp only [Sim.divmod, hmd, hu, hu', hz, except_bind_ok]
        exact hp
      · clear hu hu' h2 h1 hp
        by_cases ha : ira.a = 0 <;> by_cases hb : ira.b = 0 <;>
          simp_all [Spec.applyPairs, Spec.arithPairs, Instr.abs, u_toNat_eq_zero]

/-! ### JMZ / JMN -/

/-- the zero test of JMZ as the model computes it -/
def jmzCond (ir irb : Instr) : Bool :=
  match ir.md with
  | .a | .ba => irb.a == 0
  | .b | .ab => irb.b == 0
  | .f | .x | .i => irb.a == 0 && irb.b == 0

def jmnCond (ir irb : Instr) : Bool :=
  match ir.md with
  | .a | .ba => irb.a != 0
  | .b | .ab => irb.b != 0
  | .f | .x | .i => irb.a != 0 || irb.b != 0

theorem jmz_eq (s : Sim) (ir irb : Instr) (rab pc : UInt64) (wi : Nat) :
    s.jmz ir irb rab pc wi = s.push wi (if jmzCond ir irb then rab else (pc + 1) % s.m) := by
  unfold Sim.jmz jmzCond
  cases ir.md <;> simp only [] <;> split <;> rfl

theorem jmn_eq (s : Sim) (ir irb : Instr) (rab pc : UInt64) (wi : Nat) :
    s.jmn ir irb rab pc wi = s.pushNext wi (if jmnCond ir irb then rab else (pc + 1) % s.m) := by
  unfold Sim.jmn jmnCond
  cases ir.md <;> rfl

theorem jmzCond_spec (ir irb : Instr) :
    jmzCond ir irb = (Spec.testFields ir.md).all (fun f => Spec.getF f irb.abs == 0) := by
  unfold jmzCond
  cases ir.md <;> simp only [Spec.testFields, Spec.getF, Instr.abs, List.all_cons, List.all_nil,
    Bool.and_true, u_eq_zero_iff]

theorem jmnCond_spec (ir irb : Instr) :
    jmnCond ir irb = (Spec.testFields ir.md).any (fun f => Spec.getF f irb.abs != 0) := by
  unfold jmnCond
  cases ir.md <;> simp only [Spec.testFields, Spec.getF, Instr.abs, List.any_cons, List.any_nil,
    Bool.or_false, u_ne_zero_iff]

theorem St.jmz (h : St M R W s0 wi P s c ql) (ir irb : Instr) (rab : UInt64) (jt : Nat)
    (hj : rab.toNat = jt) (pc : UInt64) (hpc : pc.toNat < M) :
    ∃ s', s.jmz ir irb rab pc wi = .ok s' ∧
      St M R W s0 wi P s' c (Spec.enqueue P.toNat ql
        [if (Spec.testFields ir.md).all (fun f => Spec.getF f irb.abs == 0) then jt
         else (pc.toNat + 1) % M]) := by
  rw [jmz_eq]
  exact h.pushIf _ _ (jmzCond_spec ir irb) rab jt hj pc hpc

theorem St.jmn (h : St M R W s0 wi P s c ql) (ir irb : Instr) (rab : UInt64) (jt : Nat)
    (hj : rab.toNat = jt) (pc : UInt64) (hpc : pc.toNat < M) :
    ∃ s', s.jmn ir irb rab pc wi = .ok s' ∧
      St M R W s0 wi P s' c (Spec.enqueue P.toNat ql
        [if (Spec.testFields ir.md).any (fun f => Spec.getF f irb.abs != 0) then jt
         else (pc.toNat + 1) % M]) := by
  rw [jmn_eq]
  exact h.pushNextIf _ _ (jmnCond_spec ir irb) rab jt hj pc hpc

/-! ### DJN -/

theorem St.djn (h : St M R W s0 wi P s c ql) (ir irb : Instr) (hirb : irb.Bd M)
    (rab : UInt64) (jt : Nat) (hj : rab.toNat = jt)
    (pc wab : UInt64) (wt : Nat) (hpc : pc.toNat < M) (hw : wab.toNat = wt) (hwt : wt < M) :
    ∃ s', s.djn ir irb rab wab pc wi = .ok s' ∧
      St M R W s0 wi P s'
        ((Spec.testFields ir.md).foldl (fun c f => c.modF wt f (fun v => (v + M - 1) % M)) c)
        (Spec.enqueue P.toNat ql
          [if (Spec.testFields ir.md).any (fun f => (Spec.getF f irb.abs + M - 1) % M != 0) then jt
           else (pc.toNat + 1) % M]) := by
  have hc := h.ctx
  have ta := u_djn_test (x := irb.a) hc.dim.m3 hirb.1
  have tb := u_djn_test (x := irb.b) hc.dim.m3 hirb.2
  cases hmd : ir.md
  case a | ba =>
    obtain ⟨s1, hu, h1⟩ := h.updF wab wt hw hwt (decA s.m) .A (fun v => (v + M - 1) % M)
      (decA_spec hc)
    obtain ⟨s2, hp, h2⟩ := h1.pushNextIf (irb.a - 1 != 0) _ ta rab jt hj pc hpc
    exact ⟨s2, by simp only [Sim.djn, hmd, hu, except_bind_ok, except_pure, hp],
      by simpa [Spec.testFields, Spec.getF, Instr.abs] using h2⟩
  case b | ab =>
    obtain ⟨s1, hu, h1⟩ := h.updF wab wt hw hwt (decB s.m) .B (fun v => (v + M - 1) % M)
      (decB_spec hc)
    obtain ⟨s2, hp, h2⟩ := h1.pushNextIf (irb.b - 1 != 0) _ tb rab jt hj pc hpc
    exact ⟨s2, by simp only [Sim.djn, hmd, hu, except_bind_ok, except_pure, hp],
      by simpa [Spec.testFields, Spec.getF, Instr.abs] using h2⟩
  case f | x | i =>
    obtain ⟨s1, hu, h1⟩ := h.updF wab wt hw hwt (decA s.m) .A (fun v => (v + M - 1) % M)
      (decA_spec hc)
    obtain ⟨s1', hu', h1'⟩ := h1.updF wab wt hw hwt (decB s1.m) .B (fun v => (v + M - 1) % M)
      (decB_spec h1.ctx)
    obtain ⟨s2, hp, h2⟩ := h1'.pushNextIf (irb.b - 1 != 0 || irb.a - 1 != 0)
      ((irb.a.toNat + M - 1) % M != 0 || (irb.b.toNat + M - 1) % M != 0)
      (by rw [ta, tb, Bool.or_comm]) rab jt hj pc hpc
    exact ⟨s2, by simp only [Sim.djn, hmd, hu, hu', except_bind_ok, except_pure, hp],
      by simpa [Spec.testFields, Spec.getF, Instr.abs] using h2⟩

end

/-! ### SEQ / SNE / SLT conditions -/

theorem Instr.abs_inj {x y : Instr} : x.abs = y.abs ↔ x = y := by
  constructor
  · intro h
    cases x; cases y
    simp only [Instr.abs, SInstr.mk.injEq, UInt64.toNat_inj] at h
    simp only [Instr.mk.injEq]
    exact h
  · rintro rfl; rfl

theorem eqI_spec (x y : Instr) : x.eqI y = (x.abs == y.abs) := by
  rw [Bool.eq_iff_iff]
  simp only [beq_iff_eq, Instr.abs_inj]
  cases x; cases y
  simp only [Instr.eqI, Bool.and_eq_true, beq_iff_eq, Instr.mk.injEq, and_assoc]
  constructor
  · rintro ⟨h1, h2, h3, h4, h5, h6⟩; exact ⟨h1, h2, h4, h3, h6, h5⟩
  · rintro ⟨h1, h2, h3, h4, h5, h6⟩; exact ⟨h1, h2, h4, h3, h6, h5⟩

/-- the equality test of SEQ / SNE in the reference -/
def Spec.eqTest (md : Modifier) (ira irb : SInstr) : Bool :=
  if md = .i then ira == irb else (Spec.cmpPairs md ira irb).all (fun (x, y) => x == y)

theorem cmpCond_spec (ir ira irb : Instr) :
    cmpCond ir ira irb = Spec.eqTest ir.md ira.abs irb.abs := by
  unfold cmpCond Spec.eqTest
  cases ir.md <;> simp only [Spec.cmpPairs, Instr.abs, List.all_cons, List.all_nil,
    Bool.and_true, u_beq_iff, reduceCtorEq, ite_false, ite_true]
  exact eqI_spec ira irb

theorem sneCond_spec (ir ira irb : Instr) :
    sneCond ir ira irb = !Spec.eqTest ir.md ira.abs irb.abs := by
  rw [← cmpCond_spec]
  unfold sneCond cmpCond
  cases ir.md <;> simp only [Instr.eqI, bne, Bool.not_and]

theorem sltCond_spec (ir ira irb : Instr) :
    sltCond ir ira irb = (Spec.cmpPairs ir.md ira.abs irb.abs).all (fun (x, y) => x < y) := by
  unfold sltCond
  cases ir.md <;> simp only [Spec.cmpPairs, Instr.abs, List.all_cons, List.all_nil,
    Bool.and_true, UInt64.lt_iff_toNat_lt]

end Gmars
