/-
  Statement vocabulary for the step refinement (C01) and the step invariant (C04).
-/
import Gmars.Proofs.Abs
import Gmars.Proofs.Queue
import Gmars.Proofs.Fold

namespace Gmars

/-- the queue of warrior `wi`, if it exists and has been spawned -/
def Sim.pqOf (s : Sim) (wi : Nat) : Option PQ := (s.warriors[wi]?).bind (·.pq)

/-- what one executed task leaves untouched -/
structure Frame (s s' : Sim) (wi : Nat) : Prop where
  m          : s'.m = s.m
  maxProcs   : s'.maxProcs = s.maxProcs
  maxCycles  : s'.maxCycles = s.maxCycles
  readLimit  : s'.readLimit = s.readLimit
  writeLimit : s'.writeLimit = s.writeLimit
  legacy     : s'.legacy = s.legacy
  size       : s'.mem.size = s.mem.size
  wsize      : s'.warriors.size = s.warriors.size
  others     : ∀ j, j ≠ wi → s'.warriors[j]? = s.warriors[j]?
  same       : ∀ w w', s.warriors[wi]? = some w → s'.warriors[wi]? = some w' →
                 w'.data = w.data ∧ w'.index = w.index ∧ w'.state = w.state
  widx       : s'.warriorIndex = s.warriorIndex
  count      : s'.warriorCount = s.warriorCount
  living     : s'.living = s.living
  cycle      : s'.cycleCount = s.cycleCount
  log        : ∃ new : List Report, s'.log.toList = s.log.toList ++ new

/-- hypotheses under which one step of the model is compared with the reference -/
structure StepPre (s : Sim) (pc : UInt64) (wi : Nat) (q : PQ) : Prop where
  wf  : s.WF
  m32 : s.m.toNat ≤ 2 ^ 32
  rl  : s.readLimit.toNat ≤ s.m.toNat
  wl  : s.writeLimit.toNat ≤ s.m.toNat
  pc  : pc < s.m
  pq  : s.pqOf wi = some q
  qinv : q.Inv

end Gmars
