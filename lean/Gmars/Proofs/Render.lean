/-
  C03 "Redcode source assembles to the instructions it denotes", lexer and parser stages.
  Frozen models: `Gmars/Model/Lex.lean` (`Lex.tokens`), `Gmars/Model/Parser.lean` (`parse`).

  Stage 2, tokens → source lines (`Gmars/Proofs/RenderParse.lean`)
    * `Stmt`, `Stmt.tokens`, `Stmt.OK`, `Item`, `Prog`, `Prog.tokens`, `Prog.lines`, `Prog.OK`
    * `parse_prog`          : `parse p.tokens = .ok (some (p.lines, p.metadata))`
    * `parse_instr_lines`   : statements only, `stmtsLines` gives `line = i + 1`, `codeLine = i`,
                              `newlines = 1` with a B operand; without B operand `newlines = 0`
                              and an extra empty-line entry with the SAME line number follows
    * `stmtsLines_allB`     : one source line per statement when every statement has a B operand
    * `instr_lines_of_prog`, `instr_lines_strip`, `other_lines_of_prog` : blank lines and comment
                              lines change only `line` numbers and add entries without instruction

  Stage 1, characters → tokens (`Gmars/Proofs/RenderLex.lean`)
    * `Word`, `SrcLine`, `SrcLine.ok`, `renderLines`, `linesToks`
    * `lex_tokens_words`, `lex_tokens_words_last`

  Stage 3, composition (`Gmars/Proofs/RenderCompose.lean`)
    * `WProg`, `renderProgram`, `WProg.toProg`
    * `parse_lex_render`, `parse_lex_render'`, `parse_lex_any_spacing`
    * `isOpName_of_opcode`, `isOpName_of_dot`, `isLabelName_iff`

  Last line not closed by a newline (`Gmars/Proofs/RenderLast.lean`)
    * `parse_prog_last`, `parse_lex_render_last`
-/
import Gmars.Proofs.RenderParse
import Gmars.Proofs.RenderLex
import Gmars.Proofs.RenderCompose
import Gmars.Proofs.RenderLast
