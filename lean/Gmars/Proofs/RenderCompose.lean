/-
  C03, lexer and parser stages composed (stage 3): the canonical one-space rendering of a program
  of instruction statements, comment lines and empty lines is lexed and parsed into the source
  lines the program denotes (`parse_lex_render`, `parse_lex_render'`), and so is any other
  spacing of the same words (`parse_lex_any_spacing`).  Criteria for opcode and label names.
-/
import Gmars.Proofs.RenderParse
import Gmars.Proofs.RenderLex

namespace Gmars.Render
open Gmars

/-! ### programs at the level of words -/

def modeChars : List Char := ['$', '#', '@', '*', '{', '<', '}', '>']

/-- the word of an address-mode character -/
def modeWord (c : Char) : Word := if c == '<' || c == '>' then .cmp c else .sym c

/-- an operand: optional mode character, and the words of the expression -/
structure WOperand where
  mode : Option Char := none
  expr : List Word

/-- an instruction statement -/
structure WStmt where
  labels : List (Word × Bool) := []
  op : Word
  a : WOperand
  b : Option WOperand := none

def WOperand.words (o : WOperand) : List Word :=
  (match o.mode with | some c => [modeWord c] | none => []) ++ o.expr

def labelWords : List (Word × Bool) → List Word
  | [] => []
  | (w, colon) :: r => w :: ((if colon then [Word.sym ':'] else []) ++ labelWords r)

def WStmt.bWords (s : WStmt) : List Word :=
  match s.b with
  | some b => Word.sym ',' :: b.words
  | none => []

/-- the words of the statement in source order -/
def WStmt.words (s : WStmt) : List Word := labelWords s.labels ++ (s.op :: (s.a.words ++ s.bWords))

/-- one blank between two words, nothing after the last one -/
def spaced : List Word → List (Word × List Char)
  | [] => []
  | w :: r => (w, if r.isEmpty then [] else [' ']) :: spaced r

/-- what stands between two line starts -/
inductive WItem
  /-- a statement and `blanks` empty lines -/
  | stmt (s : WStmt) (blanks : Nat)
  /-- a comment line `;cs` and `blanks` empty lines -/
  | comment (cs : List Char) (blanks : Nat)

/-- `lead` empty lines, then the items -/
structure WProg where
  lead : Nat := 0
  items : List WItem

def emptySrcLine : SrcLine := { words := [] }

def WItem.srcLines : WItem → List SrcLine
  | .stmt s k => { words := spaced s.words } :: List.replicate k emptySrcLine
  | .comment cs k => { words := [], comment := some cs } :: List.replicate k emptySrcLine

def itemsSrcLines : List WItem → List SrcLine
  | [] => []
  | it :: r => it.srcLines ++ itemsSrcLines r

def WProg.srcLines (p : WProg) : List SrcLine :=
  List.replicate p.lead emptySrcLine ++ itemsSrcLines p.items

/-- **the canonical rendering**: words separated by one blank, every line (statement, comment,
    empty) closed by a newline -/
def renderProgram (p : WProg) : List Char := renderLines p.srcLines

/-! ### the token-level program it denotes -/

def WOperand.toOperand (o : WOperand) : Operand :=
  { mode := o.mode.map String.singleton, toks := o.expr.map Word.tok }

def WStmt.toStmt (s : WStmt) (blanks : Nat) : Stmt :=
  { labels := s.labels.map (fun p => (p.1.tok.val, p.2)), op := s.op.tok.val,
    a := s.a.toOperand, b := s.b.map WOperand.toOperand, blanks := blanks }

def WItem.toItem : WItem → Item
  | .stmt s k => .stmt (s.toStmt k)
  | .comment cs k => .comment (String.ofList (';' :: cs)) k

def WProg.toProg (p : WProg) : Prog := { lead := p.lead, items := p.items.map WItem.toItem }

/-! ### lexical well-formedness (decidable) -/

def Word.isIdent : Word → Bool
  | .ident _ _ => true
  | _ => false

/-- a word that may occur in an expression: anything but `,` and `:` -/
def exprWordOK (w : Word) : Bool :=
  w.valid && (match w with
    | .sym c => c != ',' && c != ':'
    | _ => true)

def isModeWord : Word → Bool
  | .sym c => modeChars.contains c
  | .cmp _ => true
  | _ => false

/-- the expression is not empty and consists of expression words; with the mode omitted it does
    not start with a mode symbol -/
def WOperand.ok (o : WOperand) : Bool :=
  o.expr.all exprWordOK &&
    (match o.expr with
     | [] => false
     | w :: _ =>
       match o.mode with
       | some c => modeChars.contains c
       | none => !isModeWord w)

def WStmt.ok (s : WStmt) : Bool :=
  s.labels.all (fun p => p.1.isIdent && p.1.valid) && s.op.isIdent && s.op.valid && s.a.ok &&
    (match s.b with
     | some b => b.ok
     | none => true)

def WItem.ok : WItem → Bool
  | .stmt s _ => s.ok
  | .comment cs _ => cs.all (· != '\n')

/-! ### the rendering is lexed into the tokens of the program -/

theorem tok_modeWord {c : Char} (hc : c ∈ modeChars) :
    (modeWord c).tok = ⟨.symbol, String.singleton c⟩ := by
  simp only [modeChars, List.mem_cons, List.not_mem_nil, or_false] at hc
  rcases hc with rfl | rfl | rfl | rfl | rfl | rfl | rfl | rfl <;> decide

theorem valid_modeWord {c : Char} (hc : c ∈ modeChars) : (modeWord c).valid = true := by
  simp only [modeChars, List.mem_cons, List.not_mem_nil, or_false] at hc
  rcases hc with rfl | rfl | rfl | rfl | rfl | rfl | rfl | rfl <;> decide

theorem tok_of_isIdent {w : Word} (h : w.isIdent = true) : w.tok = ⟨.text, w.tok.val⟩ := by
  cases w <;> simp [Word.isIdent] at h; rfl

theorem exprWordOK_valid {w : Word} (h : exprWordOK w = true) : w.valid = true := by
  simp only [exprWordOK, Bool.and_eq_true] at h; exact h.1

theorem WOperand.words_valid {o : WOperand} (h : o.ok = true) : ∀ w ∈ o.words, w.valid = true := by
  obtain ⟨mode, expr⟩ := o
  simp only [WOperand.ok, Bool.and_eq_true, List.all_eq_true] at h
  obtain ⟨hall, hm⟩ := h
  intro w hw
  simp only [WOperand.words, List.mem_append] at hw
  rcases hw with hw | hw
  · cases mode with
    | none => simp at hw
    | some c =>
      simp only [List.mem_singleton] at hw; subst hw
      cases expr with
      | nil => simp at hm
      | cons w' r => simp only [List.contains_eq_mem, decide_eq_true_eq] at hm; exact valid_modeWord hm
  · exact exprWordOK_valid (hall w hw)

theorem WOperand.tokens_eq {o : WOperand} (h : o.ok = true) :
    o.words.map Word.tok = o.toOperand.tokens := by
  obtain ⟨mode, expr⟩ := o
  simp only [WOperand.ok, Bool.and_eq_true] at h
  cases mode with
  | none => simp [WOperand.words, WOperand.toOperand, Operand.tokens]
  | some c =>
    cases expr with
    | nil => simp at h
    | cons w r =>
      have hc : c ∈ modeChars := by simpa using h.2
      simp [WOperand.words, WOperand.toOperand, Operand.tokens, tok_modeWord hc]

theorem labelWords_valid (ls : List (Word × Bool))
    (h : ls.all (fun p => p.1.isIdent && p.1.valid) = true) : ∀ w ∈ labelWords ls, w.valid = true := by
  induction ls with
  | nil => intro w hw; simp [labelWords] at hw
  | cons p r ih =>
    obtain ⟨w0, colon⟩ := p
    simp only [List.all_cons, Bool.and_eq_true] at h
    intro w hw
    simp only [labelWords, List.mem_cons, List.mem_append] at hw
    rcases hw with rfl | hw | hw
    · exact h.1.2
    · cases colon <;> simp at hw
      subst hw; decide
    · exact ih h.2 w hw

theorem labelWords_tokens (ls : List (Word × Bool))
    (h : ls.all (fun p => p.1.isIdent && p.1.valid) = true) :
    (labelWords ls).map Word.tok = labelTokens (ls.map (fun p => (p.1.tok.val, p.2))) := by
  induction ls with
  | nil => rfl
  | cons p r ih =>
    obtain ⟨w0, colon⟩ := p
    simp only [List.all_cons, Bool.and_eq_true] at h
    simp only [labelWords, List.map_cons, List.map_append, labelTokens, ih h.2]
    rw [← tok_of_isIdent h.1.1]
    cases colon
    · simp
    · simp only [if_true, List.map_cons, List.map_nil]
      rw [show (Word.sym ':').tok = colonTok by decide]

theorem WStmt.words_valid {s : WStmt} (h : s.ok = true) : ∀ w ∈ s.words, w.valid = true := by
  obtain ⟨ls, op, a, b⟩ := s
  simp only [WStmt.ok, Bool.and_eq_true] at h
  obtain ⟨⟨⟨⟨hl, _⟩, hop⟩, ha⟩, hb⟩ := h
  intro w hw
  simp only [WStmt.words, List.mem_append, List.mem_cons] at hw
  rcases hw with hw | rfl | hw | hw
  · exact labelWords_valid ls hl w hw
  · exact hop
  · exact WOperand.words_valid ha w hw
  · cases b with
    | none => simp [WStmt.bWords] at hw
    | some bo =>
      simp only [WStmt.bWords, List.mem_cons] at hw
      rcases hw with rfl | hw
      · decide
      · exact WOperand.words_valid hb w hw

theorem WStmt.tokens_eq {s : WStmt} (h : s.ok = true) (k : Nat) :
    s.words.map Word.tok ++ nlTok :: List.replicate k nlTok = (s.toStmt k).tokens := by
  obtain ⟨ls, op, a, b⟩ := s
  simp only [WStmt.ok, Bool.and_eq_true] at h
  obtain ⟨⟨⟨⟨hl, hopi⟩, _⟩, ha⟩, hb⟩ := h
  simp only [WStmt.words, List.map_append, List.map_cons, labelWords_tokens ls hl,
    WOperand.tokens_eq ha, Stmt.tokens, WStmt.toStmt, List.append_assoc, List.cons_append]
  rw [← tok_of_isIdent hopi]
  cases b with
  | none => simp [WStmt.bWords, Stmt.bTokens]
  | some bo =>
    simp only [WStmt.bWords, Stmt.bTokens, Option.map_some, List.map_cons, WOperand.tokens_eq hb]
    rw [show (Word.sym ',').tok = commaTok by decide]

theorem spaced_toks (ws : List Word) : (spaced ws).map (·.1.tok) = ws.map Word.tok := by
  induction ws with
  | nil => rfl
  | cons w r ih => simp [spaced, ih]

theorem wordsOK_spaced (ws : List Word) (h : ∀ w ∈ ws, w.valid = true) :
    wordsOK (spaced ws) (some '\n') = true := by
  induction ws with
  | nil => rfl
  | cons w r ih =>
    have hw := h w (by simp)
    have hr := ih (fun x hx => h x (by simp [hx]))
    cases r with
    | nil => simp [spaced, wordsOK, hw, headOr, renderWords, stopsBefore_newline]
    | cons w' r' =>
      rw [spaced]
      simp only [List.isEmpty_cons, Bool.false_eq_true, if_false]
      rw [wordsOK_sep_ne_nil _ _ _ _ (by simp), hr]
      simp [hw, isBlank]

theorem emptySrcLine_ok : emptySrcLine.ok (some '\n') = true := by decide

theorem linesToks_append (a b : List SrcLine) : linesToks (a ++ b) = linesToks a ++ linesToks b := by
  induction a with
  | nil => rfl
  | cons l r ih => simp [linesToks, ih]

theorem linesToks_replicate (k : Nat) : linesToks (List.replicate k emptySrcLine) = List.replicate k nlTok := by
  induction k with
  | zero => rfl
  | succ k ih =>
    rw [List.replicate_succ, List.replicate_succ, linesToks, ih]
    rfl

theorem WItem.srcLines_ok {it : WItem} (h : it.ok = true) : ∀ l ∈ it.srcLines, l.ok (some '\n') = true := by
  cases it with
  | stmt s k =>
    intro l hl
    simp only [WItem.srcLines, List.mem_cons, List.mem_replicate] at hl
    rcases hl with rfl | ⟨_, rfl⟩
    · simp [SrcLine.ok, wordsOK_spaced s.words (WStmt.words_valid h)]
    · exact emptySrcLine_ok
  | comment cs k =>
    intro l hl
    simp only [WItem.srcLines, List.mem_cons, List.mem_replicate] at hl
    rcases hl with rfl | ⟨_, rfl⟩
    · simp only [WItem.ok] at h
      simp [SrcLine.ok, wordsOK, h]
    · exact emptySrcLine_ok

theorem WItem.toks_eq {it : WItem} (h : it.ok = true) : linesToks it.srcLines = it.toItem.tokens := by
  cases it with
  | stmt s k =>
    simp only [WItem.srcLines, linesToks, linesToks_replicate, WItem.toItem, Item.tokens,
      SrcLine.toks, spaced_toks, List.append_nil]
    exact WStmt.tokens_eq h k
  | comment cs k =>
    simp [WItem.srcLines, linesToks, linesToks_replicate, WItem.toItem, Item.tokens, SrcLine.toks, nlTok]

theorem itemsSrcLines_toks (items : List WItem) (h : ∀ it ∈ items, it.ok = true) :
    linesToks (itemsSrcLines items) = itemsTokens (items.map WItem.toItem) := by
  induction items with
  | nil => rfl
  | cons it r ih =>
    simp only [itemsSrcLines, linesToks_append, List.map_cons, itemsTokens,
      WItem.toks_eq (h it (by simp)), ih (fun x hx => h x (by simp [hx]))]

theorem itemsSrcLines_ok (items : List WItem) (h : ∀ it ∈ items, it.ok = true) :
    ∀ l ∈ itemsSrcLines items, l.ok (some '\n') = true := by
  induction items with
  | nil => intro l hl; simp [itemsSrcLines] at hl
  | cons it r ih =>
    intro l hl
    simp only [itemsSrcLines, List.mem_append] at hl
    rcases hl with hl | hl
    · exact WItem.srcLines_ok (h it (by simp)) l hl
    · exact ih (fun x hx => h x (by simp [hx])) l hl

/-- the lexer turns the canonical rendering into the canonical token rendering -/
theorem lex_renderProgram (p : WProg) (h : ∀ it ∈ p.items, it.ok = true) :
    Lex.tokens (renderProgram p) = p.toProg.tokens := by
  have hok : ∀ l ∈ p.srcLines, l.ok (some '\n') = true := by
    intro l hl
    simp only [WProg.srcLines, List.mem_append, List.mem_replicate] at hl
    rcases hl with ⟨_, rfl⟩ | hl
    · exact emptySrcLine_ok
    · exact itemsSrcLines_ok p.items h l hl
  rw [renderProgram, lex_tokens_words p.srcLines hok]
  simp only [WProg.srcLines, linesToks_append, linesToks_replicate, itemsSrcLines_toks p.items h,
    Prog.tokens, WProg.toProg, List.append_assoc]
  rfl

/-- **stage 3**: lexing and parsing the canonical one-space rendering of a program yields the
    source lines the program denotes. `p.toProg.OK` is the parser-level well-formedness (names
    of opcodes / labels, labels distinct, references defined); see `WProg.toProg_OK` for a
    word-level criterion. -/
theorem parse_lex_render (p : WProg) (hlex : ∀ it ∈ p.items, it.ok = true) (hp : p.toProg.OK) :
    parse (Lex.tokens (renderProgram p)) = .ok (some (p.toProg.lines, p.toProg.metadata)) := by
  rw [lex_renderProgram p hlex, parse_prog p.toProg hp]

/-! ### from word-level conditions to the parser-level well-formedness -/

theorem isExpressionTerm_of_exprWordOK {w : Word} (h : exprWordOK w = true) :
    w.tok.isExpressionTerm = true := by
  simp only [exprWordOK, Bool.and_eq_true] at h
  obtain ⟨hv, hw⟩ := h
  cases w with
  | ident c cs => simp [Word.tok, Token.isExpressionTerm]
  | num c cs => simp [Word.tok, Token.isExpressionTerm]
  | cmp c => simp [Word.tok, Token.isExpressionTerm]
  | sym c =>
    simp only [Word.valid, List.contains_eq_mem, decide_eq_true_eq, symChars, List.mem_cons,
      List.not_mem_nil, or_false] at hv
    simp only [Bool.and_eq_true, bne_iff_ne, ne_eq] at hw
    rcases hv with rfl | rfl | rfl | rfl | rfl | rfl | rfl | rfl | rfl | rfl | rfl | rfl | rfl | rfl <;>
      first | decide | exact absurd rfl hw.1 | exact absurd rfl hw.2

theorem ofList_cons_ne_star {c : Char} (cs : List Char) (hc : c ≠ '*') :
    String.ofList (c :: cs) ≠ "*" := by
  intro h
  have := congrArg String.toList h
  simp at this
  exact hc this.1

theorem first_word_not_mode {w : Word} (h : exprWordOK w = true) (hm : isModeWord w = false) :
    w.tok.isAddressMode = false ∧ w.tok.val ≠ "*" := by
  simp only [exprWordOK, Bool.and_eq_true] at h
  obtain ⟨hv, hw⟩ := h
  cases w with
  | ident c cs =>
    simp only [Word.valid, Bool.and_eq_true] at hv
    refine ⟨by simp [Word.tok, Token.isAddressMode], ofList_cons_ne_star cs ?_⟩
    intro hc; subst hc; exact absurd hv.1 (by decide)
  | num c cs =>
    simp only [Word.valid, Bool.and_eq_true] at hv
    refine ⟨by simp [Word.tok, Token.isAddressMode], ofList_cons_ne_star cs ?_⟩
    intro hc; subst hc; exact absurd hv.1.1 (by decide)
  | cmp c => simp [isModeWord] at hm
  | sym c =>
    simp only [Word.valid, List.contains_eq_mem, decide_eq_true_eq, symChars, List.mem_cons,
      List.not_mem_nil, or_false] at hv
    simp only [Bool.and_eq_true, bne_iff_ne, ne_eq] at hw
    rcases hv with rfl | rfl | rfl | rfl | rfl | rfl | rfl | rfl | rfl | rfl | rfl | rfl | rfl | rfl <;>
      first
        | exact ⟨by decide, by decide⟩
        | exact absurd hm (by decide)
        | exact absurd rfl hw.1
        | exact absurd rfl hw.2

theorem singleton_mem_modeStrs {c : Char} (hc : c ∈ modeChars) : String.singleton c ∈ modeStrs := by
  simp only [modeChars, List.mem_cons, List.not_mem_nil, or_false] at hc
  rcases hc with rfl | rfl | rfl | rfl | rfl | rfl | rfl | rfl <;> decide

theorem WOperand.toOperand_OK {o : WOperand} (h : o.ok = true) (strict : Bool) :
    o.toOperand.OK strict := by
  obtain ⟨mode, expr⟩ := o
  simp only [WOperand.ok, Bool.and_eq_true, List.all_eq_true] at h
  obtain ⟨hall, hm⟩ := h
  refine ⟨?_, ?_⟩
  · intro t ht
    simp only [WOperand.toOperand, List.mem_map] at ht
    obtain ⟨w, hw, rfl⟩ := ht
    exact isExpressionTerm_of_exprWordOK (hall w hw)
  · cases expr with
    | nil => simp at hm
    | cons w r =>
      refine ⟨w.tok, r.map Word.tok, by simp [WOperand.toOperand], ?_⟩
      cases mode with
      | some c =>
        simp only [List.contains_eq_mem, decide_eq_true_eq] at hm
        simpa [WOperand.toOperand] using singleton_mem_modeStrs hm
      | none =>
        simp only [Bool.not_eq_true'] at hm
        have := first_word_not_mode (hall w (by simp)) hm
        simp only [WOperand.toOperand, Option.map_none]
        exact ⟨this.1, fun _ => this.2⟩

/-- the names of a statement are right: labels are not opcodes, the opcode is one -/
def WStmt.NamesOK (s : WStmt) : Prop :=
  (∀ l ∈ s.labels, IsLabelName l.1.tok.val) ∧ IsOpName s.op.tok.val

def WItem.NamesOK : WItem → Prop
  | .stmt s _ => s.NamesOK
  | .comment _ _ => True

instance (s : WStmt) : Decidable s.NamesOK := by unfold WStmt.NamesOK; infer_instance
instance (it : WItem) : Decidable it.NamesOK := by
  cases it <;> simp only [WItem.NamesOK] <;> infer_instance

theorem WItem.toItem_OK {it : WItem} (h : it.ok = true) (hn : it.NamesOK) : it.toItem.OK := by
  cases it with
  | comment cs k => trivial
  | stmt s k =>
    obtain ⟨ls, op, a, b⟩ := s
    simp only [WItem.ok, WStmt.ok, Bool.and_eq_true] at h
    obtain ⟨⟨⟨⟨_, _⟩, _⟩, ha⟩, hb⟩ := h
    obtain ⟨hl, hop⟩ := hn
    refine ⟨?_, hop, WOperand.toOperand_OK ha true, ?_⟩
    · intro l hl'
      simp only [WStmt.toStmt, List.mem_map] at hl'
      obtain ⟨p, hp, rfl⟩ := hl'
      exact hl p hp
    · intro bo hbo
      cases b with
      | none => simp [WStmt.toStmt] at hbo
      | some b' =>
        simp only [WStmt.toStmt, Option.map_some, Option.some.injEq] at hbo
        subst hbo
        exact WOperand.toOperand_OK hb false

/-- word-level criterion for `p.toProg.OK` -/
theorem WProg.toProg_OK (p : WProg) (hlex : ∀ it ∈ p.items, it.ok = true)
    (hnames : ∀ it ∈ p.items, it.NamesOK)
    (hnodup : p.toProg.labels.Nodup)
    (hpre : ∀ l ∈ p.toProg.labels, l ∉ predefined)
    (hdef : ∀ x ∈ itemsRefNames p.toProg.items, x ∈ p.toProg.labels ∨ x ∈ predefined) :
    p.toProg.OK := by
  refine ⟨?_, hnodup, hpre, hdef⟩
  intro it hit
  simp only [WProg.toProg, List.mem_map] at hit
  obtain ⟨wi, hwi, rfl⟩ := hit
  exact WItem.toItem_OK (hlex wi hwi) (hnames wi hwi)

/-- **stage 3**, all hypotheses at the level of words and names -/
theorem parse_lex_render' (p : WProg) (hlex : ∀ it ∈ p.items, it.ok = true)
    (hnames : ∀ it ∈ p.items, it.NamesOK)
    (hnodup : p.toProg.labels.Nodup)
    (hpre : ∀ l ∈ p.toProg.labels, l ∉ predefined)
    (hdef : ∀ x ∈ itemsRefNames p.toProg.items, x ∈ p.toProg.labels ∨ x ∈ predefined) :
    parse (Lex.tokens (renderProgram p)) = .ok (some (p.toProg.lines, p.toProg.metadata)) :=
  parse_lex_render p hlex (p.toProg_OK hlex hnames hnodup hpre hdef)

/-! ### criteria for opcode names and label names -/

theorem ofNat_upper : ∀ n : Fin 26, (Char.ofNat (n.val + 65 + 32)).toNat = n.val + 97 := by decide

/-- `unicode.ToLower` maps nothing else onto a character below `A` -/
theorem lowerChar_eq_iff {c d : Char} (hd : d.toNat < 65) : GoStr.lowerChar c = d ↔ c = d := by
  unfold GoStr.lowerChar
  split
  · rename_i h
    have h1 : 65 ≤ c.toNat := by have := Char.le_def.mp h.1; exact this
    have h2 : c.toNat ≤ 90 := by have := Char.le_def.mp h.2; exact this
    have := ofNat_upper ⟨c.toNat - 65, by omega⟩
    simp only [] at this
    rw [show c.toNat - 65 + 65 + 32 = c.toNat + 32 by omega] at this
    constructor
    · intro e; rw [e] at this; omega
    · intro e; subst e; omega
  · split
    · rename_i h
      have hc : c.toNat = 304 := by simpa using h
      constructor
      · intro e; subst e; exact absurd hd (by decide)
      · intro e; subst e; omega
    · split
      · rename_i h
        have hc : c.toNat = 8490 := by simpa using h
        constructor
        · intro e; subst e; exact absurd hd (by decide)
        · intro e; subst e; omega
      · rfl

theorem dot_mem_toLower {l : List Char} (h : '.' ∈ l) : '.' ∈ GoStr.toLower l := by
  simp only [GoStr.toLower, List.mem_map]
  exact ⟨'.', h, by decide⟩

/-- a name with a `.` is not a pseudo-op -/
theorem isPseudoOp_false_of_dot (s : String) (h : '.' ∈ s.toList) :
    (⟨.text, s⟩ : Token).isPseudoOp = false := by
  have hd := dot_mem_toLower h
  have key : ∀ k : String, '.' ∉ k.toList → lowerStr s ≠ k := by
    intro k hk heq
    apply hk
    rw [← heq]
    simpa [lowerStr] using hd
  unfold Token.isPseudoOp
  split
  · rename_i heq; exact absurd heq (key _ (by decide))
  · rename_i heq; exact absurd heq (key _ (by decide))
  · rename_i heq; exact absurd heq (key _ (by decide))
  · rename_i heq; exact absurd heq (key _ (by decide))
  · rename_i heq; exact absurd heq (key _ (by decide))
  · rfl

/-- `opcode.modifier` (anything with a `.`) is taken for an opcode by the parser -/
theorem isOpName_of_dot (s : String) (h : '.' ∈ s.toList) : IsOpName s := by
  refine ⟨?_, isPseudoOp_false_of_dot s h⟩
  simp [Token.isOp, h]

/-- the seventeen opcodes, in any letter case, are taken for opcodes -/
theorem isOpName_of_opcode (s : String) (h : (getOpCode s.toList).isSome = true) : IsOpName s := by
  have hp : (⟨.text, s⟩ : Token).isPseudoOp = false := by
    unfold getOpCode at h
    split at h <;> first
      | (simp at h; done)
      | (rename_i heq; simp [Token.isPseudoOp, lowerStr, heq])
  refine ⟨?_, hp⟩
  simp [Token.isOp, h]

/-- a name is taken for a label iff it has no `.`, is no opcode and no pseudo-op -/
theorem isLabelName_iff (s : String) :
    IsLabelName s ↔ '.' ∉ s.toList ∧ getOpCode s.toList = none ∧
      (⟨.text, s⟩ : Token).isPseudoOp = false := by
  simp only [IsLabelName, Token.isOp]
  by_cases hd : '.' ∈ s.toList
  · simp [hd]
  · cases ho : getOpCode s.toList <;> simp [hd]

/-! ### the result does not depend on spacing -/

/-- same words and same comment, whatever the leading blanks and the separators -/
def SrcLine.SameWords (l l' : SrcLine) : Prop :=
  l.words.map (·.1) = l'.words.map (·.1) ∧ l.comment = l'.comment

theorem SrcLine.toks_sameWords {l l' : SrcLine} (h : l.SameWords l') : l.toks = l'.toks := by
  obtain ⟨hw, hc⟩ := h
  have : l.words.map (·.1.tok) = l'.words.map (·.1.tok) := by
    have := congrArg (List.map Word.tok) hw
    rw [List.map_map, List.map_map] at this
    exact this
  simp only [SrcLine.toks, this, hc]

/-- line by line the same words -/
def SameLines : List SrcLine → List SrcLine → Prop
  | [], [] => True
  | l :: r, l' :: r' => l.SameWords l' ∧ SameLines r r'
  | _, _ => False

theorem linesToks_sameWords : ∀ {ls ls' : List SrcLine}, SameLines ls ls' →
    linesToks ls = linesToks ls'
  | [], [], _ => rfl
  | l :: r, l' :: r', h => by
    simp only [linesToks, SrcLine.toks_sameWords h.1, linesToks_sameWords h.2]
  | [], _ :: _, h => h.elim
  | _ :: _, [], h => h.elim

/-- **stage 3, any spacing**: source lines that carry the words (and comments) of the program's
    canonical rendering, with ANY leading blanks and ANY separators of blanks and tabs that keep
    the words apart (`SrcLine.ok`), are lexed and parsed into the same result -/
theorem parse_lex_any_spacing (p : WProg) (hlex : ∀ it ∈ p.items, it.ok = true) (hp : p.toProg.OK)
    (ls : List SrcLine) (hls : ∀ l ∈ ls, l.ok (some '\n') = true)
    (hsame : SameLines ls p.srcLines) :
    parse (Lex.tokens (renderLines ls)) = .ok (some (p.toProg.lines, p.toProg.metadata)) := by
  have h1 := lex_renderProgram p hlex
  have hok : ∀ l ∈ p.srcLines, l.ok (some '\n') = true := by
    intro l hl
    simp only [WProg.srcLines, List.mem_append, List.mem_replicate] at hl
    rcases hl with ⟨_, rfl⟩ | hl
    · exact emptySrcLine_ok
    · exact itemsSrcLines_ok p.items hlex l hl
  rw [renderProgram, lex_tokens_words p.srcLines hok] at h1
  rw [lex_tokens_words ls hls, linesToks_sameWords hsame, h1, parse_prog p.toProg hp]

/-! ### a worked example: the hypotheses are decidable -/

namespace Example

def idw (s : String) : Word :=
  match s.toList with
  | c :: cs => .ident c cs
  | [] => .sym ' '

def numw (s : String) : Word :=
  match s.toList with
  | c :: cs => .num c cs
  | [] => .sym ' '

/-- rendered as
    "\nimp : q mov.i # 1 + x , < 2\nx JMP 3\n\n\n;hello\n\ndat ( 0 ) , imp\n" -/
def prog : WProg :=
  { lead := 1,
    items := [
      .stmt { labels := [(idw "imp", true), (idw "q", false)], op := idw "mov.i",
              a := { mode := some '#', expr := [numw "1", .sym '+', idw "x"] },
              b := some { mode := some '<', expr := [numw "2"] } } 0,
      .stmt { labels := [(idw "x", false)], op := idw "JMP", a := { expr := [numw "3"] } } 2,
      .comment "hello".toList 1,
      .stmt { op := idw "dat", a := { expr := [.sym '(', numw "0", .sym ')'] },
              b := some { expr := [idw "imp"] } } 0 ] }

example : parse (Lex.tokens (renderProgram prog)) =
    .ok (some (prog.toProg.lines, prog.toProg.metadata)) :=
  parse_lex_render' prog (by decide) (by decide) (by decide) (by decide) (by decide)

end Example

end Gmars.Render
