/-
  C03, lexer and parser stages: programs whose last line is not terminated by a newline
  (the last statement / comment is followed directly by the end of the input).
-/
import Gmars.Proofs.RenderCompose

namespace Gmars.Render
open Gmars Gmars.Parser

/-! ### a statement up to the state function that collects its last expression -/

/-- `parseLine` … `parseExprA`: the statement up to the A expression -/
theorem reach_stmt_coreA (s : Stmt) (hs : s.OK) (c : Ctx)
    (hf : FreshLabels s.labelNames c.symbols) (tail : List Token)
    (t0 : Token) (rest0 : List Token)
    (h : t0 :: rest0 = labelTokens s.labels ++ (⟨.text, s.op⟩ : Token) :: (s.a.tokens ++ tail)) :
    ∃ t ts, s.a.toks = t :: ts ∧
      ReachLe (3 * s.labels.length + 4) .line (c.st t0 rest0) .exprA
        (({ line := c.line, codeLine := c.codeLine + 1,
            cur := { line := c.line, codeLine := c.codeLine, typ := .instruction,
                     labels := s.labelNames, op := s.op, amode := s.a.mode.getD "" },
            metadata := c.metadata, lines := c.lines,
            symbols := s.labelNames.reverse ++ c.symbols,
            references := c.references } : Ctx).st t (ts ++ tail)) := by
  obtain ⟨hlab, hop, ha, _⟩ := hs
  rcases s with ⟨ls, op, a, b, blanks⟩
  simp only [Stmt.labelNames] at hf hlab hop ha ⊢
  obtain ⟨v, hv⟩ : ∃ v, t0 = ⟨.text, v⟩ := by
    cases ls with
    | nil => simp [labelTokens] at h; exact ⟨_, h.1⟩
    | cons lc ls => obtain ⟨l, cl⟩ := lc; simp [labelTokens] at h; exact ⟨_, h.1⟩
  subst hv
  have h1 := ReachLe.one (step_line_text c v rest0)
  have h2 := reach_labels op hop _ ls ({ c with cur := { line := c.line } } : Ctx) _ rest0 hlab hf h
  obtain ⟨t, ts, htoks, h3⟩ := reach_opA
    ({ c with cur := { line := c.line, labels := [] ++ ls.map (·.1) },
              symbols := (ls.map (·.1)).reverse ++ c.symbols } : Ctx) op a ha tail
  refine ⟨t, ts, htoks, ((h1.trans h2).trans h3).mono' ?_ (by omega)⟩
  simp

/-- `parseLine` … `parseExprB` for a statement with B operand -/
theorem reach_stmt_coreB (s : Stmt) (hs : s.OK) (bo : Operand) (hb : s.b = some bo) (c : Ctx)
    (hf : FreshLabels s.labelNames c.symbols) (tail : List Token)
    (t0 : Token) (rest0 : List Token)
    (h : t0 :: rest0 = labelTokens s.labels ++
      (⟨.text, s.op⟩ : Token) :: (s.a.tokens ++ (commaTok :: (bo.tokens ++ tail)))) :
    ∃ t ts, bo.toks = t :: ts ∧
      ReachLe (3 * s.labels.length + 7) .line (c.st t0 rest0) .exprB
        (({ line := c.line, codeLine := c.codeLine + 1,
            cur := { line := c.line, codeLine := c.codeLine, typ := .instruction,
                     labels := s.labelNames, op := s.op, amode := s.a.mode.getD "",
                     a := some s.a.toks, bmode := bo.mode.getD "" },
            metadata := c.metadata, lines := c.lines,
            symbols := s.labelNames.reverse ++ c.symbols,
            references := addRefs s.a.toks c.references } : Ctx).st t (ts ++ tail)) := by
  obtain ⟨hlab, hop, ha, hbok⟩ := hs
  have hbo : bo.OK false := hbok bo hb
  obtain ⟨t1, ts1, htoks1, h123⟩ := reach_stmt_coreA s ⟨hlab, hop, ha, hbok⟩ c hf
    (commaTok :: (bo.tokens ++ tail)) t0 rest0 h
  have h4 := h123.trans (ReachLe.one (step_exprA_comma _ s.a.toks ha.1 (bo.tokens ++ tail) t1
    (ts1 ++ commaTok :: (bo.tokens ++ tail)) (by simp [htoks1])))
  have hB : ∀ (cc : Ctx), ∃ t2 ts2, bo.toks = t2 :: ts2 ∧
      ReachLe 2 .comma (cc.st commaTok (bo.tokens ++ tail)) .exprB
        (({ cc with cur := { cc.cur with bmode := bo.mode.getD cc.cur.bmode } } : Ctx).st t2
          (ts2 ++ tail)) := fun cc => reach_commaB cc bo hbo _
  obtain ⟨t2, ts2, htoks2, h5⟩ := hB _
  refine ⟨t2, ts2, htoks2, (h4.trans h5).mono' ?_ (by omega)⟩
  simp

/-! ### the end of the input instead of a newline -/

/-- `parseExprA` up to the EOF token: the line is emitted -/
theorem step_exprA_eof (c : Ctx) (toks : List Token) (hts : ∀ t ∈ toks, t.isExpressionTerm = true)
    (rest' : List Token) (t0 : Token) (rest0 : List Token) (h : t0 :: rest0 = toks ++ eofTok :: rest') :
    step .exprA (c.st t0 rest0) =
      .ok (({ c with references := addRefs toks c.references,
                     cur := { c.cur with a := some (c.cur.a.getD [] ++ toks) },
                     lines := c.lines ++ [{ c.cur with a := some (c.cur.a.getD [] ++ toks) }] } : Ctx).st
             eofTok rest',
           some .line) := by
  simp only [step]
  rw [collectExpr_ok "parseExprA" toks hts eofTok rfl rest' c t0 rest0 h]
  simp [bind, Except.bind, pure, Except.pure, Ctx.st, eofTok, emit]

/-- `parseExprB` up to the EOF token: the line is emitted, no newline counted -/
theorem step_exprB_eof (c : Ctx) (toks : List Token) (hts : ∀ t ∈ toks, t.isExpressionTerm = true)
    (rest' : List Token) (t0 : Token) (rest0 : List Token) (h : t0 :: rest0 = toks ++ eofTok :: rest') :
    step .exprB (c.st t0 rest0) =
      .ok (({ c with references := addRefs toks c.references,
                     cur := { c.cur with b := some (c.cur.b.getD [] ++ toks) },
                     lines := c.lines ++ [{ c.cur with b := some (c.cur.b.getD [] ++ toks) }] } : Ctx).st
             eofTok rest',
           some .line) := by
  simp only [step]
  rw [collectExpr_ok "parseExprB" toks hts eofTok rfl rest' c t0 rest0 h]
  simp [bind, Except.bind, pure, Except.pure, Ctx.st, eofTok, emit]

/-- a comment token followed by the EOF token: the line is emitted and the parser stops -/
theorem step_comment_eof (c : Ctx) (v : String) (rest : List Token) :
    step .comment (c.st ⟨.comment, v⟩ (eofTok :: rest)) =
      .ok (({ c with cur := { c.cur with comment := v },
                     lines := c.lines ++ [{ c.cur with comment := v }] } : Ctx).st eofTok rest, none) := by
  simp [step, Ctx.st, consumeEmitLine, advance, next, eofTok, emit]

/-- the last line of a program when it is not closed by a newline -/
inductive LastItem
  | stmt (s : Stmt)
  | comment (text : String)

/-- its tokens (`s.blanks` is ignored) -/
def LastItem.tokens : LastItem → List Token
  | .stmt s => labelTokens s.labels ++ ((⟨.text, s.op⟩ : Token) :: (s.a.tokens ++ s.bTokens))
  | .comment v => [(⟨.comment, v⟩ : Token)]

def LastItem.toItem : LastItem → Item
  | .stmt s => .stmt s
  | .comment v => .comment v 0

/-- the entry it makes: as with a newline, but `newlines = 0` and no empty-line entry -/
def LastItem.lines : LastItem → Int → Int → List SourceLine
  | .stmt s, ln, cl => [{ s.instrLine ln cl with newlines := 0 }]
  | .comment v, ln, _ => [{ commentLine ln v with newlines := 0 }]

theorem reach_last (last : LastItem) (hok : last.toItem.OK) (c : Ctx)
    (hf : FreshLabels last.toItem.labelNames c.symbols)
    (t0 : Token) (rest0 : List Token) (h : t0 :: rest0 = last.tokens ++ [eofTok]) :
    ∃ s' p' cur', ReachLe (8 * last.tokens.length) .line (c.st t0 rest0) s' p' ∧
      step s' p' =
        .ok (({ line := c.line, codeLine := c.codeLine + last.toItem.codeLines, cur := cur',
                metadata := last.toItem.metadata c.metadata,
                lines := c.lines ++ last.lines c.line c.codeLine,
                symbols := last.toItem.labelNames.reverse ++ c.symbols,
                references := last.toItem.refs c.references } : Ctx).st eofTok [], none) := by
  cases last with
  | comment v =>
    simp only [LastItem.tokens, List.cons_append, List.nil_append, List.cons.injEq] at h
    obtain ⟨rfl, rfl⟩ := h
    refine ⟨.comment, _, { line := c.line, typ := .comment, comment := v },
      (ReachLe.one (step_line_comment c v [eofTok])).mono (by simp [LastItem.tokens]), ?_⟩
    rw [step_comment_eof]
    simp [LastItem.toItem, Item.codeLines, Item.metadata, Item.labelNames, Item.refs,
      LastItem.lines, commentLine]
  | stmt s =>
    have hs : s.OK := hok
    have hLlen := labelTokens_length s.labels
    cases hb : s.b with
    | none =>
      simp only [LastItem.tokens, Stmt.bTokens, hb, List.append_nil, List.append_assoc,
        List.cons_append] at h
      obtain ⟨t, ts, htoks, h1⟩ := reach_stmt_coreA s hs c hf [eofTok] t0 rest0 h
      have h2 := h1.trans (ReachLe.one (step_exprA_eof _ s.a.toks hs.2.2.1.1 [] t (ts ++ [eofTok])
        (by simp [htoks, eofTok])))
      refine ⟨.line, _, { line := c.line }, h2.mono (by simp [LastItem.tokens]; omega), ?_⟩
      rw [step_line_eof]
      simp [LastItem.toItem, Item.codeLines, Item.metadata, Item.labelNames, Item.refs,
        LastItem.lines, Stmt.instrLine, Stmt.refs, hb]
    | some bo =>
      simp only [LastItem.tokens, Stmt.bTokens, hb, List.append_assoc, List.cons_append] at h
      obtain ⟨t, ts, htoks, h1⟩ := reach_stmt_coreB s hs bo hb c hf [eofTok] t0 rest0 h
      have h2 := h1.trans (ReachLe.one (step_exprB_eof _ bo.toks (hs.2.2.2 bo hb).1 [] t
        (ts ++ [eofTok]) (by simp [htoks, eofTok])))
      refine ⟨.line, _, { line := c.line }, h2.mono (by simp [LastItem.tokens]; omega), ?_⟩
      rw [step_line_eof]
      simp [LastItem.toItem, Item.codeLines, Item.metadata, Item.labelNames, Item.refs,
        LastItem.lines, Stmt.instrLine, Stmt.refs, hb]

/-! ### programs with an unterminated last line -/

def Prog.tokensLast (p : Prog) (last : LastItem) : List Token :=
  List.replicate p.lead nlTok ++ (itemsTokens p.items ++ (last.tokens ++ [eofTok]))

def Prog.linesLast (p : Prog) (last : LastItem) : List SourceLine :=
  p.lines ++ last.lines (itemsEndLine p.items (1 + p.lead)) (itemsEndCode p.items 0)

/-- the program with the last line closed by a newline after all (for the well-formedness
    conditions, which are the same) -/
def Prog.withLast (p : Prog) (last : LastItem) : Prog :=
  { lead := p.lead, items := p.items ++ [last.toItem] }

theorem itemsLabels_append (a b : List Item) : itemsLabels (a ++ b) = itemsLabels a ++ itemsLabels b := by
  induction a with
  | nil => rfl
  | cons x r ih => simp [itemsLabels, ih]

theorem itemsRefs_append (a b : List Item) (refs : List String) :
    itemsRefs (a ++ b) refs = itemsRefs b (itemsRefs a refs) := by
  induction a generalizing refs with
  | nil => rfl
  | cons x r ih => simp [itemsRefs, ih]

theorem itemsMeta_append (a b : List Item) (m : AsmMeta) :
    itemsMeta (a ++ b) m = itemsMeta b (itemsMeta a m) := by
  induction a generalizing m with
  | nil => rfl
  | cons x r ih => simp [itemsMeta, ih]

theorem last_tokens_head (last : LastItem) :
    ∃ tl restl, tl :: restl = last.tokens ++ [eofTok] ∧ (tl.typ == TokType.newline) = false := by
  cases last with
  | comment v => exact ⟨_, _, rfl, rfl⟩
  | stmt s =>
    simp only [LastItem.tokens]
    cases hl : s.labels with
    | nil => exact ⟨_, _, rfl, rfl⟩
    | cons lc ls => obtain ⟨l, cl⟩ := lc; exact ⟨_, _, rfl, rfl⟩

/-- **stage 2, last line not terminated**: as `parse_prog`, the last entry has `newlines = 0`
    and (statement without B operand) no empty-line entry follows it -/
theorem parse_prog_last (p : Prog) (last : LastItem) (hp : (p.withLast last).OK) :
    parse (p.tokensLast last) =
      .ok (some (p.linesLast last, last.toItem.metadata p.metadata)) := by
  obtain ⟨lead, items⟩ := p
  obtain ⟨tl, restl, hl, htl⟩ := last_tokens_head last
  obtain ⟨t1, rest1, h1⟩ : ∃ t1 rest1, t1 :: rest1 = itemsTokens items ++ tl :: restl := by
    cases itemsTokens items <;> simp
  obtain ⟨t0, rest0, h0⟩ : ∃ t0 rest0, t0 :: rest0 = List.replicate lead nlTok ++ t1 :: rest1 := by
    cases lead <;> simp [List.replicate_succ]
  have ht1 : (t1.typ == TokType.newline) = false := by
    cases items with
    | nil => simp [itemsTokens] at h1; rw [h1.1]; exact htl
    | cons it' items' =>
      cases it' with
      | stmt s =>
        simp only [itemsTokens, Item.tokens, Stmt.tokens, List.append_assoc] at h1
        cases hl : s.labels with
        | nil => rw [hl] at h1; simp [labelTokens] at h1; rw [h1.1]; rfl
        | cons lc ls =>
          obtain ⟨l, cl⟩ := lc
          rw [hl] at h1; simp [labelTokens] at h1; rw [h1.1]; rfl
      | comment v k => simp [itemsTokens, Item.tokens] at h1; rw [h1.1]; rfl
  have htoks : Prog.tokensLast ⟨lead, items⟩ last = t0 :: rest0 := by
    simp only [Prog.tokensLast]; rw [h0, h1, hl]
  obtain ⟨cur1, r1⟩ := reach_blanks ({} : Ctx) lead t1 ht1 rest1 t0 rest0 h0
  have hfresh : FreshLabels (itemsLabels items ++ last.toItem.labelNames) predefined := by
    have := (FreshLabels_iff _ _).mpr ⟨hp.nodup, hp.notPredefined⟩
    simpa [Prog.withLast, Prog.labels, itemsLabels_append, itemsLabels] using this
  rw [FreshLabels_append] at hfresh
  have hitems : ∀ it ∈ items, it.OK := fun it hit => hp.items it (by simp [Prog.withLast, hit])
  have hlast : last.toItem.OK := hp.items _ (by simp [Prog.withLast])
  obtain ⟨cur2, r2⟩ := reach_items tl htl restl items
    ({ line := (1 : Int) + lead, cur := cur1, lines := [] ++ blankLines 1 lead } : Ctx)
    t1 rest1 hitems hfresh.1 h1
  obtain ⟨s', p', cur3, r3, hfin⟩ := reach_last last hlast
    ({ line := itemsEndLine items ((1 : Int) + lead), codeLine := itemsEndCode items 0, cur := cur2,
       metadata := itemsMeta items {},
       lines := ([] ++ blankLines 1 lead) ++ itemsLines items ((1 : Int) + lead) 0,
       symbols := (itemsLabels items).reverse ++ predefined,
       references := itemsRefs items [] } : Ctx) hfresh.2 tl restl hl
  have hlen : (Prog.tokensLast ⟨lead, items⟩ last).length =
      lead + ((itemsTokens items).length + (last.tokens.length + 1)) := by
    simp [Prog.tokensLast]
  have hrun := ((r1.trans r2).trans r3).finish hfin
    (fuel := runFuel (Prog.tokensLast ⟨lead, items⟩ last)) (by simp only [runFuel, hlen]; omega)
  simp only [parse, htoks, newParser_cons]
  rw [← htoks, hrun]
  have hvalid : ∀ x ∈ last.toItem.refs (itemsRefs items []),
      x ∈ (last.toItem.labelNames.reverse ++ ((itemsLabels items).reverse ++ predefined)) := by
    intro x hx
    have hx' : x ∈ itemsRefs (items ++ [last.toItem]) [] := by
      rw [itemsRefs_append]; exact hx
    rcases mem_itemsRefs hx' with h | h
    · simp at h
    · rcases hp.defined x h with h | h
      · simp only [Prog.withLast, Prog.labels, itemsLabels_append, itemsLabels, List.append_nil,
          List.mem_append] at h
        simp only [List.mem_append, List.mem_reverse]
        rcases h with h | h
        · exact Or.inr (Or.inl h)
        · exact Or.inl h
      · simp [h]
  simp [bind, Except.bind, pure, Except.pure, Ctx.st, symbolsValid, Prog.lines, Prog.linesLast,
    Prog.metadata]
  intro x hx
  have := hvalid x hx
  simp only [predefined, List.mem_append, List.mem_reverse, List.mem_cons, List.not_mem_nil,
    or_false] at this
  intro h0 h1
  rcases this with h | h | h
  · exact absurd h h0
  · exact absurd h h1
  · simpa [predefined] using h

/-! ### stage 3 with an unterminated last line -/

/-- the unterminated last line at the level of words -/
inductive WLast
  | stmt (s : WStmt)
  | comment (cs : List Char)

def WLast.srcLine : WLast → SrcLine
  | .stmt s => { words := spaced s.words }
  | .comment cs => { words := [], comment := some cs }

def WLast.toLast : WLast → LastItem
  | .stmt s => .stmt (s.toStmt 0)
  | .comment cs => .comment (String.ofList (';' :: cs))

/-- lexical well-formedness; the last word must end at the end of the input (a final `<` or `>`
    would be dropped by the lexer) -/
def WLast.ok : WLast → Bool
  | .stmt s => s.ok && (match s.words.getLast? with
      | some w => w.stopsBefore none
      | none => true)
  | .comment cs => cs.all (· != '\n')

/-- the canonical rendering, the last line without newline -/
def renderProgramLast (p : WProg) (last : WLast) : List Char :=
  renderLines p.srcLines ++ last.srcLine.chars

theorem wordsOK_spaced_nx (nx : Option Char) (ws : List Word) (h : ∀ w ∈ ws, w.valid = true)
    (hl : ∀ w, ws.getLast? = some w → w.stopsBefore nx = true) :
    wordsOK (spaced ws) nx = true := by
  induction ws with
  | nil => rfl
  | cons w r ih =>
    have hw := h w (by simp)
    cases r with
    | nil => simp [spaced, wordsOK, hw, headOr, renderWords, hl w rfl]
    | cons w' r' =>
      have hr := ih (fun x hx => h x (by simp [hx])) (fun x hx => hl x (by simpa using hx))
      rw [spaced]
      simp only [List.isEmpty_cons, Bool.false_eq_true, if_false]
      rw [wordsOK_sep_ne_nil _ _ _ _ (by simp), hr]
      simp [hw, isBlank]

theorem WLast.srcLine_ok {last : WLast} (h : last.ok = true) : last.srcLine.ok none = true := by
  cases last with
  | comment cs =>
    simp only [WLast.ok] at h
    simp [WLast.srcLine, SrcLine.ok, wordsOK, h]
  | stmt s =>
    simp only [WLast.ok, Bool.and_eq_true] at h
    have := wordsOK_spaced_nx none s.words (WStmt.words_valid h.1) (by
      intro w hw; have h2 := h.2; rw [hw] at h2; exact h2)
    simp [WLast.srcLine, SrcLine.ok, this]

theorem WLast.toks_eq {last : WLast} (h : last.ok = true) : last.srcLine.toks = last.toLast.tokens := by
  cases last with
  | comment cs => simp [WLast.srcLine, WLast.toLast, SrcLine.toks, LastItem.tokens]
  | stmt s =>
    simp only [WLast.ok, Bool.and_eq_true] at h
    have := WStmt.tokens_eq h.1 0
    simp only [Stmt.tokens, List.replicate_zero] at this
    simp only [WLast.srcLine, WLast.toLast, SrcLine.toks, LastItem.tokens, spaced_toks,
      List.append_nil]
    -- strip the final newline token on both sides
    have h2 : s.words.map Word.tok ++ [nlTok] =
        (labelTokens (s.toStmt 0).labels ++
          (⟨.text, (s.toStmt 0).op⟩ : Token) :: ((s.toStmt 0).a.tokens ++ (s.toStmt 0).bTokens)) ++ [nlTok] := by
      rw [this]; simp [WStmt.toStmt]
    exact List.append_cancel_right h2

theorem lex_renderProgramLast (p : WProg) (last : WLast) (h : ∀ it ∈ p.items, it.ok = true)
    (hlast : last.ok = true) :
    Lex.tokens (renderProgramLast p last) = p.toProg.tokensLast last.toLast := by
  have hok : ∀ l ∈ p.srcLines, l.ok (some '\n') = true := by
    intro l hl
    simp only [WProg.srcLines, List.mem_append, List.mem_replicate] at hl
    rcases hl with ⟨_, rfl⟩ | hl
    · exact emptySrcLine_ok
    · exact itemsSrcLines_ok p.items h l hl
  rw [renderProgramLast, lex_tokens_words_last p.srcLines hok _ (WLast.srcLine_ok hlast)]
  simp only [WProg.srcLines, linesToks_append, linesToks_replicate, itemsSrcLines_toks p.items h,
    Prog.tokensLast, WProg.toProg, List.append_assoc, WLast.toks_eq hlast]
  rfl

/-- **stage 3, last line not terminated** -/
theorem parse_lex_render_last (p : WProg) (last : WLast) (hlex : ∀ it ∈ p.items, it.ok = true)
    (hlast : last.ok = true) (hp : (p.toProg.withLast last.toLast).OK) :
    parse (Lex.tokens (renderProgramLast p last)) =
      .ok (some (p.toProg.linesLast last.toLast,
                 last.toLast.toItem.metadata p.toProg.metadata)) := by
  rw [lex_renderProgramLast p last hlex hlast, parse_prog_last p.toProg last.toLast hp]

end Gmars.Render
