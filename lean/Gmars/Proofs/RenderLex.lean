/-
  C03, lexer stage: a line made of words (identifiers, decimal numbers, one-character symbols)
  separated by blanks is lexed into exactly the corresponding tokens.

  Frozen model: `Gmars/Model/Lex.lean`.
-/
import Gmars.Model.Lex

namespace Gmars.Render
open Gmars Gmars.Unicode Gmars.Lex

/-! ### the machine, one round at a time -/

/-- the tokens sent from a round's result on -/
def cont : Lex.Step → List Token
  | (t, none) => t
  | (t, some (c, r)) => t ++ Lex.run c r

theorem run_eq (c : Char) (r : List Char) : Lex.run c r = cont (lexInputStep c r) := by
  rw [Lex.run]
  split
  · rename_i h; rw [h]; rfl
  · rename_i h; rw [h]; rfl

theorem sends_cons (c : Char) (r : List Char) : sends (c :: r) = cont (lexInputStep c r) := by
  rw [sends, run_eq]

theorem sends_nil : sends [] = [Lex.eofTok] := by
  rw [sends, run_eq]
  simp [lexInputStep, show isSpaceU '\x00' = false by decide, show isLetterU '\x00' = false by decide,
    show isDigitU '\x00' = false by decide, cont]

theorem cont_emitConsume (tok : Token) (rest : List Char) :
    cont (emitConsume tok rest) = tok :: sends rest := by
  cases rest with
  | nil => simp [emitConsume, cont, sends_nil]
  | cons c r => simp [emitConsume, cont, sends]

/-! ### character classes on ASCII -/

theorem val_lt_of_le {c : Char} {n : UInt32} (h : c.val ≤ n) (hn : n < 0x80) : c.val < 0x80 :=
  Nat.lt_of_le_of_lt (UInt32.le_iff_toNat_le.mp h) (UInt32.lt_iff_toNat_lt.mp hn)

theorem isAlpha_cases {c : Char} (h : c.isAlpha = true) :
    (65 ≤ c.val ∧ c.val ≤ 90) ∨ (97 ≤ c.val ∧ c.val ≤ 122) := by
  simp only [Char.isAlpha, Char.isUpper, Char.isLower, Bool.or_eq_true, Bool.and_eq_true,
    decide_eq_true_eq, ge_iff_le] at h
  exact h

theorem isDigit_cases {c : Char} (h : c.isDigit = true) : 48 ≤ c.val ∧ c.val ≤ 57 := by
  simp only [Char.isDigit, Bool.and_eq_true, decide_eq_true_eq, ge_iff_le] at h
  exact h

theorem val_lt_of_isAlpha {c : Char} (h : c.isAlpha = true) : c.val < 0x80 := by
  rcases isAlpha_cases h with h | h
  · exact val_lt_of_le h.2 (by decide)
  · exact val_lt_of_le h.2 (by decide)

theorem val_lt_of_isDigit {c : Char} (h : c.isDigit = true) : c.val < 0x80 :=
  val_lt_of_le (isDigit_cases h).2 (by decide)

theorem isLetterU_of_isAlpha {c : Char} (h : c.isAlpha = true) : isLetterU c = true := by
  have hv := val_lt_of_isAlpha h
  simp only [isLetterU, hv, if_true, show 'a'.val = 97 from rfl, show 'z'.val = 122 from rfl,
    show 'A'.val = 65 from rfl, show 'Z'.val = 90 from rfl, Bool.or_eq_true, Bool.and_eq_true,
    decide_eq_true_eq]
  rcases isAlpha_cases h with h | h
  · exact Or.inr h
  · exact Or.inl h

theorem isDigitU_of_isDigit {c : Char} (h : c.isDigit = true) : isDigitU c = true := by
  have hv := val_lt_of_isDigit h
  simp only [isDigitU, hv, if_true, show '0'.val = 48 from rfl, show '9'.val = 57 from rfl,
    Bool.and_eq_true, decide_eq_true_eq]
  exact isDigit_cases h

theorem UInt32.le_toNat {a b : UInt32} (h : a ≤ b) : a.toNat ≤ b.toNat := UInt32.le_iff_toNat_le.mp h

theorem char_eq_of_val {c d : Char} (h : c.val = d.val) : c = d := Char.ext h

theorem isSpaceU_of_isAlpha {c : Char} (h : c.isAlpha = true) : isSpaceU c = false := by
  have hv := val_lt_of_isAlpha h
  simp only [isSpaceU, hv, if_true, Bool.or_eq_false_iff, beq_eq_false_iff_ne, ne_eq]
  have hn : 65 ≤ c.val.toNat := by
    rcases isAlpha_cases h with h | h
    · exact UInt32.le_toNat h.1
    · exact Nat.le_trans (by decide) (UInt32.le_toNat h.1)
  refine ⟨⟨⟨⟨⟨?_, ?_⟩, ?_⟩, ?_⟩, ?_⟩, ?_⟩ <;> (intro hc; subst hc; revert hn; decide)

theorem isSpaceU_of_isDigit {c : Char} (h : c.isDigit = true) : isSpaceU c = false := by
  have hv := val_lt_of_isDigit h
  simp only [isSpaceU, hv, if_true, Bool.or_eq_false_iff, beq_eq_false_iff_ne, ne_eq]
  have hn : 48 ≤ c.val.toNat := UInt32.le_toNat (isDigit_cases h).1
  refine ⟨⟨⟨⟨⟨?_, ?_⟩, ?_⟩, ?_⟩, ?_⟩, ?_⟩ <;> (intro hc; subst hc; revert hn; decide)

theorem isLetterU_of_isDigit {c : Char} (h : c.isDigit = true) : isLetterU c = false := by
  have hv := val_lt_of_isDigit h
  have hn : c.val.toNat ≤ 57 := UInt32.le_toNat (isDigit_cases h).2
  simp only [isLetterU, hv, if_true, show 'a'.val = 97 from rfl, show 'z'.val = 122 from rfl,
    show 'A'.val = 65 from rfl, show 'Z'.val = 90 from rfl, Bool.or_eq_false_iff,
    Bool.and_eq_false_iff, decide_eq_false_iff_not]
  constructor
  · left; intro h'; have := UInt32.le_toNat h'; revert this hn; generalize c.val.toNat = n; intro a b
    have : (97 : UInt32).toNat = 97 := rfl
    omega
  · left; intro h'; have := UInt32.le_toNat h'; revert this hn; generalize c.val.toNat = n; intro a b
    have : (65 : UInt32).toNat = 65 := rfl
    omega

theorem isDigitU_of_isAlpha {c : Char} (h : c.isAlpha = true) : isDigitU c = false := by
  have hv := val_lt_of_isAlpha h
  have hn : 65 ≤ c.val.toNat := by
    rcases isAlpha_cases h with h | h
    · exact UInt32.le_toNat h.1
    · exact Nat.le_trans (by decide) (UInt32.le_toNat h.1)
  simp only [isDigitU, hv, if_true, show '0'.val = 48 from rfl, show '9'.val = 57 from rfl,
    Bool.and_eq_false_iff, decide_eq_false_iff_not]
  right; intro h'; have := UInt32.le_toNat h'
  have : (57 : UInt32).toNat = 57 := rfl
  omega

/-! ### white space -/

theorem cont_spaceLoop (c : Char) (r : List Char) : cont (spaceLoop c r) = sends (c :: r) := by
  by_cases hc : isSpaceU c = true
  · rw [sends_cons, lexInputStep, if_pos hc]
  · rw [spaceLoop, if_neg hc]; simp [cont, sends]

/-- a white-space rune is skipped; a newline is sent as a token -/
theorem sends_space (c : Char) (hc : isSpaceU c = true) (rest : List Char) :
    sends (c :: rest) = (if c == '\n' then [(⟨.newline, ""⟩ : Token)] else []) ++ sends rest := by
  rw [sends_cons, lexInputStep, if_pos hc, spaceLoop, if_pos hc]
  cases rest with
  | nil => simp [cont, sends_nil]
  | cons c' r' =>
    simp only
    rw [← cont_spaceLoop c' r']
    rcases spaceLoop c' r' with ⟨t, _ | ⟨c'', r''⟩⟩ <;> simp [cont]

def isBlank (c : Char) : Bool := c == ' ' || c == '\t'

theorem sends_blank (c : Char) (hc : isBlank c = true) (rest : List Char) :
    sends (c :: rest) = sends rest := by
  simp only [isBlank, Bool.or_eq_true, beq_iff_eq] at hc
  rcases hc with rfl | rfl
  · rw [sends_space ' ' (by decide)]; simp
  · rw [sends_space '\t' (by decide)]; simp

theorem sends_blanks (sep : List Char) (hs : ∀ c ∈ sep, isBlank c = true) (rest : List Char) :
    sends (sep ++ rest) = sends rest := by
  induction sep with
  | nil => rfl
  | cons c r ih =>
    rw [List.cons_append, sends_blank c (hs c (by simp)), ih (fun x hx => hs x (by simp [hx]))]

theorem sends_newline (rest : List Char) :
    sends ('\n' :: rest) = (⟨.newline, ""⟩ : Token) :: sends rest := by
  rw [sends_space '\n' (by decide)]; simp

/-! ### identifiers -/

/-- nothing that could continue an identifier comes next -/
def NoText (rest : List Char) : Prop := ∀ c r, rest = c :: r → isTextRune c = false

/-- nothing that could continue a number comes next -/
def NoDigit (rest : List Char) : Prop := ∀ c r, rest = c :: r → isDigitU c = false

theorem NoText.noDigit {rest : List Char} (h : NoText rest) : NoDigit rest := by
  intro c r hr
  have := h c r hr
  simp only [isTextRune, Bool.or_eq_false_iff] at this
  exact this.1.1.2

theorem cont_lexText (rest : List Char) (hrest : NoText rest) :
    ∀ (cs : List Char) (cur : Char) (buf : List Char),
      isTextRune cur = true → (∀ x ∈ cs, isTextRune x = true) →
      cont (lexText cur (cs ++ rest) buf) =
        (⟨.text, String.ofList (buf.reverse ++ cur :: cs)⟩ : Token) :: sends rest := by
  intro cs
  induction cs with
  | nil =>
    intro cur buf hcur _
    cases rest with
    | nil => rw [List.nil_append, lexText, if_pos hcur]; simp [cont, sends_nil, bufStr]
    | cons c' r' =>
      have hc' := hrest c' r' rfl
      rw [List.nil_append, lexText, if_pos hcur]
      rw [lexText.eq_def, if_neg (by simp [hc'])]
      simp [cont, sends, bufStr]
  | cons x xs ih =>
    intro cur buf hcur hcs
    rw [List.cons_append, lexText, if_pos hcur]
    rw [ih x (cur :: buf) (hcs x (by simp)) (fun y hy => hcs y (by simp [hy]))]
    simp

def isIdentStart (c : Char) : Bool := c.isAlpha || c == '_'
def isIdentChar (c : Char) : Bool := c.isAlphanum || c == '_' || c == '.'

theorem isTextRune_of_isIdentChar {c : Char} (h : isIdentChar c = true) : isTextRune c = true := by
  simp only [isIdentChar, Char.isAlphanum, Bool.or_eq_true, beq_iff_eq] at h
  simp only [isTextRune, Bool.or_eq_true, beq_iff_eq]
  rcases h with ((h | h) | h) | h
  · exact Or.inl (Or.inl (Or.inl (isLetterU_of_isAlpha h)))
  · exact Or.inl (Or.inl (Or.inr (isDigitU_of_isDigit h)))
  · exact Or.inr h
  · exact Or.inl (Or.inr h)

theorem isIdentChar_of_isIdentStart {c : Char} (h : isIdentStart c = true) : isIdentChar c = true := by
  simp only [isIdentStart, Bool.or_eq_true, beq_iff_eq] at h
  simp only [isIdentChar, Char.isAlphanum, Bool.or_eq_true, beq_iff_eq]
  rcases h with h | h
  · exact Or.inl (Or.inl (Or.inl h))
  · exact Or.inl (Or.inr h)

theorem lexInputStep_identStart {c : Char} (h : isIdentStart c = true) (rest : List Char) :
    lexInputStep c rest = lexText c rest := by
  simp only [isIdentStart, Bool.or_eq_true, beq_iff_eq] at h
  rcases h with h | h
  · rw [lexInputStep, if_neg (by simp [isSpaceU_of_isAlpha h]), if_pos (by simp [isLetterU_of_isAlpha h])]
  · subst h
    rw [lexInputStep, if_neg (by decide), if_pos (by decide)]

/-- an identifier `[A-Za-z_][A-Za-z0-9_.]*`, not followed by an identifier character, is one text
    token; letter case is preserved -/
theorem sends_ident (c : Char) (cs : List Char) (hc : isIdentStart c = true)
    (hcs : ∀ x ∈ cs, isIdentChar x = true) (rest : List Char) (hrest : NoText rest) :
    sends (c :: cs ++ rest) = (⟨.text, String.ofList (c :: cs)⟩ : Token) :: sends rest := by
  rw [List.cons_append, sends_cons, lexInputStep_identStart hc]
  have := cont_lexText rest hrest cs c []
    (isTextRune_of_isIdentChar (isIdentChar_of_isIdentStart hc))
    (fun x hx => isTextRune_of_isIdentChar (hcs x hx))
  simpa using this

/-! ### numbers -/

theorem cont_lexDigits (rest : List Char) (hrest : NoDigit rest) :
    ∀ (cs : List Char) (cur : Char) (buf : List Char),
      isDigitU cur = true → (∀ x ∈ cs, isDigitU x = true) →
      cont (lexDigits cur (cs ++ rest) buf) =
        (⟨.number, String.ofList (buf.reverse ++ cur :: cs)⟩ : Token) :: sends rest := by
  intro cs
  induction cs with
  | nil =>
    intro cur buf hcur _
    cases rest with
    | nil => rw [List.nil_append, lexDigits, if_pos hcur]; simp [cont, sends_nil, bufStr]
    | cons c' r' =>
      have hc' := hrest c' r' rfl
      rw [List.nil_append, lexDigits, if_pos hcur]
      rw [lexDigits.eq_def, if_neg (by simp [hc'])]
      simp [cont, sends, bufStr]
  | cons x xs ih =>
    intro cur buf hcur hcs
    rw [List.cons_append, lexDigits, if_pos hcur]
    rw [ih x (cur :: buf) (hcs x (by simp)) (fun y hy => hcs y (by simp [hy]))]
    simp

theorem lexInputStep_digit {c : Char} (h : c.isDigit = true) (rest : List Char) :
    lexInputStep c rest = lexNumber c rest := by
  rw [lexInputStep, if_neg (by simp [isSpaceU_of_isDigit h]), if_neg, if_pos (isDigitU_of_isDigit h)]
  simp only [Bool.or_eq_true, beq_iff_eq, isLetterU_of_isDigit h, Bool.false_eq_true, false_or]
  intro hc; subst hc; revert h; decide

/-- a decimal number without leading zero, not followed by a digit, is one number token -/
theorem sends_number (c : Char) (cs : List Char) (hc : c.isDigit = true) (hc0 : c ≠ '0')
    (hcs : ∀ x ∈ cs, x.isDigit = true) (rest : List Char) (hrest : NoDigit rest) :
    sends (c :: cs ++ rest) = (⟨.number, String.ofList (c :: cs)⟩ : Token) :: sends rest := by
  rw [List.cons_append, sends_cons, lexInputStep_digit hc, lexNumber.eq_def, if_neg (by simpa using hc0)]
  have := cont_lexDigits rest hrest cs c [] (isDigitU_of_isDigit hc)
    (fun x hx => isDigitU_of_isDigit (hcs x hx))
  simpa using this

/-- the number `0` -/
theorem sends_zero (rest : List Char) (hrest : NoDigit rest) :
    sends ('0' :: rest) = (⟨.number, "0"⟩ : Token) :: sends rest := by
  rw [sends_cons, lexInputStep_digit (by decide), lexNumber.eq_def, if_pos (by decide)]
  cases rest with
  | nil => simp [cont, sends_nil]
  | cons c' r' =>
    have hc' := hrest c' r' rfl
    have h0 : (c' == '0') = false := by
      cases h : c' == '0'
      · rfl
      · have : c' = '0' := by simpa using h
        subst this; revert hc'; decide
    simp only
    rw [lexNumber.eq_def, if_neg (by simp [h0]), lexDigits.eq_def, if_neg (by simp [hc'])]
    simp [cont, sends]

/-! ### one-character symbols -/

def symChars : List Char := ['+', '-', '*', '/', '%', '$', '#', '@', '{', '}', '(', ')', ',', ':']

/-- the token of a one-character symbol -/
def symTok (c : Char) : Token :=
  if c = ',' then ⟨.comma, ","⟩
  else if c = '(' then ⟨.parenL, "("⟩
  else if c = ')' then ⟨.parenR, ")"⟩
  else if c = ':' then ⟨.colon, ":"⟩
  else ⟨.symbol, String.singleton c⟩

theorem lexInputStep_sym (c : Char) (hc : c ∈ symChars) (rest : List Char) :
    lexInputStep c rest = emitConsume (symTok c) rest := by
  simp only [symChars, List.mem_cons, List.not_mem_nil, or_false] at hc
  rcases hc with rfl | rfl | rfl | rfl | rfl | rfl | rfl | rfl | rfl | rfl | rfl | rfl | rfl | rfl
  · simp [lexInputStep, show isSpaceU '+' = false by decide, show isLetterU '+' = false by decide,
      show isDigitU '+' = false by decide, runeStr, symTok]
  · simp [lexInputStep, show isSpaceU '-' = false by decide, show isLetterU '-' = false by decide,
      show isDigitU '-' = false by decide, runeStr, symTok]
  · simp [lexInputStep, show isSpaceU '*' = false by decide, show isLetterU '*' = false by decide,
      show isDigitU '*' = false by decide, runeStr, symTok]
  · simp [lexInputStep, show isSpaceU '/' = false by decide, show isLetterU '/' = false by decide,
      show isDigitU '/' = false by decide, runeStr, symTok]
  · simp [lexInputStep, show isSpaceU '%' = false by decide, show isLetterU '%' = false by decide,
      show isDigitU '%' = false by decide, runeStr, symTok]
  · simp [lexInputStep, show isSpaceU '$' = false by decide, show isLetterU '$' = false by decide,
      show isDigitU '$' = false by decide, runeStr, symTok]
  · simp [lexInputStep, show isSpaceU '#' = false by decide, show isLetterU '#' = false by decide,
      show isDigitU '#' = false by decide, runeStr, symTok]
  · simp [lexInputStep, show isSpaceU '@' = false by decide, show isLetterU '@' = false by decide,
      show isDigitU '@' = false by decide, runeStr, symTok]
  · simp [lexInputStep, show isSpaceU '{' = false by decide, show isLetterU '{' = false by decide,
      show isDigitU '{' = false by decide, runeStr, symTok]
  · simp [lexInputStep, show isSpaceU '}' = false by decide, show isLetterU '}' = false by decide,
      show isDigitU '}' = false by decide, runeStr, symTok]
  · simp [lexInputStep, show isSpaceU '(' = false by decide, show isLetterU '(' = false by decide,
      show isDigitU '(' = false by decide, symTok]
  · simp [lexInputStep, show isSpaceU ')' = false by decide, show isLetterU ')' = false by decide,
      show isDigitU ')' = false by decide, symTok]
  · simp [lexInputStep, show isSpaceU ',' = false by decide, show isLetterU ',' = false by decide,
      show isDigitU ',' = false by decide, symTok]
  · simp [lexInputStep, show isSpaceU ':' = false by decide, show isLetterU ':' = false by decide,
      show isDigitU ':' = false by decide, symTok]

/-- `+ - * / % $ # @ { } ( ) , :` are one token each, whatever follows -/
theorem sends_sym (c : Char) (hc : c ∈ symChars) (rest : List Char) :
    sends (c :: rest) = symTok c :: sends rest := by
  rw [sends_cons, lexInputStep_sym c hc, cont_emitConsume]

/-- `<` and `>` are one symbol token when something other than `=` follows (at the very end of
    the input they are DROPPED: `consumeThen` sends only the EOF token) -/
theorem sends_cmp (c : Char) (hc : c = '<' ∨ c = '>') (c' : Char) (hc' : c' ≠ '=') (rest : List Char) :
    sends (c :: c' :: rest) = (⟨.symbol, String.singleton c⟩ : Token) :: sends (c' :: rest) := by
  have h' : (c' == '=') = false := by simpa using hc'
  rcases hc with rfl | rfl
  · rw [sends_cons]
    simp [lexInputStep, show isSpaceU '<' = false by decide, show isLetterU '<' = false by decide,
      show isDigitU '<' = false by decide, consumeThen, lexLt, lexCmp, h', cont, sends, runeStr]
  · rw [sends_cons]
    simp [lexInputStep, show isSpaceU '>' = false by decide, show isLetterU '>' = false by decide,
      show isDigitU '>' = false by decide, consumeThen, lexGt, lexCmp, h', cont, sends, runeStr]

/-! ### comments -/

/-- the end of the line: end of input or a newline -/
def LineEnd (rest : List Char) : Prop := rest = [] ∨ ∃ r, rest = '\n' :: r

theorem cont_lexComment (rest : List Char) (hrest : LineEnd rest) :
    ∀ (cs : List Char) (cur : Char) (buf : List Char),
      cur ≠ '\n' → (∀ x ∈ cs, x ≠ '\n') →
      cont (lexComment cur (cs ++ rest) buf) =
        (⟨.comment, String.ofList (buf.reverse ++ cur :: cs)⟩ : Token) :: sends rest := by
  intro cs
  induction cs with
  | nil =>
    intro cur buf hcur _
    have hcur' : (cur != '\n') = true := by simpa using hcur
    rcases hrest with rfl | ⟨r, rfl⟩
    · rw [List.nil_append, lexComment, if_pos hcur']; simp [cont, sends_nil, bufStr]
    · rw [List.nil_append, lexComment, if_pos hcur']
      rw [lexComment.eq_def, if_neg (by simp)]
      simp [cont, sends, bufStr]
  | cons x xs ih =>
    intro cur buf hcur hcs
    have hcur' : (cur != '\n') = true := by simpa using hcur
    rw [List.cons_append, lexComment, if_pos hcur']
    rw [ih x (cur :: buf) (hcs x (by simp)) (fun y hy => hcs y (by simp [hy]))]
    simp

/-- `;` and everything up to the end of the line is one comment token -/
theorem sends_comment (cs : List Char) (hcs : ∀ x ∈ cs, x ≠ '\n') (rest : List Char)
    (hrest : LineEnd rest) :
    sends (';' :: cs ++ rest) = (⟨.comment, String.ofList (';' :: cs)⟩ : Token) :: sends rest := by
  rw [List.cons_append, sends_cons]
  have h : lexInputStep ';' (cs ++ rest) = lexComment ';' (cs ++ rest) := by
    simp [lexInputStep, show isSpaceU ';' = false by decide, show isLetterU ';' = false by decide,
      show isDigitU ';' = false by decide]
  rw [h]
  simpa using cont_lexComment rest hrest cs ';' [] (by decide) hcs

/-! ### words -/

/-- a word of a source line -/
inductive Word
  /-- identifier `[A-Za-z_][A-Za-z0-9_.]*` -/
  | ident (c : Char) (cs : List Char)
  /-- decimal number without leading zero -/
  | num (c : Char) (cs : List Char)
  /-- one of `+ - * / % $ # @ { } ( ) , :` -/
  | sym (c : Char)
  /-- `<` or `>` -/
  | cmp (c : Char)

def Word.chars : Word → List Char
  | .ident c cs => c :: cs
  | .num c cs => c :: cs
  | .sym c => [c]
  | .cmp c => [c]

/-- the token of the word: the value is the word itself, letter case included -/
def Word.tok : Word → Token
  | .ident c cs => ⟨.text, String.ofList (c :: cs)⟩
  | .num c cs => ⟨.number, String.ofList (c :: cs)⟩
  | .sym c => symTok c
  | .cmp c => ⟨.symbol, String.singleton c⟩

def Word.valid : Word → Bool
  | .ident c cs => isIdentStart c && cs.all isIdentChar
  | .num c cs => c.isDigit && cs.all Char.isDigit && (c != '0' || cs.isEmpty)
  | .sym c => symChars.contains c
  | .cmp c => c == '<' || c == '>'

/-- the word ends before the next character `nx` (`none`: end of input): an identifier is not
    followed by an identifier character, a number not by a digit, `<` / `>` by something that is
    not `=` -/
def Word.stopsBefore : Word → Option Char → Bool
  | .ident _ _, some c => !isTextRune c
  | .ident _ _, none => true
  | .num _ _, some c => !isDigitU c
  | .num _ _, none => true
  | .sym _, _ => true
  | .cmp _, some c => c != '='
  | .cmp _, none => false

theorem sends_word (w : Word) (hv : w.valid = true) (rest : List Char)
    (hs : w.stopsBefore rest.head? = true) : sends (w.chars ++ rest) = w.tok :: sends rest := by
  cases w with
  | ident c cs =>
    simp only [Word.valid, Bool.and_eq_true, List.all_eq_true] at hv
    refine sends_ident c cs hv.1 hv.2 rest ?_
    intro c' r hr; subst hr
    simpa [Word.stopsBefore] using hs
  | num c cs =>
    simp only [Word.valid, Bool.and_eq_true, List.all_eq_true, Bool.or_eq_true, bne_iff_ne, ne_eq,
      List.isEmpty_iff] at hv
    have hnd : NoDigit rest := by
      intro c' r hr; subst hr
      simpa [Word.stopsBefore] using hs
    by_cases h0 : c = '0'
    · subst h0
      have : cs = [] := by rcases hv.2 with h | h; exact absurd rfl h; exact h
      subst this
      exact sends_zero rest hnd
    · exact sends_number c cs hv.1.1 h0 hv.1.2 rest hnd
  | sym c =>
    simp only [Word.valid, List.contains_eq_mem, decide_eq_true_eq] at hv
    exact sends_sym c hv rest
  | cmp c =>
    simp only [Word.valid, Bool.or_eq_true, beq_iff_eq] at hv
    cases rest with
    | nil => simp [Word.stopsBefore] at hs
    | cons c' r =>
      simp only [List.head?_cons, Word.stopsBefore, bne_iff_ne, ne_eq] at hs
      exact sends_cmp c hv c' hs r

theorem stopsBefore_of_noText (w : Word) (c : Char) (h : isTextRune c = false) (hc : c ≠ '=') :
    w.stopsBefore (some c) = true := by
  cases w with
  | ident _ _ => simp [Word.stopsBefore, h]
  | num _ _ =>
    simp only [isTextRune, Bool.or_eq_false_iff] at h
    simp [Word.stopsBefore, h.1.1.2]
  | sym _ => rfl
  | cmp _ => simpa [Word.stopsBefore] using hc

/-- any word may be followed by a blank, a tab, a newline, `;`, or a one-character symbol -/
theorem stopsBefore_blank (w : Word) (c : Char) (hc : isBlank c = true) :
    w.stopsBefore (some c) = true := by
  simp only [isBlank, Bool.or_eq_true, beq_iff_eq] at hc
  rcases hc with rfl | rfl <;> exact stopsBefore_of_noText w _ (by decide) (by decide)

theorem stopsBefore_newline (w : Word) : w.stopsBefore (some '\n') = true :=
  stopsBefore_of_noText w _ (by decide) (by decide)

theorem stopsBefore_semicolon (w : Word) : w.stopsBefore (some ';') = true :=
  stopsBefore_of_noText w _ (by decide) (by decide)

theorem stopsBefore_sym (w : Word) (c : Char) (hc : c ∈ symChars) :
    w.stopsBefore (some c) = true := by
  simp only [symChars, List.mem_cons, List.not_mem_nil, or_false] at hc
  rcases hc with rfl | rfl | rfl | rfl | rfl | rfl | rfl | rfl | rfl | rfl | rfl | rfl | rfl | rfl <;>
    exact stopsBefore_of_noText w _ (by decide) (by decide)

/-! ### words with separators -/

def headOr (l : List Char) (d : Option Char) : Option Char :=
  match l with
  | [] => d
  | c :: _ => some c

theorem head?_append (l t : List Char) : (l ++ t).head? = headOr l t.head? := by
  cases l <;> rfl

/-- each word followed by its separator (blanks and tabs, possibly none) -/
def renderWords : List (Word × List Char) → List Char
  | [] => []
  | (w, sep) :: r => w.chars ++ (sep ++ renderWords r)

/-- words are valid, separators consist of blanks and tabs, and each word ends before what
    follows it (always the case when the separator is not empty); `nx` is the character after
    the last separator -/
def wordsOK : List (Word × List Char) → Option Char → Bool
  | [], _ => true
  | (w, sep) :: r, nx =>
    w.valid && sep.all isBlank && w.stopsBefore (headOr (sep ++ renderWords r) nx) && wordsOK r nx

theorem sends_words (tail : List Char) :
    ∀ (ws : List (Word × List Char)), wordsOK ws tail.head? = true →
      sends (renderWords ws ++ tail) = ws.map (·.1.tok) ++ sends tail := by
  intro ws
  induction ws with
  | nil => intro _; rfl
  | cons p r ih =>
    obtain ⟨w, sep⟩ := p
    intro h
    simp only [wordsOK, Bool.and_eq_true, List.all_eq_true] at h
    obtain ⟨⟨⟨hv, hsep⟩, hstop⟩, hr⟩ := h
    simp only [renderWords, List.append_assoc, List.map_cons, List.cons_append]
    rw [sends_word w hv _ (by rw [← List.append_assoc, head?_append]; exact hstop),
      sends_blanks sep hsep, ih hr]

theorem wordsOK_sep_ne_nil (w : Word) (sep : List Char) (r : List (Word × List Char))
    (nx : Option Char) (hsep : sep ≠ []) :
    wordsOK ((w, sep) :: r) nx = (w.valid && sep.all isBlank && wordsOK r nx) := by
  cases sep with
  | nil => exact absurd rfl hsep
  | cons c cs =>
    simp only [wordsOK, List.cons_append, headOr]
    by_cases hc : isBlank c = true
    · simp [stopsBefore_blank w c hc]
    · simp [hc]

/-! ### source lines -/

/-- a source line: leading blanks, words with their separators, optionally a comment (the
    characters after the `;`) -/
structure SrcLine where
  lead : List Char := []
  words : List (Word × List Char)
  comment : Option (List Char) := none

def SrcLine.commentChars (l : SrcLine) : List Char :=
  match l.comment with
  | some cs => ';' :: cs
  | none => []

/-- the characters of the line, without the newline -/
def SrcLine.chars (l : SrcLine) : List Char := l.lead ++ (renderWords l.words ++ l.commentChars)

/-- the tokens of the line, without the newline token -/
def SrcLine.toks (l : SrcLine) : List Token :=
  l.words.map (·.1.tok) ++
    (match l.comment with
     | some cs => [(⟨.comment, String.ofList (';' :: cs)⟩ : Token)]
     | none => [])

/-- well-formed line, `nx` being the character after the line (`some '\n'`, or `none` for a last
    line that is not terminated) -/
def SrcLine.ok (l : SrcLine) (nx : Option Char) : Bool :=
  l.lead.all isBlank &&
    (match l.comment with
     | some cs => wordsOK l.words (some ';') && cs.all (· != '\n')
     | none => wordsOK l.words nx)

theorem sends_line (l : SrcLine) (rest : List Char) (hrest : LineEnd rest)
    (hok : l.ok rest.head? = true) : sends (l.chars ++ rest) = l.toks ++ sends rest := by
  obtain ⟨lead, words, comment⟩ := l
  simp only [SrcLine.ok, Bool.and_eq_true, List.all_eq_true] at hok
  obtain ⟨hlead, hok⟩ := hok
  simp only [SrcLine.chars, SrcLine.toks, SrcLine.commentChars, List.append_assoc]
  rw [sends_blanks lead hlead]
  cases comment with
  | none =>
    simp only [List.nil_append]
    exact sends_words rest words hok
  | some cs =>
    simp only [Bool.and_eq_true, List.all_eq_true, bne_iff_ne, ne_eq] at hok
    rw [sends_words (';' :: cs ++ rest) words hok.1, sends_comment cs hok.2 rest hrest]
    simp

/-- a line with its newline -/
theorem sends_line_newline (l : SrcLine) (rest : List Char) (hok : l.ok (some '\n') = true) :
    sends (l.chars ++ '\n' :: rest) = l.toks ++ (⟨.newline, ""⟩ : Token) :: sends rest := by
  rw [sends_line l ('\n' :: rest) (Or.inr ⟨rest, rfl⟩) hok, sends_newline]

def renderLines : List SrcLine → List Char
  | [] => []
  | l :: r => l.chars ++ '\n' :: renderLines r

def linesToks : List SrcLine → List Token
  | [] => []
  | l :: r => l.toks ++ (⟨.newline, ""⟩ : Token) :: linesToks r

theorem sends_lines (ls : List SrcLine) (hok : ∀ l ∈ ls, l.ok (some '\n') = true) (rest : List Char) :
    sends (renderLines ls ++ rest) = linesToks ls ++ sends rest := by
  induction ls with
  | nil => rfl
  | cons l r ih =>
    simp only [renderLines, linesToks, List.append_assoc, List.cons_append]
    rw [sends_line_newline l _ (hok l (by simp)), ih (fun x hx => hok x (by simp [hx]))]

/-- **`lex_tokens_words`** (stage 1): for lines made of words separated by blanks and tabs (a
    separator may be missing where the word ends anyway), each optionally closed by a `;` comment,
    `Lex.tokens` yields exactly the tokens of the words, a comment token, and a newline token per
    line, then EOF -/
theorem lex_tokens_words (ls : List SrcLine) (hok : ∀ l ∈ ls, l.ok (some '\n') = true) :
    Lex.tokens (renderLines ls) = linesToks ls ++ [Lex.eofTok] := by
  have := sends_lines ls hok []
  rw [List.append_nil, sends_nil] at this
  rw [tokens_eq_sends, this]

/-- the same when the last line is not terminated by a newline -/
theorem lex_tokens_words_last (ls : List SrcLine) (hok : ∀ l ∈ ls, l.ok (some '\n') = true)
    (last : SrcLine) (hlast : last.ok none = true) :
    Lex.tokens (renderLines ls ++ last.chars) = linesToks ls ++ (last.toks ++ [Lex.eofTok]) := by
  have h := sends_line last [] (Or.inl rfl) hlast
  rw [List.append_nil, sends_nil] at h
  rw [tokens_eq_sends, sends_lines ls hok, h]

end Gmars.Render
