/-
  C03, parser stage: the canonical token rendering of a list of instruction statements (with
  blank lines and comment lines in between) is parsed into exactly the source lines it denotes.

  Frozen model: `Gmars/Model/Parser.lean`.
-/
import Gmars.Model.Parser

namespace Gmars.Render
open Gmars Gmars.Parser

/-! ### running the state machine -/

theorem run_some {s s' : St} {p p' : PState} (h : step s p = .ok (p', some s')) (fuel : Nat) :
    run (fuel + 1) s p = run fuel s' p' := by
  simp only [run, h]; rfl

theorem run_none {s : St} {p p' : PState} (h : step s p = .ok (p', none)) (fuel : Nat) :
    run (fuel + 1) s p = .ok p' := by
  simp only [run, h]; rfl

/-- from `(s, p)` the machine comes to `(s', p')` after at most `b` calls of state functions -/
def ReachLe (b : Nat) (s : St) (p : PState) (s' : St) (p' : PState) : Prop :=
  ∃ n, n ≤ b ∧ ∀ fuel, run (fuel + n) s p = run fuel s' p'

theorem ReachLe.refl (s : St) (p : PState) : ReachLe 0 s p s p := ⟨0, Nat.le_refl _, fun _ => rfl⟩

theorem ReachLe.one {s s' : St} {p p' : PState} (h : step s p = .ok (p', some s')) :
    ReachLe 1 s p s' p' := ⟨1, Nat.le_refl _, run_some h⟩

theorem ReachLe.trans {a b : Nat} {s₁ s₂ s₃ : St} {p₁ p₂ p₃ : PState}
    (h₁ : ReachLe a s₁ p₁ s₂ p₂) (h₂ : ReachLe b s₂ p₂ s₃ p₃) : ReachLe (a + b) s₁ p₁ s₃ p₃ := by
  obtain ⟨n, hn, h₁⟩ := h₁
  obtain ⟨m, hm, h₂⟩ := h₂
  refine ⟨m + n, by omega, fun fuel => ?_⟩
  rw [← Nat.add_assoc, h₁, h₂]

theorem ReachLe.mono {a b : Nat} {s s' : St} {p p' : PState} (h : ReachLe a s p s' p')
    (hab : a ≤ b) : ReachLe b s p s' p' := by
  obtain ⟨n, hn, h⟩ := h
  exact ⟨n, by omega, h⟩

theorem ReachLe.mono' {a b : Nat} {s s' : St} {p p' q' : PState} (h : ReachLe a s p s' p')
    (hq : p' = q') (hab : a ≤ b) : ReachLe b s p s' q' := hq ▸ h.mono hab

theorem ReachLe.finish {b : Nat} {s s' : St} {p p' q : PState} (h : ReachLe b s p s' p')
    (hs : step s' p' = .ok (q, none)) {fuel : Nat} (hf : b + 1 ≤ fuel) : run fuel s p = .ok q := by
  obtain ⟨n, hn, h⟩ := h
  obtain ⟨k, rfl⟩ : ∃ k, fuel = (k + 1) + n := ⟨fuel - 1 - n, by omega⟩
  rw [h, run_none hs]

/-! ### live parser states -/

/-- everything of a live parser state (no error, reader not exhausted, no `end` seen) except the
    token stream -/
structure Ctx where
  line : Int := 1
  codeLine : Int := 0
  cur : SourceLine := {}
  metadata : AsmMeta := {}
  lines : List SourceLine := []
  symbols : List String := ["CORESIZE", "MAXLENGTH", "MAXPROCESSES", "MINDISTANCE"]
  references : List String := []

/-- the parser state with look-ahead `t` and unread tokens `rest` -/
def Ctx.st (c : Ctx) (t : Token) (rest : List Token) : PState :=
  { rest := rest, nextToken := t, line := c.line, codeLine := c.codeLine, atEOF := false,
    err := false, cur := c.cur, metadata := c.metadata, endSeen := false, lines := c.lines.toArray,
    symbols := c.symbols, references := c.references }

def nlTok : Token := ⟨.newline, ""⟩
def eofTok : Token := ⟨.eof, ""⟩
def commaTok : Token := ⟨.comma, ","⟩
def colonTok : Token := ⟨.colon, ":"⟩

theorem advance_st (c : Ctx) (t t' : Token) (rest : List Token) :
    advance (c.st t (t' :: rest)) =
      ({ c with line := if t.typ == .newline then c.line + 1 else c.line } : Ctx).st t' rest := by
  simp [advance, next, Ctx.st]

theorem next_st (c : Ctx) (t t' : Token) (rest : List Token) :
    next (c.st t (t' :: rest)) =
      (t, ({ c with line := if t.typ == .newline then c.line + 1 else c.line } : Ctx).st t' rest) := by
  simp [next, Ctx.st]

theorem frozen_st (c : Ctx) (t t' : Token) (rest : List Token) :
    frozen (c.st t (t' :: rest)) = false := by
  simp [frozen, Ctx.st]

/-! ### the expression loop -/

/-- `p.references` after the expression loop has gone over `ts` (most recent first) -/
def addRefs : List Token → List String → List String
  | [], refs => refs
  | t :: ts, refs =>
    addRefs ts (if t.typ == .text && !refs.contains t.val then t.val :: refs else refs)

theorem noteReference_st (c : Ctx) (t : Token) (rest : List Token) :
    noteReference (c.st t rest) = ({ c with references := addRefs [t] c.references } : Ctx).st t rest := by
  simp only [noteReference, Ctx.st, addRefs]
  split <;> simp_all

theorem isExpressionTerm_not_newline {t : Token} (h : t.isExpressionTerm = true) :
    (t.typ == TokType.newline) = false := by
  simp [Token.isExpressionTerm] at h
  rcases h with (((h | h) | h) | h) | h <;> simp [h]

theorem exprLoop_ok (site : String) (ts : List Token) (hts : ∀ t ∈ ts, t.isExpressionTerm = true)
    (t' : Token) (ht' : t'.isExpressionTerm = false) (rest' : List Token) :
    ∀ (c : Ctx) (t0 : Token) (rest0 : List Token) (acc : List Token) (fuel : Nat),
      t0 :: rest0 = ts ++ t' :: rest' → ts.length + 1 ≤ fuel →
      exprLoop site fuel (c.st t0 rest0) acc =
        .ok (({ c with references := addRefs ts c.references } : Ctx).st t' rest', ts.reverse ++ acc) := by
  induction ts with
  | nil =>
    intro c t0 rest0 acc fuel h hf
    simp at h; obtain ⟨rfl, rfl⟩ := h
    obtain ⟨k, rfl⟩ : ∃ k, fuel = k + 1 := ⟨fuel - 1, by simp at hf; omega⟩
    simp [exprLoop, Ctx.st, ht', addRefs]
  | cons t ts ih =>
    intro c t0 rest0 acc fuel h hf
    simp at h; obtain ⟨rfl, rfl⟩ := h
    obtain ⟨k, rfl⟩ : ∃ k, fuel = k + 1 := ⟨fuel - 1, by simp at hf; omega⟩
    have ht : t0.isExpressionTerm = true := hts t0 (by simp)
    have hts' : ∀ t ∈ ts, t.isExpressionTerm = true := fun x hx => hts x (by simp [hx])
    obtain ⟨t1, rest1, h1⟩ : ∃ t1 rest1, ts ++ t' :: rest' = t1 :: rest1 := by
      cases ts <;> simp
    rw [h1]
    have hst : (c.st t0 (t1 :: rest1)).nextToken = t0 := rfl
    rw [exprLoop, hst, if_pos ht, frozen_st, noteReference_st, advance_st]
    simp only [Bool.false_eq_true, if_false]
    rw [isExpressionTerm_not_newline ht]
    simp only [Bool.false_eq_true, if_false]
    rw [ih hts' _ t1 rest1 _ k h1.symm (by simp at hf ⊢; omega)]
    simp [addRefs]

theorem collectExpr_ok (site : String) (ts : List Token) (hts : ∀ t ∈ ts, t.isExpressionTerm = true)
    (t' : Token) (ht' : t'.isExpressionTerm = false) (rest' : List Token)
    (c : Ctx) (t0 : Token) (rest0 : List Token) (h : t0 :: rest0 = ts ++ t' :: rest') :
    collectExpr site (c.st t0 rest0) =
      .ok (({ c with references := addRefs ts c.references } : Ctx).st t' rest', ts) := by
  have hl : ts.length + 1 ≤ (c.st t0 rest0).rest.length + 1 := by
    have := congrArg List.length h
    simp [Ctx.st] at this ⊢; omega
  simp only [collectExpr]
  rw [exprLoop_ok site ts hts t' ht' rest' c t0 rest0 [] _ h hl]
  simp [bind, Except.bind, pure, Except.pure]

/-! ### the newline loop of `parseEmptyLines` -/

theorem skipLoop_newlines (k : Nat) (t' : Token) (ht' : (t'.typ == TokType.newline) = false)
    (rest' : List Token) :
    ∀ (c : Ctx) (t0 : Token) (rest0 : List Token) (fuel : Nat),
      t0 :: rest0 = List.replicate k nlTok ++ t' :: rest' → k + 1 ≤ fuel →
      skipLoop "parseEmptyLines" .newline true fuel (c.st t0 rest0) =
        .ok (({ c with line := c.line + k,
                       cur := { c.cur with newlines := c.cur.newlines + k } } : Ctx).st t' rest') := by
  induction k with
  | zero =>
    intro c t0 rest0 fuel h hf
    simp at h; obtain ⟨rfl, rfl⟩ := h
    obtain ⟨n, rfl⟩ : ∃ n, fuel = n + 1 := ⟨fuel - 1, by omega⟩
    simp [skipLoop, Ctx.st, ht']
  | succ k ih =>
    intro c t0 rest0 fuel h hf
    simp [List.replicate_succ] at h; obtain ⟨rfl, rfl⟩ := h
    obtain ⟨n, rfl⟩ : ∃ n, fuel = n + 1 := ⟨fuel - 1, by omega⟩
    obtain ⟨t1, rest1, h1⟩ : ∃ t1 rest1, List.replicate k nlTok ++ t' :: rest' = t1 :: rest1 := by
      cases k <;> simp [List.replicate_succ]
    rw [h1]
    have hst : (c.st nlTok (t1 :: rest1)).nextToken = nlTok := rfl
    have hinc : incNewlines (c.st nlTok (t1 :: rest1)) =
        ({ c with cur := { c.cur with newlines := c.cur.newlines + 1 } } : Ctx).st nlTok (t1 :: rest1) := rfl
    rw [skipLoop, hst]
    simp only [nlTok, beq_self_eq_true, if_true]
    rw [show (⟨.newline, ""⟩ : Token) = nlTok from rfl, frozen_st, hinc, advance_st]
    simp only [Bool.false_eq_true, if_false, nlTok, beq_self_eq_true, if_true]
    rw [ih _ t1 rest1 n h1.symm (by omega)]
    simp only [Int.natCast_add, Int.natCast_one]
    congr 3
    · omega
    · congr 1; omega

/-! ### statements -/

def modeStrs : List String := ["$", "#", "@", "*", "{", "<", "}", ">"]

/-- an operand: optional address-mode symbol and the expression tokens -/
structure Operand where
  mode : Option String := none
  toks : List Token

def Operand.tokens (o : Operand) : List Token :=
  (match o.mode with | some m => [(⟨.symbol, m⟩ : Token)] | none => []) ++ o.toks

/-- well-formed operand: the expression is a non-empty list of expression terms (number, symbol,
    text, parenthesis tokens); a given mode is one of the eight mode symbols; with the mode omitted
    the first expression token is not a mode symbol, and (`strict`, the A operand) not `*` -/
def Operand.OK (strict : Bool) (o : Operand) : Prop :=
  (∀ t ∈ o.toks, t.isExpressionTerm = true) ∧
  ∃ t ts, o.toks = t :: ts ∧
    match o.mode with
    | some m => m ∈ modeStrs
    | none => t.isAddressMode = false ∧ (strict = true → t.val ≠ "*")

theorem isAddressMode_mode {m : String} (hm : m ∈ modeStrs) :
    (⟨.symbol, m⟩ : Token).isAddressMode = true := by
  simp [modeStrs] at hm
  rcases hm with rfl | rfl | rfl | rfl | rfl | rfl | rfl | rfl <;> rfl

theorem step_op_mode (c : Ctx) (op m : String) (hm : m ∈ modeStrs) (rest : List Token) :
    step .op (c.st ⟨.text, op⟩ (⟨.symbol, m⟩ :: rest)) =
      .ok (({ c with cur := { c.cur with op := op, typ := .instruction, codeLine := c.codeLine },
                     codeLine := c.codeLine + 1 } : Ctx).st ⟨.symbol, m⟩ rest, some .modeA) := by
  have := isAddressMode_mode hm
  simp [step, Ctx.st, advance, next, this]

theorem step_op_expr (c : Ctx) (op : String) (t : Token) (ht : t.isExpressionTerm = true)
    (hm : t.isAddressMode = false) (hs : t.val ≠ "*") (rest : List Token) :
    step .op (c.st ⟨.text, op⟩ (t :: rest)) =
      .ok (({ c with cur := { c.cur with op := op, typ := .instruction, codeLine := c.codeLine },
                     codeLine := c.codeLine + 1 } : Ctx).st t rest, some .exprA) := by
  simp [step, Ctx.st, advance, next, ht, hm, hs]

theorem step_modeA (c : Ctx) (m : String) (t : Token) (ht : t.isExpressionTerm = true)
    (rest : List Token) :
    step .modeA (c.st ⟨.symbol, m⟩ (t :: rest)) =
      .ok (({ c with cur := { c.cur with amode := m } } : Ctx).st t rest, some .exprA) := by
  simp [step, Ctx.st, advance, next, ht]

theorem step_modeB (c : Ctx) (m : String) (t : Token) (ht : t.isExpressionTerm = true)
    (rest : List Token) :
    step .modeB (c.st ⟨.symbol, m⟩ (t :: rest)) =
      .ok (({ c with cur := { c.cur with bmode := m } } : Ctx).st t rest, some .exprB) := by
  simp [step, Ctx.st, advance, next, ht]

theorem step_comma_mode (c : Ctx) (m : String) (hm : m ∈ modeStrs) (rest : List Token) :
    step .comma (c.st commaTok (⟨.symbol, m⟩ :: rest)) =
      .ok (c.st ⟨.symbol, m⟩ rest, some .modeB) := by
  have := isAddressMode_mode hm
  simp [step, Ctx.st, advance, next, this, commaTok]

theorem step_comma_expr (c : Ctx) (t : Token) (ht : t.isExpressionTerm = true)
    (hm : t.isAddressMode = false) (rest : List Token) :
    step .comma (c.st commaTok (t :: rest)) = .ok (c.st t rest, some .exprB) := by
  simp [step, Ctx.st, advance, next, ht, hm, commaTok]

theorem reach_opA (c : Ctx) (op : String) (o : Operand) (ho : o.OK true) (tail : List Token) :
    ∃ t ts, o.toks = t :: ts ∧
      ReachLe 2 .op (c.st ⟨.text, op⟩ (o.tokens ++ tail)) .exprA
        (({ c with cur := { c.cur with op := op, typ := .instruction, codeLine := c.codeLine,
                                       amode := o.mode.getD c.cur.amode },
                   codeLine := c.codeLine + 1 } : Ctx).st t (ts ++ tail)) := by
  obtain ⟨hts, t, ts, htoks, hmode⟩ := ho
  refine ⟨t, ts, htoks, ?_⟩
  have ht : t.isExpressionTerm = true := hts t (by simp [htoks])
  rcases o with ⟨mode, toks⟩
  simp only at htoks hmode; subst htoks
  cases mode with
  | none =>
    simp only [Operand.tokens, List.nil_append, List.cons_append, Option.getD_none]
    simp only at hmode
    exact (ReachLe.one (step_op_expr c op t ht hmode.1 (hmode.2 trivial) _)).mono (by omega)
  | some m =>
    simp only [Operand.tokens, List.cons_append, List.nil_append, Option.getD_some]
    simp only at hmode
    exact (ReachLe.one (step_op_mode c op m hmode _)).trans (ReachLe.one (step_modeA _ m t ht _))

theorem reach_commaB (c : Ctx) (o : Operand) (ho : o.OK false) (tail : List Token) :
    ∃ t ts, o.toks = t :: ts ∧
      ReachLe 2 .comma (c.st commaTok (o.tokens ++ tail)) .exprB
        (({ c with cur := { c.cur with bmode := o.mode.getD c.cur.bmode } } : Ctx).st t (ts ++ tail)) := by
  obtain ⟨hts, t, ts, htoks, hmode⟩ := ho
  refine ⟨t, ts, htoks, ?_⟩
  have ht : t.isExpressionTerm = true := hts t (by simp [htoks])
  rcases o with ⟨mode, toks⟩
  simp only at htoks hmode; subst htoks
  cases mode with
  | none =>
    simp only [Operand.tokens, List.nil_append, List.cons_append, Option.getD_none]
    simp only at hmode
    exact (ReachLe.one (step_comma_expr c t ht hmode.1 _)).mono (by omega)
  | some m =>
    simp only [Operand.tokens, List.cons_append, List.nil_append, Option.getD_some]
    simp only at hmode
    exact (ReachLe.one (step_comma_mode c m hmode _)).trans (ReachLe.one (step_modeB _ m t ht _))

/-- `parseExprA` up to a comma -/
theorem step_exprA_comma (c : Ctx) (toks : List Token) (hts : ∀ t ∈ toks, t.isExpressionTerm = true)
    (rest' : List Token) (t0 : Token) (rest0 : List Token) (h : t0 :: rest0 = toks ++ commaTok :: rest') :
    step .exprA (c.st t0 rest0) =
      .ok (({ c with references := addRefs toks c.references,
                     cur := { c.cur with a := some (c.cur.a.getD [] ++ toks) } } : Ctx).st commaTok rest',
           some .comma) := by
  simp only [step]
  rw [collectExpr_ok "parseExprA" toks hts commaTok rfl rest' c t0 rest0 h]
  simp [bind, Except.bind, pure, Except.pure, Ctx.st, commaTok]

/-- `parseExprA` up to a newline: the line is emitted, the newline stays in the look-ahead -/
theorem step_exprA_newline (c : Ctx) (toks : List Token) (hts : ∀ t ∈ toks, t.isExpressionTerm = true)
    (rest' : List Token) (t0 : Token) (rest0 : List Token) (h : t0 :: rest0 = toks ++ nlTok :: rest') :
    step .exprA (c.st t0 rest0) =
      .ok (({ c with references := addRefs toks c.references,
                     cur := { c.cur with a := some (c.cur.a.getD [] ++ toks) },
                     lines := c.lines ++ [{ c.cur with a := some (c.cur.a.getD [] ++ toks) }] } : Ctx).st
             nlTok rest',
           some .line) := by
  simp only [step]
  rw [collectExpr_ok "parseExprA" toks hts nlTok rfl rest' c t0 rest0 h]
  simp [bind, Except.bind, pure, Except.pure, Ctx.st, nlTok, emit]

/-- `parseExprB` up to a newline: the newline is counted and consumed, the line emitted -/
theorem step_exprB_newline (c : Ctx) (toks : List Token) (hts : ∀ t ∈ toks, t.isExpressionTerm = true)
    (t'' : Token) (rest'' : List Token) (t0 : Token) (rest0 : List Token)
    (h : t0 :: rest0 = toks ++ nlTok :: t'' :: rest'') :
    step .exprB (c.st t0 rest0) =
      .ok (({ c with references := addRefs toks c.references,
                     cur := { c.cur with b := some (c.cur.b.getD [] ++ toks),
                                         newlines := c.cur.newlines + 1 },
                     lines := c.lines ++ [{ c.cur with b := some (c.cur.b.getD [] ++ toks),
                                                           newlines := c.cur.newlines + 1 }],
                     line := c.line + 1 } : Ctx).st t'' rest'',
           some .line) := by
  simp only [step]
  rw [collectExpr_ok "parseExprB" toks hts nlTok rfl _ c t0 rest0 h]
  simp [bind, Except.bind, pure, Except.pure, Ctx.st, nlTok, emit, incNewlines, advance, next]

/-! ### labels -/

/-- labels, each optionally followed by a colon -/
def labelTokens : List (String × Bool) → List Token
  | [] => []
  | (l, colon) :: r => (⟨.text, l⟩ : Token) :: ((if colon then [colonTok] else []) ++ labelTokens r)

/-- a text token with this value is an opcode (`parseOp`), not a label and not a pseudo-op -/
def IsOpName (op : String) : Prop :=
  (⟨.text, op⟩ : Token).isOp = true ∧ (⟨.text, op⟩ : Token).isPseudoOp = false

/-- a text token with this value is taken for a label -/
def IsLabelName (l : String) : Prop := (⟨.text, l⟩ : Token).isOp = false

instance (op : String) : Decidable (IsOpName op) := by unfold IsOpName; infer_instance
instance (l : String) : Decidable (IsLabelName l) := by unfold IsLabelName; infer_instance

theorem step_labels_label (c : Ctx) (l : String) (hl : IsLabelName l)
    (hs : c.symbols.contains l = false) (t' : Token) (rest' : List Token) :
    step .labels (c.st ⟨.text, l⟩ (t' :: rest')) =
      .ok (({ c with symbols := l :: c.symbols,
                     cur := { c.cur with labels := c.cur.labels ++ [l] } } : Ctx).st t' rest',
           some .labels) := by
  have hl' : (⟨.text, l⟩ : Token).isOp = false := hl
  have hs' : l ∉ c.symbols := by simpa using hs
  simp [step, Ctx.st, next, hl', hs']

theorem step_labels_colon (c : Ctx) (rest : List Token) :
    step .labels (c.st colonTok rest) = .ok (c.st colonTok rest, some .colon) := by
  simp [step, Ctx.st, colonTok, Token.isOp]

theorem step_labels_op (c : Ctx) (op : String) (hop : IsOpName op) (rest : List Token) :
    step .labels (c.st ⟨.text, op⟩ rest) = .ok (c.st ⟨.text, op⟩ rest, some .op) := by
  simp [step, Ctx.st, hop.1, hop.2, opState]

theorem step_colon_op (c : Ctx) (op : String) (hop : IsOpName op) (rest : List Token) :
    step .colon (c.st colonTok (⟨.text, op⟩ :: rest)) = .ok (c.st ⟨.text, op⟩ rest, some .op) := by
  simp [step, Ctx.st, skipLoop, colonTok, frozen, advance, next, bind, Except.bind, pure, Except.pure,
    hop.1, hop.2, opState]

theorem step_colon_label (c : Ctx) (l : String) (hl : IsLabelName l) (rest : List Token) :
    step .colon (c.st colonTok (⟨.text, l⟩ :: rest)) = .ok (c.st ⟨.text, l⟩ rest, some .labels) := by
  have hl' : (⟨.text, l⟩ : Token).isOp = false := hl
  simp [step, Ctx.st, skipLoop, colonTok, frozen, advance, next, bind, Except.bind, pure, Except.pure,
    hl']

/-- the labels are new: not yet in the symbol table and pairwise distinct -/
def FreshLabels : List String → List String → Prop
  | [], _ => True
  | l :: ls, syms => syms.contains l = false ∧ FreshLabels ls (l :: syms)

theorem reach_labels (op : String) (hop : IsOpName op) (rest' : List Token) :
    ∀ (ls : List (String × Bool)) (c : Ctx) (t0 : Token) (rest0 : List Token),
      (∀ l ∈ ls, IsLabelName l.1) → FreshLabels (ls.map (·.1)) c.symbols →
      t0 :: rest0 = labelTokens ls ++ ⟨.text, op⟩ :: rest' →
      ReachLe (3 * ls.length + 1) .labels (c.st t0 rest0) .op
        (({ c with symbols := (ls.map (·.1)).reverse ++ c.symbols,
                   cur := { c.cur with labels := c.cur.labels ++ ls.map (·.1) } } : Ctx).st
          ⟨.text, op⟩ rest') := by
  intro ls
  induction ls with
  | nil =>
    intro c t0 rest0 _ _ h
    simp [labelTokens] at h; obtain ⟨rfl, rfl⟩ := h
    simpa using ReachLe.one (step_labels_op c op hop _)
  | cons lc ls ih =>
    intro c t0 rest0 hl hf h
    obtain ⟨l, colon⟩ := lc
    have hl0 : IsLabelName l := hl (l, colon) (by simp)
    have hls : ∀ x ∈ ls, IsLabelName x.1 := fun x hx => hl x (by simp [hx])
    simp only [List.map_cons, FreshLabels] at hf
    obtain ⟨hs, hf⟩ := hf
    cases colon with
    | false =>
      simp [labelTokens] at h; obtain ⟨rfl, rfl⟩ := h
      obtain ⟨t1, rest1, h1⟩ : ∃ t1 rest1, labelTokens ls ++ ⟨.text, op⟩ :: rest' = t1 :: rest1 := by
        cases hlt : labelTokens ls <;> simp
      rw [h1]
      have := (ReachLe.one (step_labels_label c l hl0 hs t1 rest1)).trans
        (ih _ t1 rest1 hls hf h1.symm)
      refine ReachLe.mono (by simpa using this) (by simp; omega)
    | true =>
      simp [labelTokens] at h; obtain ⟨rfl, rfl⟩ := h
      have h12 := (ReachLe.one (step_labels_label c l hl0 hs colonTok
        (labelTokens ls ++ ⟨.text, op⟩ :: rest'))).trans (ReachLe.one (step_labels_colon _ _))
      cases ls with
      | nil =>
        have := h12.trans (ReachLe.one (step_colon_op _ op hop _))
        refine ReachLe.mono (by simpa [labelTokens] using this) (by simp)
      | cons lc' ls' =>
        obtain ⟨l', colon'⟩ := lc'
        have hl1 : IsLabelName l' := hls (l', colon') (by simp)
        have := (h12.trans (ReachLe.one (step_colon_label _ l' hl1 _))).trans
          (ih _ ⟨.text, l'⟩ _ hls hf (by simp [labelTokens]))
        refine ReachLe.mono (by simpa [labelTokens] using this) (by simp; omega)

/-! ### `parseLine`, `parseEmptyLines`, `parseComment` -/

theorem step_line_text (c : Ctx) (v : String) (rest : List Token) :
    step .line (c.st ⟨.text, v⟩ rest) =
      .ok (({ c with cur := { line := c.line } } : Ctx).st ⟨.text, v⟩ rest, some .labels) := by
  simp [step, Ctx.st]

theorem step_line_newline (c : Ctx) (rest : List Token) :
    step .line (c.st nlTok rest) =
      .ok (({ c with cur := { line := c.line, typ := .empty } } : Ctx).st nlTok rest, some .emptyLines) := by
  simp [step, Ctx.st, nlTok]

theorem step_line_comment (c : Ctx) (v : String) (rest : List Token) :
    step .line (c.st ⟨.comment, v⟩ rest) =
      .ok (({ c with cur := { line := c.line, typ := .comment },
                     metadata := captureMeta c.metadata v } : Ctx).st ⟨.comment, v⟩ rest,
           some .comment) := by
  simp [step, Ctx.st]

theorem step_line_eof (c : Ctx) (rest : List Token) :
    step .line (c.st eofTok rest) =
      .ok (({ c with cur := { line := c.line } } : Ctx).st eofTok rest, none) := by
  simp [step, Ctx.st, eofTok]

theorem step_emptyLines (c : Ctx) (k : Nat) (t' : Token) (ht' : (t'.typ == TokType.newline) = false)
    (rest' : List Token) (t0 : Token) (rest0 : List Token)
    (h : t0 :: rest0 = List.replicate k nlTok ++ t' :: rest') :
    step .emptyLines (c.st t0 rest0) =
      .ok (({ c with line := c.line + k,
                     cur := { c.cur with newlines := c.cur.newlines + k },
                     lines := c.lines ++ [{ c.cur with newlines := c.cur.newlines + k }] } : Ctx).st
             t' rest', some .line) := by
  have hl : k + 1 ≤ (c.st t0 rest0).rest.length + 1 := by
    have := congrArg List.length h
    simp [Ctx.st] at this ⊢; omega
  simp only [step]
  rw [skipLoop_newlines k t' ht' rest' c t0 rest0 _ h hl]
  simp [bind, Except.bind, pure, Except.pure, Ctx.st, emit]

/-- a comment token with its newline, something following -/
theorem step_comment (c : Ctx) (v : String) (t'' : Token) (rest'' : List Token) :
    step .comment (c.st ⟨.comment, v⟩ (nlTok :: t'' :: rest'')) =
      .ok (({ c with line := c.line + 1,
                     cur := { c.cur with comment := v, newlines := c.cur.newlines + 1 },
                     lines := c.lines ++ [{ c.cur with comment := v, newlines := c.cur.newlines + 1 }] } :
              Ctx).st t'' rest'', some .line) := by
  simp [step, Ctx.st, consumeEmitLine, advance, next, nlTok, emit, incNewlines]

def emptyLine (ln : Int) (k : Nat) : SourceLine := { line := ln, typ := .empty, newlines := k }

/-- the entry a run of `k` newline tokens at the start of a line makes -/
def blankLines (ln : Int) (k : Nat) : List SourceLine := if k = 0 then [] else [emptyLine ln k]

/-- a run of `k ≥ 0` blank lines -/
theorem reach_blanks (c : Ctx) (k : Nat) (t' : Token) (ht' : (t'.typ == TokType.newline) = false)
    (rest' : List Token) (t0 : Token) (rest0 : List Token)
    (h : t0 :: rest0 = List.replicate k nlTok ++ t' :: rest') :
    ∃ cur', ReachLe (2 * k) .line (c.st t0 rest0) .line
      (({ c with line := c.line + k, cur := cur', lines := c.lines ++ blankLines c.line k } : Ctx).st
        t' rest') := by
  cases k with
  | zero =>
    simp at h; obtain ⟨rfl, rfl⟩ := h
    exact ⟨c.cur, by simpa [blankLines] using ReachLe.refl .line (c.st t0 rest0)⟩
  | succ k =>
    have h0 : t0 = nlTok := by simp [List.replicate_succ] at h; exact h.1
    subst h0
    refine ⟨emptyLine c.line (k + 1), ((ReachLe.one (step_line_newline c rest0)).trans
      (ReachLe.one (step_emptyLines _ (k + 1) t' ht' rest' nlTok rest0 h))).mono' ?_ (by omega)⟩
    simp [blankLines, emptyLine]

/-! ### one instruction statement -/

/-- an instruction statement: labels (each optionally followed by a colon), the opcode, the A
    operand, optionally a comma and the B operand, the newline, and `blanks` further newlines -/
structure Stmt where
  labels : List (String × Bool) := []
  op : String
  a : Operand
  b : Option Operand := none
  blanks : Nat := 0

def Stmt.bTokens (s : Stmt) : List Token :=
  match s.b with
  | some b => commaTok :: b.tokens
  | none => []

/-- the canonical token rendering -/
def Stmt.tokens (s : Stmt) : List Token :=
  labelTokens s.labels ++
    ((⟨.text, s.op⟩ : Token) :: (s.a.tokens ++ (s.bTokens ++ nlTok :: List.replicate s.blanks nlTok)))

def Stmt.labelNames (s : Stmt) : List String := s.labels.map (·.1)

def Stmt.OK (s : Stmt) : Prop :=
  (∀ l ∈ s.labels, IsLabelName l.1) ∧ IsOpName s.op ∧ s.a.OK true ∧ ∀ b, s.b = some b → b.OK false

/-- `p.references` after the statement -/
def Stmt.refs (s : Stmt) (refs : List String) : List String :=
  match s.b with
  | some b => addRefs b.toks (addRefs s.a.toks refs)
  | none => addRefs s.a.toks refs

/-- the source line of the instruction, at line `ln` with code line number `cl` -/
def Stmt.instrLine (s : Stmt) (ln cl : Int) : SourceLine :=
  { line := ln, codeLine := cl, typ := .instruction, labels := s.labelNames, op := s.op,
    amode := s.a.mode.getD "", a := some s.a.toks,
    bmode := match s.b with | some b => b.mode.getD "" | none => "",
    b := s.b.map (·.toks),
    newlines := if s.b.isSome then 1 else 0 }

/-- what the parser emits for the statement: with a B operand the instruction line (its newline
    counted) and an empty-line entry for the blank lines, if any; without B operand `parseExprA`
    leaves the newline unconsumed and uncounted, and it starts an empty-line entry WITH THE SAME
    LINE NUMBER that also counts the blank lines -/
def Stmt.lines (s : Stmt) (ln cl : Int) : List SourceLine :=
  match s.b with
  | some _ => s.instrLine ln cl :: blankLines (ln + 1) s.blanks
  | none => [s.instrLine ln cl, emptyLine ln (s.blanks + 1)]

theorem labelTokens_length (ls : List (String × Bool)) : ls.length ≤ (labelTokens ls).length := by
  induction ls with
  | nil => simp
  | cons lc ls ih => obtain ⟨l, c⟩ := lc; simp [labelTokens]; omega

theorem reach_stmt (s : Stmt) (hs : s.OK) (c : Ctx) (hf : FreshLabels s.labelNames c.symbols)
    (t' : Token) (ht' : (t'.typ == TokType.newline) = false) (rest' : List Token)
    (t0 : Token) (rest0 : List Token) (h : t0 :: rest0 = s.tokens ++ t' :: rest') :
    ∃ cur', ReachLe (8 * s.tokens.length) .line (c.st t0 rest0) .line
      (({ line := c.line + 1 + s.blanks, codeLine := c.codeLine + 1, cur := cur',
          metadata := c.metadata, lines := c.lines ++ s.lines c.line c.codeLine,
          symbols := s.labelNames.reverse ++ c.symbols,
          references := s.refs c.references } : Ctx).st t' rest') := by
  obtain ⟨hlab, hop, ha, hb⟩ := hs
  rcases s with ⟨ls, op, a, b, blanks⟩
  simp only [Stmt.labelNames] at hf hlab hop ha hb ⊢
  simp only [Stmt.tokens, List.append_assoc, List.cons_append] at h
  obtain ⟨v, hv⟩ : ∃ v, t0 = ⟨.text, v⟩ := by
    cases ls with
    | nil => simp [labelTokens] at h; exact ⟨_, h.1⟩
    | cons lc ls => obtain ⟨l, cl⟩ := lc; simp [labelTokens] at h; exact ⟨_, h.1⟩
  subst hv
  have hLlen := labelTokens_length ls
  have h1 := ReachLe.one (step_line_text c v rest0)
  have h2 := reach_labels op hop _ ls ({ c with cur := { line := c.line } } : Ctx) _ rest0 hlab hf h
  obtain ⟨t, ts, htoks, h3⟩ := reach_opA
    ({ c with cur := { line := c.line, labels := [] ++ ls.map (·.1) },
              symbols := (ls.map (·.1)).reverse ++ c.symbols } : Ctx) op a ha
    (Stmt.bTokens ⟨ls, op, a, b, blanks⟩ ++ nlTok :: (List.replicate blanks nlTok ++ t' :: rest'))
  have h123 := (h1.trans h2).trans h3
  have hAlen : 1 ≤ a.tokens.length := by simp [Operand.tokens, htoks]; omega
  clear h1 h2 h3
  cases b with
  | none =>
    simp only [Stmt.bTokens, List.nil_append] at h123
    have h4 := h123.trans (ReachLe.one (step_exprA_newline _ a.toks ha.1
      (List.replicate blanks nlTok ++ t' :: rest') t
      (ts ++ nlTok :: (List.replicate blanks nlTok ++ t' :: rest')) (by simp [htoks])))
    have h5 := h4.trans (ReachLe.one (step_line_newline _ (List.replicate blanks nlTok ++ t' :: rest')))
    have h6 := h5.trans (ReachLe.one (step_emptyLines _ (blanks + 1) t' ht' rest' nlTok
      (List.replicate blanks nlTok ++ t' :: rest') (by simp [List.replicate_succ])))
    refine ⟨emptyLine c.line (blanks + 1), h6.mono' ?_ ?_⟩
    · simp [Stmt.lines, Stmt.instrLine, Stmt.refs, Stmt.labelNames, emptyLine]
      rw [show c.line + ((blanks : Int) + 1) = c.line + 1 + blanks by omega]
    · simp [Stmt.tokens, Stmt.bTokens]
      omega
  | some bo =>
    have hbo : bo.OK false := hb bo rfl
    simp only [Stmt.bTokens, List.cons_append] at h123
    have h4 := h123.trans (ReachLe.one (step_exprA_comma _ a.toks ha.1
      (bo.tokens ++ nlTok :: (List.replicate blanks nlTok ++ t' :: rest')) t
      (ts ++ commaTok :: (bo.tokens ++ nlTok :: (List.replicate blanks nlTok ++ t' :: rest')))
      (by simp [htoks])))
    obtain ⟨t'', rest'', h''⟩ : ∃ t'' rest'', t'' :: rest'' = List.replicate blanks nlTok ++ t' :: rest' := by
      cases blanks <;> simp [List.replicate_succ]
    rw [← h''] at h4
    have hBlen : ∀ (cc : Ctx), ∃ t2 ts2, bo.toks = t2 :: ts2 ∧
        ReachLe 2 .comma (cc.st commaTok (bo.tokens ++ nlTok :: t'' :: rest'')) .exprB
          (({ cc with cur := { cc.cur with bmode := bo.mode.getD cc.cur.bmode } } : Ctx).st t2
            (ts2 ++ nlTok :: t'' :: rest'')) := fun cc => reach_commaB cc bo hbo _
    obtain ⟨t2, ts2, htoks2, h5⟩ := hBlen _
    have h5 := h4.trans h5
    have hBlen : 1 ≤ bo.tokens.length := by simp [Operand.tokens, htoks2]; omega
    have h6 := h5.trans (ReachLe.one (step_exprB_newline _ bo.toks hbo.1 t'' rest'' t2
      (ts2 ++ nlTok :: t'' :: rest'') (by simp [htoks2])))
    obtain ⟨cur', h7⟩ := reach_blanks _ blanks t' ht' rest' t'' rest'' h''
    refine ⟨cur', (h6.trans h7).mono' ?_ ?_⟩
    · simp [Stmt.lines, Stmt.instrLine, Stmt.refs, Stmt.labelNames]
    · simp [Stmt.tokens, Stmt.bTokens]; omega

/-! ### comment lines, items -/

def commentLine (ln : Int) (v : String) : SourceLine :=
  { line := ln, typ := .comment, comment := v, newlines := 1 }

/-- a comment token, its newline and `k` further newlines, at the start of a line -/
theorem reach_comment (v : String) (k : Nat) (c : Ctx)
    (t' : Token) (ht' : (t'.typ == TokType.newline) = false) (rest' : List Token)
    (t0 : Token) (rest0 : List Token)
    (h : t0 :: rest0 = (⟨.comment, v⟩ : Token) :: nlTok :: List.replicate k nlTok ++ t' :: rest') :
    ∃ cur', ReachLe (8 * (k + 2)) .line (c.st t0 rest0) .line
      (({ line := c.line + 1 + k, codeLine := c.codeLine, cur := cur',
          metadata := captureMeta c.metadata v,
          lines := c.lines ++ commentLine c.line v :: blankLines (c.line + 1) k,
          symbols := c.symbols, references := c.references } : Ctx).st t' rest') := by
  simp only [List.cons_append, List.cons.injEq] at h
  obtain ⟨rfl, rfl⟩ := h
  obtain ⟨t'', rest'', h''⟩ : ∃ t'' rest'', t'' :: rest'' = List.replicate k nlTok ++ t' :: rest' := by
    cases k <;> simp [List.replicate_succ]
  rw [← h'']
  have h1 := (ReachLe.one (step_line_comment c v (nlTok :: t'' :: rest''))).trans
    (ReachLe.one (step_comment _ v t'' rest''))
  obtain ⟨cur', h2⟩ := reach_blanks _ k t' ht' rest' t'' rest'' h''
  refine ⟨cur', (h1.trans h2).mono' ?_ (by omega)⟩
  simp [commentLine]

/-- what stands between two line starts: an instruction statement or a comment line, each with
    the blank lines that follow it -/
inductive Item
  | stmt (s : Stmt)
  | comment (text : String) (blanks : Nat)

def Item.tokens : Item → List Token
  | .stmt s => s.tokens
  | .comment v k => (⟨.comment, v⟩ : Token) :: nlTok :: List.replicate k nlTok

def Item.OK : Item → Prop
  | .stmt s => s.OK
  | .comment _ _ => True

def Item.lines : Item → Int → Int → List SourceLine
  | .stmt s, ln, cl => s.lines ln cl
  | .comment v k, ln, _ => commentLine ln v :: blankLines (ln + 1) k

def Item.blanks : Item → Nat
  | .stmt s => s.blanks
  | .comment _ k => k

def Item.codeLines : Item → Int
  | .stmt _ => 1
  | .comment _ _ => 0

def Item.labelNames : Item → List String
  | .stmt s => s.labelNames
  | .comment _ _ => []

def Item.refs : Item → List String → List String
  | .stmt s, refs => s.refs refs
  | .comment _ _, refs => refs

def Item.metadata : Item → AsmMeta → AsmMeta
  | .stmt _, m => m
  | .comment v _, m => captureMeta m v

theorem reach_item (it : Item) (hok : it.OK) (c : Ctx) (hf : FreshLabels it.labelNames c.symbols)
    (t' : Token) (ht' : (t'.typ == TokType.newline) = false) (rest' : List Token)
    (t0 : Token) (rest0 : List Token) (h : t0 :: rest0 = it.tokens ++ t' :: rest') :
    ∃ cur', ReachLe (8 * it.tokens.length) .line (c.st t0 rest0) .line
      (({ line := c.line + 1 + it.blanks, codeLine := c.codeLine + it.codeLines, cur := cur',
          metadata := it.metadata c.metadata, lines := c.lines ++ it.lines c.line c.codeLine,
          symbols := it.labelNames.reverse ++ c.symbols,
          references := it.refs c.references } : Ctx).st t' rest') := by
  cases it with
  | stmt s => exact reach_stmt s hok c hf t' ht' rest' t0 rest0 h
  | comment v k =>
    obtain ⟨cur', h1⟩ := reach_comment v k c t' ht' rest' t0 rest0 h
    refine ⟨cur', h1.mono' ?_ (by simp [Item.tokens])⟩
    simp [Item.lines, Item.blanks, Item.codeLines, Item.metadata, Item.labelNames, Item.refs]

/-! ### sequences of items -/

def itemsTokens : List Item → List Token
  | [] => []
  | it :: r => it.tokens ++ itemsTokens r

def itemsLines : List Item → Int → Int → List SourceLine
  | [], _, _ => []
  | it :: r, ln, cl => it.lines ln cl ++ itemsLines r (ln + 1 + it.blanks) (cl + it.codeLines)

def itemsLabels : List Item → List String
  | [] => []
  | it :: r => it.labelNames ++ itemsLabels r

def itemsRefs : List Item → List String → List String
  | [], refs => refs
  | it :: r, refs => itemsRefs r (it.refs refs)

def itemsMeta : List Item → AsmMeta → AsmMeta
  | [], m => m
  | it :: r, m => itemsMeta r (it.metadata m)

def itemsEndLine : List Item → Int → Int
  | [], ln => ln
  | it :: r, ln => itemsEndLine r (ln + 1 + it.blanks)

def itemsEndCode : List Item → Int → Int
  | [], cl => cl
  | it :: r, cl => itemsEndCode r (cl + it.codeLines)

theorem FreshLabels_append (l₁ l₂ syms : List String) :
    FreshLabels (l₁ ++ l₂) syms ↔ FreshLabels l₁ syms ∧ FreshLabels l₂ (l₁.reverse ++ syms) := by
  induction l₁ generalizing syms with
  | nil => simp [FreshLabels]
  | cons x xs ih => simp [FreshLabels, ih, and_assoc]

theorem item_tokens_ne_nil (it : Item) : it.tokens ≠ [] := by
  cases it with
  | stmt s =>
    simp only [Item.tokens, Stmt.tokens]
    cases hl : labelTokens s.labels <;> simp
  | comment v k => simp [Item.tokens]

theorem reach_items (t' : Token) (ht' : (t'.typ == TokType.newline) = false) (rest' : List Token) :
    ∀ (items : List Item) (c : Ctx) (t0 : Token) (rest0 : List Token),
      (∀ it ∈ items, it.OK) → FreshLabels (itemsLabels items) c.symbols →
      t0 :: rest0 = itemsTokens items ++ t' :: rest' →
      ∃ cur', ReachLe (8 * (itemsTokens items).length) .line (c.st t0 rest0) .line
        (({ line := itemsEndLine items c.line, codeLine := itemsEndCode items c.codeLine, cur := cur',
            metadata := itemsMeta items c.metadata,
            lines := c.lines ++ itemsLines items c.line c.codeLine,
            symbols := (itemsLabels items).reverse ++ c.symbols,
            references := itemsRefs items c.references } : Ctx).st t' rest') := by
  intro items
  induction items with
  | nil =>
    intro c t0 rest0 _ _ h
    simp [itemsTokens] at h; obtain ⟨rfl, rfl⟩ := h
    exact ⟨c.cur, by
      simpa [itemsTokens, itemsEndLine, itemsEndCode, itemsMeta, itemsLines, itemsLabels, itemsRefs]
        using ReachLe.refl .line (c.st t0 rest0)⟩
  | cons it items ih =>
    intro c t0 rest0 hok hf h
    simp only [itemsLabels, FreshLabels_append] at hf
    simp only [itemsTokens, List.append_assoc] at h
    obtain ⟨t1, rest1, h1⟩ : ∃ t1 rest1, t1 :: rest1 = itemsTokens items ++ t' :: rest' := by
      cases itemsTokens items <;> simp
    have ht1 : (t1.typ == TokType.newline) = false := by
      cases items with
      | nil => simp [itemsTokens] at h1; rw [h1.1]; exact ht'
      | cons it' items' =>
        cases it' with
        | stmt s =>
          simp only [itemsTokens, Item.tokens, Stmt.tokens, List.append_assoc] at h1
          cases hl : s.labels with
          | nil => rw [hl] at h1; simp [labelTokens] at h1; rw [h1.1]; rfl
          | cons lc ls =>
            obtain ⟨l, cl⟩ := lc
            rw [hl] at h1; simp [labelTokens] at h1; rw [h1.1]; rfl
        | comment v k => simp [itemsTokens, Item.tokens] at h1; rw [h1.1]; rfl
    rw [← h1] at h
    obtain ⟨cur1, r1⟩ := reach_item it (hok it (by simp)) c hf.1 t1 ht1 rest1 t0 rest0 h
    obtain ⟨cur2, r2⟩ := ih
      ({ line := c.line + 1 + it.blanks, codeLine := c.codeLine + it.codeLines, cur := cur1,
         metadata := it.metadata c.metadata, lines := c.lines ++ it.lines c.line c.codeLine,
         symbols := it.labelNames.reverse ++ c.symbols,
         references := it.refs c.references } : Ctx)
      t1 rest1 (fun x hx => hok x (by simp [hx])) hf.2 h1
    refine ⟨cur2, (r1.trans r2).mono' ?_ (by simp [itemsTokens]; omega)⟩
    simp [itemsEndLine, itemsEndCode, itemsMeta, itemsLines, itemsLabels, itemsRefs]

/-! ### references -/

/-- the names (values of text tokens) an expression refers to -/
def tokNames (ts : List Token) : List String := (ts.filter (·.typ == .text)).map (·.val)

def Stmt.refNames (s : Stmt) : List String :=
  tokNames s.a.toks ++ (match s.b with | some b => tokNames b.toks | none => [])

def Item.refNames : Item → List String
  | .stmt s => s.refNames
  | .comment _ _ => []

def itemsRefNames : List Item → List String
  | [] => []
  | it :: r => it.refNames ++ itemsRefNames r

theorem mem_addRefs {x : String} : ∀ {ts : List Token} {refs : List String},
    x ∈ addRefs ts refs → x ∈ refs ∨ x ∈ tokNames ts := by
  intro ts
  induction ts with
  | nil => intro refs h; exact Or.inl h
  | cons t ts ih =>
    intro refs h
    simp only [addRefs] at h
    rcases ih h with h | h
    · split at h
      · rename_i hc
        rcases List.mem_cons.mp h with rfl | h
        · right
          simp only [Bool.and_eq_true] at hc
          simp [tokNames, hc.1]
        · exact Or.inl h
      · exact Or.inl h
    · right
      simp only [tokNames, List.filter_cons] at h ⊢
      split <;> simp_all

theorem mem_stmt_refs {x : String} (s : Stmt) {refs : List String} (h : x ∈ s.refs refs) :
    x ∈ refs ∨ x ∈ s.refNames := by
  rcases s with ⟨ls, op, a, b, k⟩
  cases b with
  | none =>
    simp only [Stmt.refs] at h
    rcases mem_addRefs h with h | h
    · exact Or.inl h
    · right; simp [Stmt.refNames, h]
  | some bo =>
    simp only [Stmt.refs] at h
    rcases mem_addRefs h with h | h
    · rcases mem_addRefs h with h | h
      · exact Or.inl h
      · right; simp [Stmt.refNames, h]
    · right; simp [Stmt.refNames, h]

theorem mem_itemsRefs {x : String} : ∀ {items : List Item} {refs : List String},
    x ∈ itemsRefs items refs → x ∈ refs ∨ x ∈ itemsRefNames items := by
  intro items
  induction items with
  | nil => intro refs h; exact Or.inl h
  | cons it items ih =>
    intro refs h
    simp only [itemsRefs] at h
    rcases ih h with h | h
    · cases it with
      | stmt s =>
        rcases mem_stmt_refs s h with h | h
        · exact Or.inl h
        · right; simp [itemsRefNames, Item.refNames, h]
      | comment v k => exact Or.inl h
    · right; simp [itemsRefNames, h]

theorem FreshLabels_iff (ls syms : List String) :
    FreshLabels ls syms ↔ ls.Nodup ∧ ∀ l ∈ ls, l ∉ syms := by
  induction ls generalizing syms with
  | nil => simp [FreshLabels]
  | cons x xs ih =>
    simp only [FreshLabels, ih, List.nodup_cons, List.mem_cons, List.contains_eq_mem,
      decide_eq_false_iff_not]
    constructor
    · rintro ⟨h1, h2, h3⟩
      refine ⟨⟨fun hx => (h3 x hx) (Or.inl rfl), h2⟩, ?_⟩
      rintro l (rfl | hl)
      · exact h1
      · exact fun hm => h3 l hl (Or.inr hm)
    · rintro ⟨⟨h1, h2⟩, h3⟩
      refine ⟨h3 x (Or.inl rfl), h2, ?_⟩
      rintro l hl (rfl | hm)
      · exact h1 hl
      · exact h3 l (Or.inr hl) hm

/-! ### programs -/

/-- the names `newParser` puts into the symbol table -/
def predefined : List String := ["CORESIZE", "MAXLENGTH", "MAXPROCESSES", "MINDISTANCE"]

/-- `lead` newline tokens, then the items -/
structure Prog where
  lead : Nat := 0
  items : List Item

/-- canonical token rendering of a program, closed by the EOF token -/
def Prog.tokens (p : Prog) : List Token :=
  List.replicate p.lead nlTok ++ (itemsTokens p.items ++ [eofTok])

def Prog.labels (p : Prog) : List String := itemsLabels p.items

/-- the source lines the program denotes -/
def Prog.lines (p : Prog) : List SourceLine :=
  blankLines 1 p.lead ++ itemsLines p.items (1 + p.lead) 0

def Prog.metadata (p : Prog) : AsmMeta := itemsMeta p.items {}

structure Prog.OK (p : Prog) : Prop where
  items : ∀ it ∈ p.items, it.OK
  /-- labels do not clash with each other -/
  nodup : p.labels.Nodup
  /-- nor with the predefined names -/
  notPredefined : ∀ l ∈ p.labels, l ∉ predefined
  /-- every name referred to is a label of the program or predefined -/
  defined : ∀ x ∈ itemsRefNames p.items, x ∈ p.labels ∨ x ∈ predefined

theorem newParser_cons (t0 : Token) (rest0 : List Token) :
    newParser (t0 :: rest0) = ({} : Ctx).st t0 rest0 := by
  simp [newParser, advance, next, Ctx.st]

/-- **stage 2**: the parser turns the canonical token rendering of a program into the source
    lines it denotes -/
theorem parse_prog (p : Prog) (hp : p.OK) :
    parse p.tokens = .ok (some (p.lines, p.metadata)) := by
  obtain ⟨lead, items⟩ := p
  obtain ⟨t1, rest1, h1⟩ : ∃ t1 rest1, t1 :: rest1 = itemsTokens items ++ eofTok :: [] := by
    cases itemsTokens items <;> simp
  obtain ⟨t0, rest0, h0⟩ : ∃ t0 rest0, t0 :: rest0 = List.replicate lead nlTok ++ t1 :: rest1 := by
    cases lead <;> simp [List.replicate_succ]
  have ht1 : (t1.typ == TokType.newline) = false := by
    cases items with
    | nil => simp [itemsTokens] at h1; rw [h1.1]; rfl
    | cons it' items' =>
      cases it' with
      | stmt s =>
        simp only [itemsTokens, Item.tokens, Stmt.tokens, List.append_assoc] at h1
        cases hl : s.labels with
        | nil => rw [hl] at h1; simp [labelTokens] at h1; rw [h1.1]; rfl
        | cons lc ls =>
          obtain ⟨l, cl⟩ := lc
          rw [hl] at h1; simp [labelTokens] at h1; rw [h1.1]; rfl
      | comment v k => simp [itemsTokens, Item.tokens] at h1; rw [h1.1]; rfl
  have htoks : Prog.tokens ⟨lead, items⟩ = t0 :: rest0 := by
    simp only [Prog.tokens]; rw [h0, h1]
  obtain ⟨cur1, r1⟩ := reach_blanks ({} : Ctx) lead t1 ht1 rest1 t0 rest0 h0
  have hfresh : FreshLabels (itemsLabels items) predefined :=
    (FreshLabels_iff _ _).mpr ⟨hp.nodup, hp.notPredefined⟩
  obtain ⟨cur2, r2⟩ := reach_items eofTok rfl [] items
    ({ line := (1 : Int) + lead, cur := cur1, lines := [] ++ blankLines 1 lead } : Ctx)
    t1 rest1 hp.items hfresh h1
  have hlen : (Prog.tokens ⟨lead, items⟩).length = lead + ((itemsTokens items).length + 1) := by
    simp [Prog.tokens]
  have hrun := (r1.trans r2).finish (step_line_eof _ _)
    (fuel := runFuel (Prog.tokens ⟨lead, items⟩)) (by simp only [runFuel, hlen]; omega)
  simp only [parse, htoks, newParser_cons]
  rw [← htoks, hrun]
  have hvalid : ∀ x ∈ itemsRefs items [], x ∈ (itemsLabels items).reverse ++ predefined := by
    intro x hx
    rcases mem_itemsRefs hx with h | h
    · simp at h
    · rcases hp.defined x h with h | h
      · simp [Prog.labels] at h; simp [h]
      · simp [h]
  simp [bind, Except.bind, pure, Except.pure, Ctx.st, symbolsValid, Prog.lines, Prog.metadata]
  intro x hx
  have := hvalid x hx
  simp only [predefined, List.mem_append, List.mem_reverse, List.mem_cons, List.not_mem_nil,
    or_false] at this
  intro h1 h2 h3 h4
  rcases this with h | h | h | h | h
  · exact absurd h h1
  · exact absurd h h2
  · exact absurd h h3
  · exact absurd h h4
  · exact h

/-! ### programs of instruction statements only -/

/-- the source lines of consecutive statements (no blank lines, no comments), the first of them
    being statement number `i` (from 0): statement `i` stands on line `i + 1`, has code line number
    `i`; with a B operand it is ONE entry with `newlines = 1`, without B operand it is the
    instruction entry with `newlines = 0` followed by an empty-line entry with the same line number
    and `newlines = 1` (the quirk of `parseExprA`) -/
def stmtsLines : List Stmt → Int → List SourceLine
  | [], _ => []
  | s :: r, i =>
    (match s.b with
     | some _ => [s.instrLine (i + 1) i]
     | none => [s.instrLine (i + 1) i, emptyLine (i + 1) 1]) ++ stmtsLines r (i + 1)

def stmtsTokens : List Stmt → List Token
  | [] => []
  | s :: r => s.tokens ++ stmtsTokens r

theorem itemsTokens_stmts (ss : List Stmt) : itemsTokens (ss.map .stmt) = stmtsTokens ss := by
  induction ss with
  | nil => rfl
  | cons s r ih => simp [itemsTokens, stmtsTokens, Item.tokens, ih]

theorem itemsLines_stmts (ss : List Stmt) (h0 : ∀ s ∈ ss, s.blanks = 0) (i : Int) :
    itemsLines (ss.map .stmt) (i + 1) i = stmtsLines ss i := by
  induction ss generalizing i with
  | nil => rfl
  | cons s r ih =>
    have hs : s.blanks = 0 := h0 s (by simp)
    have hr := ih (fun x hx => h0 x (by simp [hx])) (i + 1)
    simp only [List.map_cons, itemsLines, stmtsLines, Item.lines, Item.blanks, Item.codeLines, hs,
      Int.natCast_zero, Int.add_zero, hr]
    cases hb : s.b <;> simp [Stmt.lines, hb, hs, blankLines]

theorem itemsMeta_stmts (ss : List Stmt) (m : AsmMeta) : itemsMeta (ss.map .stmt) m = m := by
  induction ss with
  | nil => rfl
  | cons s r ih => simpa [itemsMeta, Item.metadata] using ih

/-- **`parse_instr_lines`** (stage 2, instruction statements only) -/
theorem parse_instr_lines (ss : List Stmt) (h0 : ∀ s ∈ ss, s.blanks = 0)
    (hok : Prog.OK ⟨0, ss.map .stmt⟩) :
    parse (stmtsTokens ss ++ [eofTok]) = .ok (some (stmtsLines ss 0, {})) := by
  have := parse_prog ⟨0, ss.map .stmt⟩ hok
  simp only [Prog.tokens, List.replicate_zero, List.nil_append, itemsTokens_stmts] at this
  rw [this]
  simp only [Prog.lines, Prog.metadata, blankLines, if_true, List.nil_append, itemsMeta_stmts,
    Int.natCast_zero, Int.add_zero]
  have h := itemsLines_stmts ss h0 0
  simp only [Int.zero_add] at h
  rw [h]

/-- when every statement has a B operand there is exactly one source line per statement -/
theorem stmtsLines_allB (ss : List Stmt) (hb : ∀ s ∈ ss, s.b.isSome = true) (k : Int) :
    stmtsLines ss k = ss.mapIdx (fun i s => s.instrLine (k + i + 1) (k + i)) := by
  induction ss generalizing k with
  | nil => rfl
  | cons s r ih =>
    have hs : s.b.isSome = true := hb s (by simp)
    obtain ⟨bo, hbo⟩ := Option.isSome_iff_exists.mp hs
    rw [List.mapIdx_cons, stmtsLines, ih (fun x hx => hb x (by simp [hx])) (k + 1), hbo]
    simp only [Int.natCast_zero, Int.add_zero, List.cons_append, List.nil_append, List.cons.injEq,
      true_and]
    congr 1
    funext i s
    congr 1 <;> (simp only [Int.natCast_add, Int.natCast_one]; omega)

/-! ### blank lines and comments only move line numbers -/

def isInstr (l : SourceLine) : Bool := l.typ == .instruction

/-- forget the line number -/
def eraseLine (l : SourceLine) : SourceLine := { l with line := 0 }

/-- the statement of an item, without its blank lines -/
def Item.stmt? : Item → Option Stmt
  | .stmt s => some { s with blanks := 0 }
  | .comment _ _ => none

/-- the statements of a program, blank lines and comments dropped -/
def Prog.stmts (p : Prog) : List Stmt := p.items.filterMap Item.stmt?

theorem filter_blankLines (ln : Int) (k : Nat) : (blankLines ln k).filter isInstr = [] := by
  unfold blankLines; split <;> simp [isInstr, emptyLine]

theorem filter_stmt_lines (s : Stmt) (ln cl : Int) :
    (s.lines ln cl).filter isInstr = [s.instrLine ln cl] := by
  have h1 : isInstr (s.instrLine ln cl) = true := by simp [isInstr, Stmt.instrLine]
  have h2 : (s.instrLine ln cl).typ = .instruction := rfl
  cases hb : s.b with
  | none => simp [Stmt.lines, hb, h2, isInstr, emptyLine]
  | some bo => simp [Stmt.lines, hb, h1, filter_blankLines]

theorem filter_itemsLines (items : List Item) (ln cl : Int) :
    ((itemsLines items ln cl).filter isInstr).map eraseLine =
      (items.filterMap Item.stmt?).mapIdx (fun i s => s.instrLine 0 (cl + i)) := by
  induction items generalizing ln cl with
  | nil => rfl
  | cons it items ih =>
    cases it with
    | stmt s =>
      simp only [itemsLines, Item.lines, List.filter_append, filter_stmt_lines,
        List.filterMap_cons, Item.stmt?, List.mapIdx_cons, ih, Item.codeLines, List.map_cons,
        List.cons_append, List.nil_append]
      congr 1
      · simp [eraseLine, Stmt.instrLine, Stmt.labelNames]
      · congr 1; funext i s; congr 1; simp only [Int.natCast_add, Int.natCast_one]; omega
    | comment v k =>
      simp only [itemsLines, Item.lines, List.filter_append, List.filter_cons, filter_blankLines,
        List.map_append, List.filterMap_cons, Item.stmt?, ih, Item.codeLines, Int.add_zero]
      simp [isInstr, commentLine]

/-- **blank lines and comments change only `line` numbers**: the instruction entries of the
    parsed program are, line numbers apart, those of its statements alone, the `i`-th of them
    with code line number `i` -/
theorem instr_lines_of_prog (p : Prog) :
    (p.lines.filter isInstr).map eraseLine = p.stmts.mapIdx (fun i s => s.instrLine 0 i) := by
  simp only [Prog.lines, List.filter_append, filter_blankLines, List.nil_append, filter_itemsLines,
    Prog.stmts]
  congr 1; funext i s; simp

theorem filterMap_stmts (ss : List Stmt) (h0 : ∀ s ∈ ss, s.blanks = 0) :
    (ss.map Item.stmt).filterMap Item.stmt? = ss := by
  induction ss with
  | nil => rfl
  | cons s r ih =>
    have hs : s.blanks = 0 := h0 s (by simp)
    have : ({ s with blanks := 0 } : Stmt) = s := by cases s; simp_all
    simp only [List.map_cons, List.filterMap_cons, Item.stmt?, this]
    rw [ih (fun x hx => h0 x (by simp [hx]))]

/-- the same, against the parse of the statements alone -/
theorem instr_lines_strip (p : Prog) :
    (p.lines.filter isInstr).map eraseLine =
      ((stmtsLines p.stmts 0).filter isInstr).map eraseLine := by
  rw [instr_lines_of_prog p]
  have h0 : ∀ s ∈ p.stmts, s.blanks = 0 := by
    intro s hs
    simp only [Prog.stmts, List.mem_filterMap] at hs
    obtain ⟨it, _, hit⟩ := hs
    cases it <;> simp [Item.stmt?] at hit
    rw [← hit]
  have := instr_lines_of_prog ⟨0, p.stmts.map .stmt⟩
  simp only [Prog.lines, blankLines, if_true, List.nil_append, Int.natCast_zero, Int.add_zero] at this
  have h := itemsLines_stmts p.stmts h0 0
  simp only [Int.zero_add] at h
  rw [h] at this
  rw [this]
  congr 1
  exact (filterMap_stmts p.stmts h0).symm

/-- the other entries carry no instruction -/
theorem other_lines_of_prog (p : Prog) :
    ∀ l ∈ p.lines, isInstr l = false →
      (l.typ = .empty ∨ l.typ = .comment) ∧ l.labels = [] ∧ l.op = "" ∧ l.a = none ∧ l.b = none ∧
        l.codeLine = 0 := by
  have hb : ∀ ln k, ∀ l ∈ blankLines ln k,
      (l.typ = .empty ∨ l.typ = .comment) ∧ l.labels = [] ∧ l.op = "" ∧ l.a = none ∧ l.b = none ∧
        l.codeLine = 0 := by
    intro ln k l hl
    unfold blankLines at hl
    split at hl
    · simp at hl
    · simp at hl; subst hl; simp [emptyLine]
  have hi : ∀ items ln cl, ∀ l ∈ itemsLines items ln cl, isInstr l = false →
      (l.typ = .empty ∨ l.typ = .comment) ∧ l.labels = [] ∧ l.op = "" ∧ l.a = none ∧ l.b = none ∧
        l.codeLine = 0 := by
    intro items
    induction items with
    | nil => intro ln cl l hl; simp [itemsLines] at hl
    | cons it items ih =>
      intro ln cl l hl hn
      simp only [itemsLines, List.mem_append] at hl
      rcases hl with hl | hl
      · cases it with
        | stmt s =>
          simp only [Item.lines, Stmt.lines] at hl
          cases hsb : s.b with
          | none =>
            rw [hsb] at hl; simp at hl
            rcases hl with rfl | rfl
            · simp [isInstr, Stmt.instrLine] at hn
            · simp [emptyLine]
          | some bo =>
            rw [hsb] at hl; simp at hl
            rcases hl with rfl | hl
            · simp [isInstr, Stmt.instrLine] at hn
            · exact hb _ _ l hl
        | comment v k =>
          simp only [Item.lines, List.mem_cons] at hl
          rcases hl with rfl | hl
          · simp [commentLine]
          · exact hb _ _ l hl
      · exact ih _ _ l hl hn
  intro l hl hn
  simp only [Prog.lines, List.mem_append] at hl
  rcases hl with hl | hl
  · exact hb _ _ l hl
  · exact hi _ _ _ l hl hn

end Gmars.Render
