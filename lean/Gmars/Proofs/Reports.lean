/-
  C15 "reports tell listeners about every change, at valid addresses", for one
  executed task:

  1. `changes_reported`      every cell whose content changes is named in a write,
                             increment or decrement report of the task;
  2. `named_subset_mayTouch` nothing is reported as written / incremented / decremented
                             that the reference semantics could not touch;
  3. `terminate_iff`         a `taskTerminate` report is emitted iff the reference step
                             has no successor (and it is `rep .taskTerminate wi pc`);
     `terminate_iff_unchanged`, `terminate_unchanged`: the model-level version.
-/
import Gmars.Proofs.ReportsEff
import Gmars.Proofs.SpecLocal
import Gmars.Proofs.WFExec

namespace Gmars

/-- the reports one task appended to the log -/
def execNew (s s' : Sim) : List Report := s'.log.toList.drop s.log.size

/-- the addresses named by the write, increment and decrement reports of the task -/
def execNamed (s s' : Sim) : List Nat :=
  ((execNew s s').filter (fun r => r.typ = .write ∨ r.typ = .increment ∨ r.typ = .decrement)).map
    (·.addr.toNat)

theorem execNamed_eq (s s' : Sim) : execNamed s s' = namedOf (execNew s s') := rfl

theorem execNew_of_log {s s' : Sim} {L : List Report} (h : s'.log.toList = s.log.toList ++ L) :
    execNew s s' = L := by
  unfold execNew
  rw [h, ← Array.length_toList, List.drop_left]

/-! ## 1. every change is reported -/

/-- every cell whose content changes during a task is named in a write, increment or
    decrement report of that task; no hypothesis on the state at all -/
theorem changes_reported' (s s' : Sim) (pc : UInt64) (wi : Nat) (hex : s.exec pc wi = .ok s') :
    ∀ a (h1 : a < s.mem.size) (h2 : a < s'.mem.size), s'.mem[a] ≠ s.mem[a] → a ∈ execNamed s s' := by
  obtain ⟨L, p, he, _⟩ := (eff_exec wi s pc).out s' hex
  intro a h1 h2 hne
  rw [execNamed_eq, execNew_of_log he.log]
  have := he.chg a (by
    rw [Array.getElem?_eq_getElem h1, Array.getElem?_eq_getElem h2]
    exact fun e => hne (Option.some.inj e))
  exact this.elim id (fun h => absurd h List.not_mem_nil)

/-- C15, part 1 (in the requested form) -/
theorem changes_reported (s s' : Sim) (pc : UInt64) (wi : Nat) (q : PQ) (_hwf : s.WF)
    (_hpc : pc < s.m) (_hq : s.pqOf wi = some q) (hex : s.exec pc wi = .ok s') :
    ∀ a (h1 : a < s.mem.size) (h2 : a < s'.mem.size), s'.mem[a] ≠ s.mem[a] → a ∈ execNamed s s' :=
  changes_reported' s s' pc wi hex

/-! ## 3, model level: the terminate report and the queue -/

/-- a terminate report of the task is the report for the executed cell -/
theorem terminate_report (s s' : Sim) (pc : UInt64) (wi : Nat) (hex : s.exec pc wi = .ok s') :
    ∀ r ∈ execNew s s', r.typ = .taskTerminate → r = rep .taskTerminate wi pc := by
  obtain ⟨L, p, he, hl⟩ := (eff_exec wi s pc).out s' hex
  rw [execNew_of_log he.log]
  exact hl.term

/-- a task that reports its termination leaves the queue of its warrior as it was -/
theorem terminate_unchanged (s s' : Sim) (pc : UInt64) (wi : Nat) (q : PQ)
    (hq : s.pqOf wi = some q) (hex : s.exec pc wi = .ok s') :
    (∃ r ∈ execNew s s', r.typ = .taskTerminate) → s'.pqOf wi = some q := by
  obtain ⟨L, p, he, hl⟩ := (eff_exec wi s pc).out s' hex
  rw [execNew_of_log he.log]
  intro ht
  obtain ⟨q', hq', hr⟩ := he.queue q hq
  rw [hq', hr.2.2.2 (hl.iff.mp ht)]

/-- if the queue has room (always the case when `exec` is called from `runWarrior`, which has
    just popped the task), the task reports its termination iff it leaves the queue unchanged.
    Without `q.length < q.size` the implication from right to left fails: a push onto a full
    queue also leaves it unchanged (see `full_queue_counterexample`). -/
theorem terminate_iff_unchanged (s s' : Sim) (pc : UInt64) (wi : Nat) (q : PQ)
    (hq : s.pqOf wi = some q) (hex : s.exec pc wi = .ok s') (hroom : q.length < q.size) :
    ∃ q', s'.pqOf wi = some q' ∧ ((∃ r ∈ execNew s s', r.typ = .taskTerminate) ↔ q' = q) := by
  obtain ⟨L, p, he, hl⟩ := (eff_exec wi s pc).out s' hex
  rw [execNew_of_log he.log]
  obtain ⟨q', hq', hr⟩ := he.queue q hq
  refine ⟨q', hq', ?_⟩
  rw [hl.iff]
  constructor
  · exact hr.2.2.2
  · intro e
    cases p
    · rfl
    · have := hr.2.2.1 rfl hroom
      rw [e] at this
      exact absurd this (UInt64.lt_irrefl _)

/-! ## spec-level facts used by parts 2 and 3 -/

namespace Spec

theorem evalOperand_dec_pre (M R W pc : Nat) (c : Core) {mode : Mode} (num : Nat)
    (hm : mode = .aDec ∨ mode = .bDec) :
    (evalOperand M R W pc c mode num).dec = some ((pc + fold num W M) % M) := by
  rcases hm with rfl | rfl <;> rfl

/-- the divisor test of DIV / MOD on a reference instruction -/
def dmZeroS (md : Modifier) (ira : SInstr) : Bool :=
  match md with
  | .a | .ab => ira.a == 0
  | .b | .ba => ira.b == 0
  | .f | .i | .x => ira.a == 0 || ira.b == 0

/-- the reference step has no successor: DAT, or DIV / MOD with a zero divisor -/
def noSucc (op : Op) (md : Modifier) (ira : SInstr) : Bool :=
  match op with
  | .dat => true
  | .div | .mod => dmZeroS md ira
  | _ => false

theorem divmod_succ_nil (md : Modifier) (ira irb : SInstr) (nxt : Nat) :
    (if (arithPairs md ira irb).all (fun (_, _, y) => y != 0) then [nxt] else []) = [] ↔
      dmZeroS md ira = true := by
  cases md <;> simp [arithPairs, dmZeroS] <;> omega

theorem opStep_succ_nil (M : Nat) (op : Op) (md : Modifier) (ira irb : SInstr) (c2 : Core)
    (wt jt nxt skp : Nat) :
    (opStep M op md ira irb c2 wt jt nxt skp).succ = [] ↔ noSucc op md ira = true := by
  cases op
  case mov => by_cases h : md = .i <;> simp [opStep, noSucc, h]
  case div => exact divmod_succ_nil md ira irb nxt
  case mod => exact divmod_succ_nil md ira irb nxt
  all_goals simp [opStep, noSucc]

theorem step_succ_nil (M R W : Nat) (c : Core) (pc : Nat) :
    (step M R W c pc).succ = [] ↔
      noSucc (c.at pc).op (c.at pc).md
        ((opA M R W c pc).core.at ((pc + (opA M R W c pc).rp) % M)) = true := by
  rw [step_eq]
  exact opStep_succ_nil _ _ _ _ _ _ _ _ _ _

end Spec

theorem dmZeroS_abs (md : Modifier) (ira : Instr) : Spec.dmZeroS md ira.abs = dmZero md ira := by
  cases md <;> simp only [Spec.dmZeroS, dmZero, Instr.abs, u_eq_zero_iff]

theorem noSucc_abs (ir ira : Instr) : Spec.noSucc ir.op ir.md ira.abs = noPush ir ira := by
  unfold Spec.noSucc noPush
  cases ir.op <;> simp only [dmZeroS_abs]

theorem pipOf_post {mode : Mode} (pip : UInt64) (hm : mode = .aInc ∨ mode = .bInc) :
    ((pipOf mode pip).map (·.1)).toList = [pip.toNat] := by
  rcases hm with rfl | rfl <;> rfl

/-! ## 2 and 3 against the reference: one walk through `exec` along `exec_refines` -/

/-- both spec-level facts about the reports of one task -/
theorem exec_reports_spec (s s' : Sim) (pc : UInt64) (wi : Nat) (q : PQ) (h : StepPre s pc wi q)
    (hex : s.exec pc wi = .ok s') :
    (∀ a ∈ execNamed s s',
      a ∈ Spec.mayTouch s.m.toNat s.readLimit.toNat s.writeLimit.toNat s.absCore pc.toNat) ∧
    ((∃ r ∈ execNew s s', r.typ = .taskTerminate) ↔
      (Spec.step s.m.toNat s.readLimit.toNat s.writeLimit.toNat s.absCore pc.toNat).succ = []) := by
  have hd := h.dim
  have hM : 0 < s.m.toNat := by have := hd.m3; omega
  have hpc : pc.toNat < s.m.toNat := UInt64.lt_iff_toNat_lt.mp h.pc
  have h0 := h.st
  -- the walk of `exec_refines`
  obtain ⟨ir, e1, hir, _⟩ := h0.rd pc hpc
  obtain ⟨s1, rpa, pipa, e2, h1, hrpa, hpipa, hpl⟩ := h0.aOperand pc hpc ir
  have hrpa' : rpa.toNat < s.m.toNat := hrpa ▸ Spec.evalOperand_rp_lt hd _ _ _ _
  have erd : ((pc + rpa) % s1.m).toNat = (pc.toNat + rpa.toNat) % s.m.toNat := h1.ctx.idx hpc hrpa'
  obtain ⟨ira, e3, hira, hiraB⟩ := h1.rdN _ _ erd (Nat.mod_lt _ hM)
  obtain ⟨s2, e4, h2⟩ := h1.aPost ir pipa hpl
  obtain ⟨s3, rpb, wpb, pipb, e5, h3, hrpb, hwpb, hpipb, hplb⟩ := h2.bOperand pc hpc ir pipa hpl
  have hrpb' : rpb.toNat < s.m.toNat := hrpb ▸ Spec.evalOperand_rp_lt hd _ _ _ _
  have hwpb' : wpb.toNat < s.m.toNat := hwpb ▸ Spec.evalOperand_wp_lt hd _ _ _ _
  have erdb : ((pc + rpb) % s3.m).toNat = (pc.toNat + rpb.toNat) % s.m.toNat := h3.ctx.idx hpc hrpb'
  obtain ⟨irb, e6, hirb, hirbB⟩ := h3.rdN _ _ erdb (Nat.mod_lt _ hM)
  obtain ⟨s4, e7, h4⟩ := h3.bPost ir pipb hplb
  obtain ⟨s5, e8, h5⟩ := h4.opPhase ir ira irb hiraB hirbB pc rpa rpb wpb hpc hrpa' hwpb'
  have hexec : s.exec pc wi = .ok s5 := (exec_of_steps h.check e1 e2 e3 e4 e5 e6 e7).trans e8
  have hs5 : s5 = s' := by rw [hex] at hexec; exact (Except.ok.inj hexec).symm
  subst hs5
  -- the reports of the five phases
  obtain ⟨LA, EA, QA⟩ := (eff_aOperand wi s pc ir).out _ e2
  obtain ⟨LPA, EPA, QPA⟩ := (eff_aPost wi s1 ir pipa).out _ e4
  obtain ⟨LB, EB, QB⟩ := (eff_bOperand wi s2 pc ir pipa).out _ e5
  obtain ⟨LPB, EPB, QPB⟩ := (eff_bPost wi s3 ir pipb).out _ e7
  obtain ⟨LO, EO, QO⟩ := (eff_opPhase wi s4 ir ira irb pc rpa rpb wpb).out _ e8
  dsimp only at EA QA EB QB
  have hlog : s5.log.toList = s.log.toList ++ (LA ++ (LPA ++ (LB ++ (LPB ++ LO)))) := by
    rw [EO.log, EPB.log, EB.log, EPA.log, EA.log]
    simp only [List.append_assoc]
  have hnew := execNew_of_log hlog
  -- the reference operands in the model's terms
  have hoa : Spec.opA s.m.toNat s.readLimit.toNat s.writeLimit.toNat s.absCore pc.toNat =
      Spec.evalOperand s.m.toNat s.readLimit.toNat s.writeLimit.toNat pc.toNat s.absCore ir.am
        ir.a.toNat := by
    unfold Spec.opA; rw [← hir]; rfl
  have hc1 : Spec.core1 s.m.toNat s.readLimit.toNat s.writeLimit.toNat s.absCore pc.toNat =
      Spec.postInc s.m.toNat
        (Spec.evalOperand s.m.toNat s.readLimit.toNat s.writeLimit.toNat pc.toNat s.absCore ir.am
          ir.a.toNat).core (pipOf ir.am pipa) := by
    unfold Spec.core1; rw [hoa, hpipa]
  have hob : Spec.opB s.m.toNat s.readLimit.toNat s.writeLimit.toNat s.absCore pc.toNat =
      Spec.evalOperand s.m.toNat s.readLimit.toNat s.writeLimit.toNat pc.toNat
        (Spec.postInc s.m.toNat
          (Spec.evalOperand s.m.toNat s.readLimit.toNat s.writeLimit.toNat pc.toNat s.absCore ir.am
            ir.a.toNat).core (pipOf ir.am pipa)) ir.bm ir.b.toNat := by
    unfold Spec.opB; rw [hc1, ← hir]; rfl
  have hop : (s.absCore.at pc.toNat).op = ir.op := by rw [← hir]; rfl
  have hmd : (s.absCore.at pc.toNat).md = ir.md := by rw [← hir]; rfl
  constructor
  · -- 2. the named addresses lie in `mayTouch`
    intro a ha
    rw [execNamed_eq, hnew, mem_namedOf] at ha
    obtain ⟨r, hr, hnamed, rfl⟩ := ha
    rw [Spec.mayTouch_eq, hoa, hob, hop]
    simp only [List.mem_append] at hr ⊢
    rcases hr with hr | hr | hr | hr | hr
    · -- pre-decrement of the A operand
      obtain ⟨rfl, hm⟩ := QA r hr
      refine Or.inl (Or.inl (Or.inl (Or.inl ?_)))
      rw [Spec.evalOperand_dec_pre _ _ _ _ _ _ hm, Option.toList_some, List.mem_singleton]
      show ((pc + s.writeFold ir.a) % s.m).toNat = _
      rw [h0.ctx.idx hpc (h0.ctx.writeFold_lt ir.a), h0.ctx.writeFold_toNat]
    · -- post-increment of the A operand
      obtain ⟨rfl, hm⟩ := QPA r hr
      refine Or.inl (Or.inl (Or.inl (Or.inr ?_)))
      rw [hpipa, pipOf_post pipa hm, List.mem_singleton]
      rfl
    · -- pre-decrement of the B operand
      obtain ⟨rfl, hm⟩ := QB r hr
      refine Or.inl (Or.inl (Or.inr ?_))
      rw [Spec.evalOperand_dec_pre _ _ _ _ _ _ hm, Option.toList_some, List.mem_singleton]
      show ((pc + s2.writeFold ir.b) % s2.m).toNat = _
      rw [h2.ctx.idx hpc (h2.ctx.writeFold_lt ir.b), h2.ctx.writeFold_toNat]
    · -- post-increment of the B operand
      obtain ⟨rfl, hm⟩ := QPB r hr
      refine Or.inl (Or.inr ?_)
      rw [hpipb, pipOf_post pipb hm, List.mem_singleton]
      rfl
    · -- the write target
      obtain ⟨hw, hra⟩ := QO.named r hr hnamed
      refine Or.inr ?_
      rw [hw, if_pos rfl, List.mem_singleton, hra, h4.ctx.idx hpc hwpb', hwpb]
  · -- 3. terminate report iff no successor
    rw [hnew, Spec.step_succ_nil, hoa, hop, hmd, ← hrpa, ← hira, noSucc_abs, ← QO.iff]
    constructor
    · rintro ⟨r, hr, ht⟩
      simp only [List.mem_append] at hr
      rcases hr with hr | hr | hr | hr | hr
      · rw [(QA r hr).1] at ht; cases ht
      · rw [(QPA r hr).1] at ht; cases ht
      · rw [(QB r hr).1] at ht; cases ht
      · rw [(QPB r hr).1] at ht; cases ht
      · exact ⟨r, hr, ht⟩
    · rintro ⟨r, hr, ht⟩
      exact ⟨r, by simp only [List.mem_append]; exact Or.inr (Or.inr (Or.inr (Or.inr hr))), ht⟩

/-- the hypotheses of `StepPre` from the invariant and the bounds -/
theorem StepPre.of_wf {s : Sim} {pc : UInt64} {wi : Nat} {q : PQ} (hwf : s.WF) (hpc : pc < s.m)
    (hq : s.pqOf wi = some q) (m32 : s.m.toNat ≤ 2 ^ 32) (rl : s.readLimit.toNat ≤ s.m.toNat)
    (wl : s.writeLimit.toNat ≤ s.m.toNat) : StepPre s pc wi q :=
  ⟨hwf, m32, rl, wl, hpc, hq, (Sim.pqOf_warriorOK hwf hq).1⟩

/-- C15, part 2: nothing is reported as written, incremented or decremented that the
    reference semantics could not touch -/
theorem named_subset_mayTouch (s s' : Sim) (pc : UInt64) (wi : Nat) (q : PQ)
    (h : StepPre s pc wi q) (hex : s.exec pc wi = .ok s') :
    ∀ a ∈ execNamed s s',
      a ∈ Spec.mayTouch s.m.toNat s.readLimit.toNat s.writeLimit.toNat s.absCore pc.toNat :=
  (exec_reports_spec s s' pc wi q h hex).1

/-- C15, part 3: a `taskTerminate` report is among the reports of the task iff the reference
    step queues no successor, and then it is the report for the executed cell -/
theorem terminate_iff (s s' : Sim) (pc : UInt64) (wi : Nat) (q : PQ)
    (h : StepPre s pc wi q) (hex : s.exec pc wi = .ok s') :
    ((∃ r ∈ execNew s s', r.typ = .taskTerminate) ↔
      (Spec.step s.m.toNat s.readLimit.toNat s.writeLimit.toNat s.absCore pc.toNat).succ = []) ∧
    (∀ r ∈ execNew s s', r.typ = .taskTerminate → r = rep .taskTerminate wi pc) :=
  ⟨(exec_reports_spec s s' pc wi q h hex).2, terminate_report s s' pc wi hex⟩

/-- the same with the report spelled out -/
theorem terminate_mem_iff (s s' : Sim) (pc : UInt64) (wi : Nat) (q : PQ)
    (h : StepPre s pc wi q) (hex : s.exec pc wi = .ok s') :
    rep .taskTerminate wi pc ∈ execNew s s' ↔
      (Spec.step s.m.toNat s.readLimit.toNat s.writeLimit.toNat s.absCore pc.toNat).succ = [] := by
  rw [← (terminate_iff s s' pc wi q h hex).1]
  constructor
  · intro hm; exact ⟨_, hm, rfl⟩
  · rintro ⟨r, hr, ht⟩
    rw [← terminate_report s s' pc wi hex r hr ht]; exact hr

/-! ## the full-queue counterexample, and non-vacuity -/

/-- a well-formed state whose only warrior has a full queue (one process allowed, one queued)
    and `JMP $0` at cell 0 -/
def fullQueueSim : Sim :=
  { m := 3, maxProcs := 1, maxCycles := 1, readLimit := 3, writeLimit := 3,
    mem := #[{ op := .jmp }, default, default], legacy := false,
    warriors := #[{ data := {}, index := 0, state := .alive,
                    pq := some { queue := #[0], size := 1, length := 1 } }],
    warriorCount := 1, living := 1 }

theorem fullQueueSim_wf : fullQueueSim.WF := by
  refine ⟨by decide, by decide, by decide, by decide, by decide, by decide, ?_, by decide,
    by decide, ?_, by decide, by decide⟩
  · unfold Sim.FieldsOK; decide
  · intro i hi
    have : i = 0 := by simp [fullQueueSim] at hi; omega
    subst this
    refine ⟨rfl, ?_⟩
    show PQ.Inv _ ∧ _
    exact ⟨⟨by decide, by decide, by decide, by decide, by decide⟩, by decide, by decide,
      fun _ => by decide, fun h => by simp [fullQueueSim] at h⟩

/-- `q' = q` does NOT imply a terminate report when the queue is full: the `JMP` pushes onto
    the full queue, which drops the address; the queue is unchanged and nothing is reported -/
theorem full_queue_counterexample :
    ∃ s', fullQueueSim.exec 0 0 = .ok s' ∧ s'.pqOf 0 = fullQueueSim.pqOf 0 ∧
      execNew fullQueueSim s' = [] := by
  refine ⟨_, rfl, ?_, ?_⟩
  · decide
  · decide

/-- `MOV.I $0, >1`: cell 1 changes, and it is named twice (increment, then write) -/
def movSim : Sim :=
  { m := 4, maxProcs := 2, maxCycles := 1, readLimit := 4, writeLimit := 4,
    mem := #[{ op := .mov, md := .i, a := 0, am := .direct, b := 1, bm := .bInc },
             default, default, default], legacy := false,
    warriors := #[{ data := {}, index := 0, state := .alive,
                    pq := some { queue := #[0, 0], size := 2, length := 0 } }],
    warriorCount := 1, living := 1 }

example : ∃ s', movSim.exec 0 0 = .ok s' ∧ s'.mem[1]? ≠ movSim.mem[1]? ∧
    execNamed movSim s' = [1, 1] ∧
    (execNew movSim s').map (·.typ) = [.increment, .taskPush, .write] := by
  refine ⟨_, rfl, ?_, ?_, ?_⟩ <;> decide

end Gmars
