/-
  C15, model level: the exact effect of every phase of `exec` on the log, the
  core and the queue of the executing warrior.

  `Eff wi s s' L p pend` says: `s'` is `s` with the reports `L` appended, every
  core cell that differs is named in a write / increment / decrement report of
  `L` or is listed in `pend` (cells already changed whose report is still to be
  appended), and the queue of warrior `wi` was pushed onto (`p = true`) or is
  untouched (`p = false`).

  Everything here is partial correctness (`Post`): no hypothesis on the core
  size, the limits or well-formedness is needed.
-/
import Gmars.Proofs.Refine

namespace Gmars

/-! ## partial-correctness vocabulary for `Except Panic` -/

/-- if `x` returns normally, its value satisfies `P` -/
structure Post {α : Type} (x : Except Panic α) (P : α → Prop) : Prop where
  out : ∀ a, x = .ok a → P a

theorem Post.ok {α : Type} {P : α → Prop} {a : α} (h : P a) : Post (.ok a) P :=
  ⟨fun b hb => by cases hb; exact h⟩

theorem Post.pure {α : Type} {P : α → Prop} {a : α} (h : P a) : Post (Pure.pure a) P :=
  Post.ok h

theorem Post.error {α : Type} {P : α → Prop} {e : Panic} : Post (.error e : Except Panic α) P :=
  ⟨fun b hb => by cases hb⟩

theorem Post.bind {α β : Type} {x : Except Panic α} {f : α → Except Panic β}
    {P : α → Prop} {Q : β → Prop} (hx : Post x P) (hf : ∀ a, P a → Post (f a) Q) :
    Post (x >>= f) Q := by
  refine ⟨fun b hb => ?_⟩
  cases x with
  | error e => cases hb
  | ok a => exact (hf a (hx.out a rfl)).out b hb

theorem Post.mono {α : Type} {x : Except Panic α} {P Q : α → Prop} (hx : Post x P)
    (h : ∀ a, P a → Q a) : Post x Q := ⟨fun a ha => h a (hx.out a ha)⟩

theorem Post.ite {α : Type} {c : Prop} [Decidable c] {x y : Except Panic α} {P : α → Prop}
    (hx : c → Post x P) (hy : ¬ c → Post y P) : Post (if c then x else y) P := by
  split
  · exact hx ‹_›
  · exact hy ‹_›

/-- a step whose result is not constrained (a read) -/
theorem Post.triv {α : Type} (x : Except Panic α) : Post x (fun _ => True) := ⟨fun _ _ => trivial⟩

/-! ## the addresses named by write / increment / decrement reports -/

/-- the addresses named by the write, increment and decrement reports of `L` -/
def namedOf (L : List Report) : List Nat :=
  (L.filter (fun r => r.typ = .write ∨ r.typ = .increment ∨ r.typ = .decrement)).map (·.addr.toNat)

theorem mem_namedOf {L : List Report} {a : Nat} :
    a ∈ namedOf L ↔
      ∃ r ∈ L, (r.typ = .write ∨ r.typ = .increment ∨ r.typ = .decrement) ∧ r.addr.toNat = a := by
  simp only [namedOf, List.mem_map, List.mem_filter, decide_eq_true_eq]
  constructor
  · rintro ⟨r, ⟨h1, h2⟩, h3⟩; exact ⟨r, h1, h2, h3⟩
  · rintro ⟨r, h1, h2, h3⟩; exact ⟨r, ⟨h1, h2⟩, h3⟩

theorem namedOf_append (L1 L2 : List Report) : namedOf (L1 ++ L2) = namedOf L1 ++ namedOf L2 := by
  simp only [namedOf, List.filter_append, List.map_append]

/-! ## the effect of a push on the queue -/

/-- how the queue of the executing warrior changed: it never shrinks; if something was pushed
    (`p = true`) and there was room, it grew; if nothing was pushed it is the same queue -/
def QR (p : Bool) (q q' : PQ) : Prop :=
  q'.size = q.size ∧ q.length ≤ q'.length ∧
    (p = true → q.length < q.size → q.length < q'.length) ∧ (p = false → q' = q)

theorem QR.refl (q : PQ) : QR false q q :=
  ⟨rfl, UInt64.le_refl _, fun h => (by cases h), fun _ => rfl⟩

theorem QR.trans {p1 p2 : Bool} {q q1 q2 : PQ} (h1 : QR p1 q q1) (h2 : QR p2 q1 q2) :
    QR (p1 || p2) q q2 := by
  obtain ⟨a1, a2, a3, a4⟩ := h1
  obtain ⟨b1, b2, b3, b4⟩ := h2
  refine ⟨b1.trans a1, UInt64.le_trans a2 b2, ?_, ?_⟩
  · intro hp hroom
    cases p1
    · have e := a4 rfl
      subst e
      exact b3 (by simpa using hp) hroom
    · exact UInt64.lt_of_lt_of_le (a3 rfl hroom) b2
  · intro hp
    simp only [Bool.or_eq_false_iff] at hp
    rw [b4 hp.2, a4 hp.1]

theorem PQ.push_QR {q q' : PQ} {a : UInt64} (h : q.push a = .ok q') : QR true q q' := by
  unfold PQ.push at h
  split at h
  · cases h
    rename_i hfull
    refine ⟨rfl, UInt64.le_refl _, fun _ hroom => ?_, fun h => by cases h⟩
    exact absurd hroom (UInt64.not_lt.mpr hfull)
  · rename_i hroom
    have hroom' : q.length < q.size := UInt64.not_le.mp hroom
    split at h
    · cases h
      have h64 := q.size.toNat_lt
      rw [UInt64.lt_iff_toNat_lt] at hroom'
      have e : (q.length + 1).toNat = q.length.toNat + 1 := by
        rw [UInt64.toNat_add, u_one_toNat, Nat.mod_eq_of_lt (by omega)]
      refine ⟨rfl, ?_, fun _ _ => ?_, fun h => by cases h⟩
      · show q.length ≤ q.length + 1
        rw [UInt64.le_iff_toNat_le, e]; omega
      · show q.length < q.length + 1
        rw [UInt64.lt_iff_toNat_lt, e]; omega
    · cases h

/-! ## the effect relation -/

structure Eff (wi : Nat) (s s' : Sim) (L : List Report) (p : Bool) (pend : List Nat) : Prop where
  log   : s'.log.toList = s.log.toList ++ L
  m     : s'.m = s.m
  rl    : s'.readLimit = s.readLimit
  wl    : s'.writeLimit = s.writeLimit
  size  : s'.mem.size = s.mem.size
  chg   : ∀ a, s'.mem[a]? ≠ s.mem[a]? → a ∈ namedOf L ∨ a ∈ pend
  queue : ∀ q, s.pqOf wi = some q → ∃ q', s'.pqOf wi = some q' ∧ QR p q q'

section eff
variable {wi : Nat} {s s1 s2 s' : Sim}

theorem Eff.refl (wi : Nat) (s : Sim) : Eff wi s s [] false [] where
  log := by simp
  m := rfl
  rl := rfl
  wl := rfl
  size := rfl
  chg := fun a h => absurd rfl h
  queue := fun q hq => ⟨q, hq, QR.refl q⟩

/-- sequential composition, with the bookkeeping of the pending cells left to the caller -/
theorem Eff.seq {L1 L2 L : List Report} {p1 p2 p : Bool} {pend1 pend2 pend : List Nat}
    (h1 : Eff wi s s1 L1 p1 pend1) (h2 : Eff wi s1 s2 L2 p2 pend2)
    (hL : L1 ++ L2 = L) (hp : (p1 || p2) = p)
    (hpend : ∀ a, a ∈ pend1 ∨ a ∈ pend2 → a ∈ namedOf L ∨ a ∈ pend) :
    Eff wi s s2 L p pend where
  log := by rw [h2.log, h1.log, List.append_assoc, hL]
  m := h2.m.trans h1.m
  rl := h2.rl.trans h1.rl
  wl := h2.wl.trans h1.wl
  size := h2.size.trans h1.size
  chg := by
    intro a ha
    subst hL
    rw [namedOf_append, List.mem_append]
    by_cases e : s1.mem[a]? = s.mem[a]?
    · rw [← e] at ha
      rcases h2.chg a ha with h | h
      · exact Or.inl (Or.inr h)
      · have := hpend a (Or.inr h)
        rwa [namedOf_append, List.mem_append] at this
    · rcases h1.chg a e with h | h
      · exact Or.inl (Or.inl h)
      · have := hpend a (Or.inl h)
        rwa [namedOf_append, List.mem_append] at this
  queue := by
    intro q hq
    obtain ⟨q1, hq1, r1⟩ := h1.queue q hq
    obtain ⟨q2, hq2, r2⟩ := h2.queue q1 hq1
    exact ⟨q2, hq2, hp ▸ r1.trans r2⟩

/-- plain composition: the pending cells add up -/
theorem Eff.trans {L1 L2 : List Report} {p1 p2 : Bool} {pend1 pend2 : List Nat}
    (h1 : Eff wi s s1 L1 p1 pend1) (h2 : Eff wi s1 s2 L2 p2 pend2) :
    Eff wi s s2 (L1 ++ L2) (p1 || p2) (pend1 ++ pend2) :=
  h1.seq h2 rfl rfl (fun _ ha => Or.inr (List.mem_append.mpr ha))

/-- pending cells may be dropped once they are named, and added freely -/
theorem Eff.pend {L : List Report} {p : Bool} {pend pend' : List Nat}
    (h : Eff wi s s' L p pend) (hpend : ∀ a ∈ pend, a ∈ namedOf L ∨ a ∈ pend') :
    Eff wi s s' L p pend' :=
  ⟨h.log, h.m, h.rl, h.wl, h.size,
    fun a ha => (h.chg a ha).elim Or.inl (hpend a), h.queue⟩

theorem eff_report (wi : Nat) (s : Sim) (r : Report) : Eff wi s (s.report r) [r] false [] where
  log := by simp [Sim.report]
  m := rfl
  rl := rfl
  wl := rfl
  size := rfl
  chg := fun a h => absurd rfl h
  queue := fun q hq => ⟨q, hq, QR.refl q⟩

theorem eff_upd (wi : Nat) (s : Sim) (i : UInt64) (f : Instr → Instr) :
    Post (s.upd i f) (fun s' => Eff wi s s' [] false [i.toNat]) := by
  refine ⟨fun s' h => ?_⟩
  unfold Sim.upd at h
  split at h
  · cases h
    refine ⟨by simp, rfl, rfl, rfl, by simp, ?_, fun q hq => ⟨q, hq, QR.refl q⟩⟩
    intro a ha
    right
    simp only [List.mem_singleton]
    apply Decidable.by_contra
    intro hne
    apply ha
    simp only
    rw [Array.getElem?_set_ne]
    exact fun e => hne e.symm
  · cases h

theorem eff_push (wi : Nat) (s : Sim) (a : UInt64) :
    Post (s.push wi a) (fun s' => Eff wi s s' [] true []) := by
  refine ⟨fun s' h => ?_⟩
  unfold Sim.push at h
  split at h
  · rename_i hlt
    simp only at h
    split at h
    · cases h
    · rename_i q0 hq0
      cases hp : q0.push a with
      | error e => rw [hp] at h; cases h
      | ok q1 =>
        rw [hp] at h
        cases h
        refine ⟨by simp, rfl, rfl, rfl, rfl, fun _ h => absurd rfl h, ?_⟩
        intro q hq
        obtain ⟨_, hq'⟩ := pqOf_some hq
        rw [hq0] at hq'
        cases hq'
        exact ⟨q1, by simp [Sim.pqOf], PQ.push_QR hp⟩
  · cases h

end eff

/-! ## an update followed by the report that names it -/

theorem namedOf_rep (t : RType) (ht : t = .write ∨ t = .increment ∨ t = .decrement) (wi : Nat)
    (i : UInt64) : namedOf [rep t wi i] = [i.toNat] := by
  rcases ht with rfl | rfl | rfl <;> rfl

theorem eff_updRep (wi : Nat) (s : Sim) (i : UInt64) (f : Instr → Instr) (t : RType)
    (ht : t = .write ∨ t = .increment ∨ t = .decrement) :
    Post (do let s' ← s.upd i f; pure (s'.report (rep t wi i)))
      (fun s' => Eff wi s s' [rep t wi i] false []) := by
  apply Post.bind (eff_upd wi s i f)
  intro s1 h1
  refine Post.pure (h1.seq (eff_report wi s1 _) rfl rfl ?_)
  intro a ha
  rw [namedOf_rep t ht]
  exact Or.inl (ha.elim id (fun h => absurd h List.not_mem_nil))

/-- the effect of a phase that only appends reports satisfying `Q` and names every change -/
def EffQ (wi : Nat) (s s' : Sim) (Q : Report → Prop) : Prop :=
  ∃ L, Eff wi s s' L false [] ∧ ∀ x ∈ L, Q x

theorem EffQ.refl (wi : Nat) (s : Sim) (Q : Report → Prop) : EffQ wi s s Q :=
  ⟨[], Eff.refl wi s, fun _ h => absurd h List.not_mem_nil⟩

theorem EffQ.m {wi : Nat} {s s' : Sim} {Q : Report → Prop} (h : EffQ wi s s' Q) : s'.m = s.m := by
  obtain ⟨_, h, _⟩ := h; exact h.m

theorem EffQ.step {wi : Nat} {s s1 s2 : Sim} {Q : Report → Prop} {L : List Report}
    (h : EffQ wi s s1 Q) (h2 : Eff wi s1 s2 L false []) (hQ : ∀ x ∈ L, Q x) : EffQ wi s s2 Q := by
  obtain ⟨L1, h1, q1⟩ := h
  refine ⟨L1 ++ L, h1.seq h2 rfl rfl (fun a ha => ha.elim Or.inr Or.inr), ?_⟩
  intro x hx
  rcases List.mem_append.mp hx with h | h
  · exact q1 x h
  · exact hQ x h

theorem EffQ.trans {wi : Nat} {s s1 s2 : Sim} {Q : Report → Prop}
    (h : EffQ wi s s1 Q) (h2 : EffQ wi s1 s2 Q) : EffQ wi s s2 Q := by
  obtain ⟨L2, e2, q2⟩ := h2
  exact h.step e2 q2

theorem EffQ.mono {wi : Nat} {s s' : Sim} {Q Q' : Report → Prop} (h : EffQ wi s s' Q)
    (hQ : ∀ x, Q x → Q' x) : EffQ wi s s' Q' := by
  obtain ⟨L, e, q⟩ := h
  exact ⟨L, e, fun x hx => hQ x (q x hx)⟩

/-- an update with its report, appended to a phase -/
theorem EffQ.updRep {wi : Nat} {s s1 : Sim} {Q : Report → Prop} (h : EffQ wi s s1 Q)
    (i : UInt64) (f : Instr → Instr) (t : RType)
    (ht : t = .write ∨ t = .increment ∨ t = .decrement) (hQ : Q (rep t wi i)) :
    Post (do let s' ← s1.upd i f; pure (s'.report (rep t wi i))) (fun s' => EffQ wi s s' Q) :=
  (eff_updRep wi s1 i f t ht).mono (fun _ h2 => h.step h2 (by
    intro x hx; rw [List.mem_singleton] at hx; subst hx; exact hQ))

/-! ## operand evaluation -/

theorem Mode.isA_of_isB {m : Mode} (h : m.isB = true) : m.isA = false := by
  cases m <;> first | rfl | cases h

section operands
variable (wi : Nat) (s : Sim) (pc : UInt64) (ir : Instr)

theorem eff_aOperand :
    Post (s.aOperand pc ir wi) (fun r => EffQ wi s r.1 (fun x =>
      x = rep .decrement wi ((pc + s.writeFold ir.a) % s.m) ∧ (ir.am = .aDec ∨ ir.am = .bDec))) := by
  unfold Sim.aOperand
  apply Post.ite
  · intro _; exact Post.ok (EffQ.refl _ _ _)
  · intro _
    dsimp only
    apply Post.bind (P := fun r => EffQ wi s r.1 (fun x =>
      x = rep .decrement wi ((pc + s.writeFold ir.a) % s.m) ∧ (ir.am = .aDec ∨ ir.am = .bDec)))
    · apply Post.ite
      · intro _
        apply Post.bind (P := fun s' => EffQ wi s s' (fun x =>
          x = rep .decrement wi ((pc + s.writeFold ir.a) % s.m) ∧ (ir.am = .aDec ∨ ir.am = .bDec)))
        · apply Post.ite
          · intro hm
            exact (EffQ.refl wi s _).updRep _ _ _ (Or.inr (Or.inr rfl)) ⟨rfl, Or.inl (eq_of_beq hm)⟩
          · intro _; exact Post.pure (EffQ.refl _ _ _)
        · intro s1 h1
          apply Post.bind (Post.triv _)
          intro c _
          exact Post.pure h1
      · intro _; exact Post.pure (EffQ.refl _ _ _)
    · rintro ⟨s1, rpa, pip⟩ h1
      dsimp only at h1 ⊢
      apply Post.ite
      · intro _
        apply Post.bind (P := fun s' => EffQ wi s s' (fun x =>
          x = rep .decrement wi ((pc + s.writeFold ir.a) % s.m) ∧ (ir.am = .aDec ∨ ir.am = .bDec)))
        · apply Post.ite
          · intro hm
            refine h1.updRep _ _ _ (Or.inr (Or.inr rfl)) ⟨?_, Or.inr (eq_of_beq hm)⟩
            rw [h1.m]
          · intro _; exact Post.pure h1
        · intro s2 h2
          apply Post.bind (Post.triv _)
          intro c _
          exact Post.pure h2
      · intro _; exact Post.pure h1

theorem eff_aPost (pip : UInt64) :
    Post (s.aPost ir pip wi) (fun s' => EffQ wi s s' (fun x =>
      x = rep .increment wi pip ∧ (ir.am = .aInc ∨ ir.am = .bInc))) := by
  unfold Sim.aPost
  apply Post.bind (P := fun s' => EffQ wi s s' (fun x =>
      x = rep .increment wi pip ∧ (ir.am = .aInc ∨ ir.am = .bInc)))
  · apply Post.ite
    · intro hm
      exact (EffQ.refl wi s _).updRep _ _ _ (Or.inr (Or.inl rfl)) ⟨rfl, Or.inl (eq_of_beq hm)⟩
    · intro _; exact Post.pure (EffQ.refl _ _ _)
  · intro s1 h1
    apply Post.ite
    · intro hm
      exact h1.updRep _ _ _ (Or.inr (Or.inl rfl)) ⟨rfl, Or.inr (eq_of_beq hm)⟩
    · intro _; exact Post.pure h1

theorem eff_bOperand (pip0 : UInt64) :
    Post (s.bOperand pc ir wi pip0) (fun r => EffQ wi s r.1 (fun x =>
      x = rep .decrement wi ((pc + s.writeFold ir.b) % s.m) ∧ (ir.bm = .aDec ∨ ir.bm = .bDec))) := by
  unfold Sim.bOperand
  apply Post.ite
  · intro _; exact Post.ok (EffQ.refl _ _ _)
  · intro _
    dsimp only
    apply Post.bind (P := fun r => EffQ wi s r.1 (fun x =>
      x = rep .decrement wi ((pc + s.writeFold ir.b) % s.m) ∧ (ir.bm = .aDec ∨ ir.bm = .bDec)) ∧
      (ir.bm.isA = false → r.2.2.1 = s.writeFold ir.b))
    · apply Post.ite
      · intro hA
        apply Post.bind (P := fun s' => EffQ wi s s' (fun x =>
          x = rep .decrement wi ((pc + s.writeFold ir.b) % s.m) ∧ (ir.bm = .aDec ∨ ir.bm = .bDec)))
        · apply Post.ite
          · intro hm
            exact (EffQ.refl wi s _).updRep _ _ _ (Or.inr (Or.inr rfl)) ⟨rfl, Or.inl (eq_of_beq hm)⟩
          · intro _; exact Post.pure (EffQ.refl _ _ _)
        · intro s1 h1
          apply Post.bind (Post.triv _)
          intro c _
          apply Post.bind (Post.triv _)
          intro d _
          exact Post.pure ⟨h1, fun h => by rw [h] at hA; cases hA⟩
      · intro _; exact Post.pure ⟨EffQ.refl _ _ _, fun _ => rfl⟩
    · rintro ⟨s1, rpb, wpb, pip⟩ ⟨h1, hwpb⟩
      dsimp only at h1 hwpb ⊢
      apply Post.ite
      · intro hB
        apply Post.bind (P := fun s' => EffQ wi s s' (fun x =>
          x = rep .decrement wi ((pc + s.writeFold ir.b) % s.m) ∧ (ir.bm = .aDec ∨ ir.bm = .bDec)))
        · apply Post.ite
          · intro hm
            refine h1.updRep _ _ _ (Or.inr (Or.inr rfl)) ⟨?_, Or.inr (eq_of_beq hm)⟩
            rw [h1.m, hwpb (Mode.isA_of_isB hB)]
          · intro _; exact Post.pure h1
        · intro s2 h2
          apply Post.bind (Post.triv _)
          intro c _
          apply Post.bind (Post.triv _)
          intro d _
          exact Post.pure h2
      · intro _; exact Post.pure h1

theorem eff_bPost (pip : UInt64) :
    Post (s.bPost ir pip wi) (fun s' => EffQ wi s s' (fun x =>
      x = rep .increment wi pip ∧ (ir.bm = .aInc ∨ ir.bm = .bInc))) := by
  unfold Sim.bPost
  apply Post.ite
  · intro hm
    exact (EffQ.refl wi s _).updRep _ _ _ (Or.inr (Or.inl rfl)) ⟨rfl, Or.inl (eq_of_beq hm)⟩
  · intro _
    apply Post.ite
    · intro hm
      exact (EffQ.refl wi s _).updRep _ _ _ (Or.inr (Or.inl rfl)) ⟨rfl, Or.inr (eq_of_beq hm)⟩
    · intro _; exact Post.pure (EffQ.refl _ _ _)

end operands

/-! ## simops.go -/

section ops
variable {wi : Nat} {s s1 : Sim}

theorem eff_pushNext (wi : Nat) (s : Sim) (a : UInt64) :
    Post (s.pushNext wi a) (fun s' => Eff wi s s' [rep .taskPush wi a] true []) := by
  unfold Sim.pushNext
  exact (eff_push wi _ a).mono (fun _ h =>
    (eff_report wi s _).seq h rfl rfl (fun _ ha => ha.elim Or.inr Or.inr))

theorem eff_terminate (wi : Nat) (s : Sim) (pc : UInt64) :
    Eff wi s (s.terminate wi pc) [rep .taskTerminate wi pc] false [] :=
  eff_report wi s _

/-- two updates of the same cell -/
theorem eff_upd2 (wi : Nat) (s : Sim) (i : UInt64) (f g : Instr → Instr) :
    Post (do let s ← s.upd i f; s.upd i g) (fun s' => Eff wi s s' [] false [i.toNat]) :=
  Post.bind (eff_upd wi s i f) (fun s1 h1 => (eff_upd wi s1 i g).mono (fun _ h2 =>
    h1.seq h2 rfl rfl (fun _ ha => Or.inr (ha.elim id id))))

/-- a guarded update (DIV / MOD) -/
theorem eff_updIf (wi : Nat) (s : Sim) (c : Prop) [Decidable c] (i : UInt64) (f : Instr → Instr) :
    Post (if c then s.upd i f else pure s) (fun s' => Eff wi s s' [] false [i.toNat]) :=
  Post.ite (fun _ => eff_upd wi s i f)
    (fun _ => Post.pure ((Eff.refl wi s).pend (fun _ h => absurd h List.not_mem_nil)))

/-- after silent updates: queue `pc + 1` -/
theorem Eff.next {pend : List Nat} (h1 : Eff wi s s1 [] false pend) (pc : UInt64) :
    Post (s1.pushNext wi ((pc + 1) % s1.m))
      (fun s' => Eff wi s s' [rep .taskPush wi ((pc + 1) % s.m)] true pend) := by
  rw [h1.m]
  exact (eff_pushNext wi s1 _).mono (fun _ h2 =>
    h1.seq h2 rfl rfl (fun _ ha => Or.inr (ha.elim id (fun h => absurd h List.not_mem_nil))))

theorem Eff.pushNextAny {pend : List Nat} (h1 : Eff wi s s1 [] false pend) (a : UInt64) :
    Post (s1.pushNext wi a) (fun s' => ∃ t, Eff wi s s' [rep .taskPush wi t] true pend) :=
  (eff_pushNext wi s1 a).mono (fun _ h2 => ⟨a,
    h1.seq h2 rfl rfl (fun _ ha => Or.inr (ha.elim id (fun h => absurd h List.not_mem_nil)))⟩)

theorem eff_mov (wi : Nat) (s : Sim) (ir ira : Instr) (wab pc : UInt64) :
    Post (s.mov ir ira wab pc wi)
      (fun s' => Eff wi s s' [rep .taskPush wi ((pc + 1) % s.m)] true [wab.toNat]) := by
  unfold Sim.mov
  apply Post.bind (P := fun s1 => Eff wi s s1 [] false [wab.toNat])
  · split
    · exact eff_upd _ _ _ _
    · exact eff_upd _ _ _ _
    · exact eff_upd _ _ _ _
    · exact eff_upd _ _ _ _
    · exact eff_upd2 _ _ _ _ _
    · exact eff_upd2 _ _ _ _ _
    · exact eff_upd _ _ _ _
  · intro s1 h1
    exact h1.next pc

theorem eff_arith (wi : Nat) (s : Sim) (g : UInt64 → UInt64 → UInt64) (ir ira irb : Instr)
    (wab pc : UInt64) :
    Post (s.arith g ir ira irb wab pc wi)
      (fun s' => Eff wi s s' [rep .taskPush wi ((pc + 1) % s.m)] true [wab.toNat]) := by
  unfold Sim.arith
  apply Post.bind (P := fun s1 => Eff wi s s1 [] false [wab.toNat])
  · split
    · exact eff_upd _ _ _ _
    · exact eff_upd _ _ _ _
    · exact eff_upd _ _ _ _
    · exact eff_upd _ _ _ _
    · exact eff_upd2 _ _ _ _ _
    · exact eff_upd2 _ _ _ _ _
    · exact eff_upd2 _ _ _ _ _
  · intro s1 h1
    exact h1.next pc

/-- the divisor test of DIV / MOD: is a selected number of the A-operand zero -/
def dmZero (md : Modifier) (ira : Instr) : Bool :=
  match md with
  | .a | .ab => ira.a == 0
  | .b | .ba => ira.b == 0
  | .f | .i | .x => ira.a == 0 || ira.b == 0

/-- what DIV / MOD append: the terminate report on a zero divisor, else the push report -/
def dmLog (z : Bool) (wi : Nat) (pc nxt : UInt64) : List Report :=
  if z then [rep .taskTerminate wi pc] else [rep .taskPush wi nxt]

/-- one guarded store -/
theorem eff_dm1 (wi : Nat) (s : Sim) (y : UInt64) (f : Instr → Instr) (wab pc : UInt64) :
    Post (if (y != 0) = true then do
              let s ← s.upd wab f; s.pushNext wi ((pc + 1) % s.m)
          else pure (s.terminate wi pc))
      (fun s' => Eff wi s s' (dmLog (y == 0) wi pc ((pc + 1) % s.m)) (!(y == 0)) [wab.toNat]) := by
  apply Post.ite
  · intro hy
    have hz : (y == 0) = false := by simpa [bne] using hy
    rw [hz]
    exact Post.bind (eff_upd wi s wab f) (fun s1 h1 => h1.next pc)
  · intro hy
    have hz : (y == 0) = true := by simpa [bne] using hy
    rw [hz]
    exact Post.pure ((eff_terminate wi s pc).pend (fun _ h => absurd h List.not_mem_nil))

/-- two guarded stores -/
theorem eff_dm2 (wi : Nat) (s : Sim) (ya yb : UInt64) (f g : Instr → Instr) (wab pc : UInt64) :
    Post (do
        let s ← (if (ya != 0) = true then s.upd wab f else pure s)
        let s ← (if (yb != 0) = true then s.upd wab g else pure s)
        if (ya == 0 || yb == 0) = true then pure (s.terminate wi pc)
        else s.pushNext wi ((pc + 1) % s.m))
      (fun s' => Eff wi s s' (dmLog (ya == 0 || yb == 0) wi pc ((pc + 1) % s.m))
        (!(ya == 0 || yb == 0)) [wab.toNat]) := by
  apply Post.bind (eff_updIf wi s _ wab f)
  intro s1 h1
  apply Post.bind (P := fun s2 => Eff wi s s2 [] false [wab.toNat])
  · exact (eff_updIf wi s1 _ wab g).mono (fun _ h2 =>
      h1.seq h2 rfl rfl (fun _ ha => Or.inr (ha.elim id id)))
  · intro s2 h2
    apply Post.ite
    · intro hz
      rw [hz]
      exact Post.pure (h2.seq (eff_terminate wi s2 pc) rfl rfl
        (fun _ ha => Or.inr (ha.elim id (fun h => absurd h List.not_mem_nil))))
    · intro hz
      rw [Bool.not_eq_true] at hz
      rw [hz]
      exact h2.next pc

theorem eff_divmod (wi : Nat) (s : Sim) (g : UInt64 → UInt64 → UInt64) (ir ira irb : Instr)
    (wab pc : UInt64) :
    Post (s.divmod g ir ira irb wab pc wi)
      (fun s' => Eff wi s s' (dmLog (dmZero ir.md ira) wi pc ((pc + 1) % s.m))
        (!dmZero ir.md ira) [wab.toNat]) := by
  unfold Sim.divmod
  generalize ir.md = md
  cases md <;> dsimp only [dmZero]
  · exact eff_dm2 _ _ _ _ _ _ _ _
  · exact eff_dm1 _ _ _ _ _ _
  · exact eff_dm1 _ _ _ _ _ _
  · exact eff_dm1 _ _ _ _ _ _
  · exact eff_dm1 _ _ _ _ _ _
  · exact eff_dm2 _ _ _ _ _ _ _ _
  · exact eff_dm2 _ _ _ _ _ _ _ _

theorem eff_jmz (wi : Nat) (s : Sim) (ir irb : Instr) (rab pc : UInt64) :
    Post (s.jmz ir irb rab pc wi) (fun s' => Eff wi s s' [] true []) := by
  unfold Sim.jmz
  dsimp only
  exact Post.ite (fun _ => eff_push _ _ _) (fun _ => eff_push _ _ _)

theorem eff_jmn (wi : Nat) (s : Sim) (ir irb : Instr) (rab pc : UInt64) :
    Post (s.jmn ir irb rab pc wi) (fun s' => ∃ t, Eff wi s s' [rep .taskPush wi t] true []) := by
  unfold Sim.jmn
  dsimp only
  exact (Eff.refl wi s).pushNextAny _

theorem eff_skipIf (wi : Nat) (s : Sim) (c : Bool) (pc : UInt64) :
    Post (s.skipIf c pc wi) (fun s' => ∃ t, Eff wi s s' [rep .taskPush wi t] true []) := by
  unfold Sim.skipIf
  exact (Eff.refl wi s).pushNextAny _

theorem eff_djn (wi : Nat) (s : Sim) (ir irb : Instr) (rab wab pc : UInt64) :
    Post (s.djn ir irb rab wab pc wi)
      (fun s' => ∃ t, Eff wi s s' [rep .taskPush wi t] true [wab.toNat]) := by
  unfold Sim.djn
  apply Post.bind (P := fun r => Eff wi s r.1 [] false [wab.toNat])
  · split
    · exact Post.bind (eff_upd _ _ _ _) (fun _ h1 => Post.pure h1)
    · exact Post.bind (eff_upd _ _ _ _) (fun _ h1 => Post.pure h1)
    · exact Post.bind (eff_upd _ _ _ _) (fun _ h1 => Post.pure h1)
    · exact Post.bind (eff_upd _ _ _ _) (fun _ h1 => Post.pure h1)
    · exact Post.bind (eff_upd _ _ _ _) (fun _ h1 => Post.bind (eff_upd _ _ _ _) (fun _ h2 =>
        Post.pure (h1.seq h2 rfl rfl (fun _ ha => Or.inr (ha.elim id id)))))
    · exact Post.bind (eff_upd _ _ _ _) (fun _ h1 => Post.bind (eff_upd _ _ _ _) (fun _ h2 =>
        Post.pure (h1.seq h2 rfl rfl (fun _ ha => Or.inr (ha.elim id id)))))
    · exact Post.bind (eff_upd _ _ _ _) (fun _ h1 => Post.bind (eff_upd _ _ _ _) (fun _ h2 =>
        Post.pure (h1.seq h2 rfl rfl (fun _ ha => Or.inr (ha.elim id id)))))
  · rintro ⟨s1, nz⟩ h1
    dsimp only at h1 ⊢
    exact h1.pushNextAny _

theorem eff_reads (wi : Nat) (s : Sim) (pc rpa rpb : UInt64) :
    Eff wi s (s.reads pc rpa rpb wi)
      [rep .read wi ((pc + rpa) % s.m), rep .read wi ((pc + rpb) % s.m)] false [] := by
  unfold Sim.reads
  exact (eff_report wi s _).seq (eff_report wi _ _) rfl rfl (fun _ ha => ha.elim Or.inr Or.inr)

end ops

/-! ## the opcode dispatch -/

/-- the opcode phase queues no successor: DAT, or DIV / MOD with a zero divisor -/
def noPush (ir ira : Instr) : Bool :=
  match ir.op with
  | .dat => true
  | .div | .mod => dmZero ir.md ira
  | _ => false

/-- what the reports of the opcode phase look like -/
structure OpLogOK (ir ira : Instr) (wi : Nat) (pc wab : UInt64) (L : List Report) : Prop where
  named : ∀ r ∈ L, (r.typ = .write ∨ r.typ = .increment ∨ r.typ = .decrement) →
            Spec.writesTarget ir.op = true ∧ r.addr = wab
  term  : ∀ r ∈ L, r.typ = .taskTerminate → r = rep .taskTerminate wi pc
  iff   : (∃ r ∈ L, r.typ = .taskTerminate) ↔ noPush ir ira = true

section oplog
variable {ir ira : Instr} {wi : Nat} {pc wab : UInt64}

theorem opLog_dat (hn : noPush ir ira = true) :
    OpLogOK ir ira wi pc wab [rep .taskTerminate wi pc] := by
  refine ⟨?_, ?_, ?_⟩
  · simp [rep]
  · simp
  · simp [hn, rep]

/-- a push report (or none) followed by the report naming the target -/
theorem opLog_push_named (t : RType) (ht : t = .write ∨ t = .decrement) (x : UInt64)
    (hw : Spec.writesTarget ir.op = true) (hn : noPush ir ira = false) :
    OpLogOK ir ira wi pc wab [rep .taskPush wi x, rep t wi wab] := by
  refine ⟨?_, ?_, ?_⟩
  · rcases ht with rfl | rfl <;> simp [rep, hw]
  · rcases ht with rfl | rfl <;> simp [rep]
  · rcases ht with rfl | rfl <;> simp [hn, rep]

theorem opLog_term_named (hw : Spec.writesTarget ir.op = true) (hn : noPush ir ira = true) :
    OpLogOK ir ira wi pc wab [rep .taskTerminate wi pc, rep .write wi wab] := by
  refine ⟨?_, ?_, ?_⟩
  · simp [rep, hw]
  · simp [rep]
  · simp [hn, rep]

/-- only push and read reports -/
theorem opLog_plain (L : List Report) (hL : ∀ r ∈ L, r.typ = .taskPush ∨ r.typ = .read)
    (hn : noPush ir ira = false) : OpLogOK ir ira wi pc wab L := by
  refine ⟨?_, ?_, ?_⟩
  · intro r hr ht
    rcases hL r hr with h | h <;> rw [h] at ht <;> simp at ht
  · intro r hr ht
    rcases hL r hr with h | h <;> rw [h] at ht <;> simp at ht
  · rw [hn]
    constructor
    · rintro ⟨r, hr, ht⟩
      rcases hL r hr with h | h <;> rw [h] at ht <;> simp at ht
    · intro h; cases h

end oplog

theorem eff_opPhase (wi : Nat) (s : Sim) (ir ira irb : Instr) (pc rpa rpb wpb : UInt64) :
    Post (s.opPhase ir ira irb pc rpa rpb wpb wi) (fun s' =>
      ∃ L, Eff wi s s' L (!noPush ir ira) [] ∧ OpLogOK ir ira wi pc ((pc + wpb) % s.m) L) := by
  -- an op function followed by the report naming the write target
  have named : ∀ (t : RType), (t = .write ∨ t = .decrement) →
      ∀ {x : Except Panic Sim} {L : List Report} {p : Bool},
      Post x (fun s1 => Eff wi s s1 L p [((pc + wpb) % s.m).toNat]) →
      Post (do let s1 ← x; pure (s1.report (rep t wi ((pc + wpb) % s.m))))
        (fun s' => Eff wi s s' (L ++ [rep t wi ((pc + wpb) % s.m)]) p []) := by
    intro t ht x L p hx
    refine Post.bind hx (fun s1 h1 => Post.pure (h1.seq (eff_report wi s1 _) rfl (by simp) ?_))
    intro a ha
    left
    rw [namedOf_append, namedOf_rep t (ht.elim Or.inl (fun h => Or.inr (Or.inr h)))]
    simp only [List.mem_append, List.mem_singleton]
    exact Or.inr (ha.elim (by simp) (by simp))
  have rds : ∀ {x : Except Panic Sim},
      Post x (fun s1 => ∃ t, Eff wi s s1 [rep .taskPush wi t] true []) →
      Post (do let s1 ← x; pure (s1.reads pc rpa rpb wi)) (fun s' =>
        ∃ L, Eff wi s s' L true [] ∧ ∀ r ∈ L, r.typ = .taskPush ∨ r.typ = .read) := by
    intro x hx
    refine Post.bind hx (fun s1 h1 => Post.pure ?_)
    obtain ⟨t, h1⟩ := h1
    refine ⟨_, h1.seq (eff_reads wi s1 pc rpa rpb) rfl rfl (fun _ ha => ha.elim Or.inr Or.inr), ?_⟩
    simp [rep]
  unfold Sim.opPhase
  dsimp only
  cases hop : ir.op <;> dsimp only
  case dat =>
    have hn : noPush ir ira = true := by simp [noPush, hop]
    rw [hn]
    exact Post.pure ⟨_, eff_terminate wi s pc, opLog_dat hn⟩
  case mov =>
    have hn : noPush ir ira = false := by simp [noPush, hop]
    rw [hn]
    exact (named .write (Or.inl rfl) (eff_mov wi s ir ira _ pc)).mono (fun _ h =>
      ⟨_, h, opLog_push_named .write (Or.inl rfl) _ (by rw [hop]; rfl) hn⟩)
  case add =>
    have hn : noPush ir ira = false := by simp [noPush, hop]
    rw [hn]
    exact (named .write (Or.inl rfl) (eff_arith wi s _ ir ira irb _ pc)).mono (fun _ h =>
      ⟨_, h, opLog_push_named .write (Or.inl rfl) _ (by rw [hop]; rfl) hn⟩)
  case sub =>
    have hn : noPush ir ira = false := by simp [noPush, hop]
    rw [hn]
    exact (named .write (Or.inl rfl) (eff_arith wi s _ ir ira irb _ pc)).mono (fun _ h =>
      ⟨_, h, opLog_push_named .write (Or.inl rfl) _ (by rw [hop]; rfl) hn⟩)
  case mul =>
    have hn : noPush ir ira = false := by simp [noPush, hop]
    rw [hn]
    exact (named .write (Or.inl rfl) (eff_arith wi s _ ir ira irb _ pc)).mono (fun _ h =>
      ⟨_, h, opLog_push_named .write (Or.inl rfl) _ (by rw [hop]; rfl) hn⟩)
  case div =>
    have hn : noPush ir ira = dmZero ir.md ira := by simp [noPush, hop]
    refine (named .write (Or.inl rfl) (eff_divmod wi s _ ir ira irb _ pc)).mono (fun _ h => ?_)
    rw [hn]
    refine ⟨_, h, ?_⟩
    cases hz : dmZero ir.md ira
    · exact opLog_push_named .write (Or.inl rfl) _ (by rw [hop]; rfl) (hn.trans hz)
    · exact opLog_term_named (by rw [hop]; rfl) (hn.trans hz)
  case mod =>
    have hn : noPush ir ira = dmZero ir.md ira := by simp [noPush, hop]
    refine (named .write (Or.inl rfl) (eff_divmod wi s _ ir ira irb _ pc)).mono (fun _ h => ?_)
    rw [hn]
    refine ⟨_, h, ?_⟩
    cases hz : dmZero ir.md ira
    · exact opLog_push_named .write (Or.inl rfl) _ (by rw [hop]; rfl) (hn.trans hz)
    · exact opLog_term_named (by rw [hop]; rfl) (hn.trans hz)
  case jmp =>
    have hn : noPush ir ira = false := by simp [noPush, hop]
    rw [hn]
    exact (eff_push wi s _).mono (fun _ h => ⟨_, h, opLog_plain [] (by simp) hn⟩)
  case jmz =>
    have hn : noPush ir ira = false := by simp [noPush, hop]
    rw [hn]
    exact (eff_jmz wi s ir irb _ pc).mono (fun _ h => ⟨_, h, opLog_plain [] (by simp) hn⟩)
  case jmn =>
    have hn : noPush ir ira = false := by simp [noPush, hop]
    rw [hn]
    exact (eff_jmn wi s ir irb _ pc).mono (fun _ ⟨t, h⟩ =>
      ⟨_, h, opLog_plain _ (by simp [rep]) hn⟩)
  case djn =>
    have hn : noPush ir ira = false := by simp [noPush, hop]
    rw [hn]
    refine Post.bind (eff_djn wi s ir irb _ _ pc) (fun s1 ⟨t, h1⟩ => Post.pure ?_)
    refine ⟨_, h1.seq (eff_report wi s1 _) rfl rfl ?_,
      opLog_push_named .decrement (Or.inr rfl) t (by rw [hop]; rfl) hn⟩
    intro a ha
    left
    rw [namedOf_append, namedOf_rep .decrement (Or.inr (Or.inr rfl))]
    simp only [List.mem_append, List.mem_singleton]
    exact Or.inr (ha.elim (by simp) (by simp))
  case cmp =>
    have hn : noPush ir ira = false := by simp [noPush, hop]
    rw [hn]
    exact (rds (eff_skipIf wi s _ pc)).mono (fun _ ⟨L, h, hL⟩ => ⟨L, h, opLog_plain L hL hn⟩)
  case seq =>
    have hn : noPush ir ira = false := by simp [noPush, hop]
    rw [hn]
    exact (rds (eff_skipIf wi s _ pc)).mono (fun _ ⟨L, h, hL⟩ => ⟨L, h, opLog_plain L hL hn⟩)
  case sne =>
    have hn : noPush ir ira = false := by simp [noPush, hop]
    rw [hn]
    exact (rds (eff_skipIf wi s _ pc)).mono (fun _ ⟨L, h, hL⟩ => ⟨L, h, opLog_plain L hL hn⟩)
  case slt =>
    have hn : noPush ir ira = false := by simp [noPush, hop]
    rw [hn]
    exact (rds (eff_skipIf wi s _ pc)).mono (fun _ ⟨L, h, hL⟩ => ⟨L, h, opLog_plain L hL hn⟩)
  case spl =>
    have hn : noPush ir ira = false := by simp [noPush, hop]
    rw [hn]
    refine Post.bind (eff_push wi s _) (fun s1 h1 => (eff_push wi s1 _).mono (fun _ h2 => ?_))
    exact ⟨_, h1.seq h2 rfl rfl (fun _ ha => ha.elim Or.inr Or.inr), opLog_plain [] (by simp) hn⟩
  case nop =>
    have hn : noPush ir ira = false := by simp [noPush, hop]
    rw [hn]
    exact (eff_push wi s _).mono (fun _ h => ⟨_, h, opLog_plain [] (by simp) hn⟩)

/-! ## exec -/

/-- what the reports of one whole task look like, given the queue effect `p` -/
structure ExecLogOK (wi : Nat) (pc : UInt64) (L : List Report) (p : Bool) : Prop where
  term : ∀ r ∈ L, r.typ = .taskTerminate → r = rep .taskTerminate wi pc
  iff  : (∃ r ∈ L, r.typ = .taskTerminate) ↔ p = false

/-- the effect of one task: every changed cell is named, and a terminate report is appended
    exactly when nothing is pushed -/
theorem eff_exec (wi : Nat) (s : Sim) (pc : UInt64) :
    Post (s.exec pc wi) (fun s' => ∃ L p, Eff wi s s' L p [] ∧ ExecLogOK wi pc L p) := by
  rw [exec_eq]
  dsimp only
  apply Post.ite
  · intro _; exact Post.error
  intro _
  apply Post.bind (Post.triv _); intro ir _
  apply Post.bind (eff_aOperand wi s pc ir); rintro ⟨s1, rpa, pip⟩ h1
  dsimp only at h1 ⊢
  apply Post.bind (Post.triv _); intro ira _
  apply Post.bind (eff_aPost wi s1 ir pip); intro s2 h2
  apply Post.bind (eff_bOperand wi s2 pc ir pip); rintro ⟨s3, rpb, wpb, pip2⟩ h3
  dsimp only at h3 ⊢
  apply Post.bind (Post.triv _); intro irb _
  apply Post.bind (eff_bPost wi s3 ir pip2); intro s4 h4
  refine (eff_opPhase wi s4 ir ira irb pc rpa rpb wpb).mono ?_
  rintro s' ⟨Lop, hop, hlog⟩
  -- the operand phases only append decrement / increment reports
  have hQ : EffQ wi s s4 (fun x => x.typ = .decrement ∨ x.typ = .increment) :=
    (((h1.mono (fun x hx => by rw [hx.1]; exact Or.inl rfl)).trans
      (h2.mono (fun x hx => by rw [hx.1]; exact Or.inr rfl))).trans
      (h3.mono (fun x hx => by rw [hx.1]; exact Or.inl rfl))).trans
      (h4.mono (fun x hx => by rw [hx.1]; exact Or.inr rfl))
  obtain ⟨L0, h0, hL0⟩ := hQ
  have hnt : ∀ r ∈ L0, r.typ ≠ .taskTerminate := by
    intro r hr ht
    rcases hL0 r hr with h | h <;> rw [h] at ht <;> cases ht
  refine ⟨L0 ++ Lop, !noPush ir ira,
    h0.seq hop rfl rfl (fun _ ha => ha.elim Or.inr Or.inr), ?_, ?_⟩
  · intro r hr ht
    rcases List.mem_append.mp hr with h | h
    · exact absurd ht (hnt r h)
    · exact hlog.term r h ht
  · rw [Bool.not_eq_false', ← hlog.iff]
    constructor
    · rintro ⟨r, hr, ht⟩
      rcases List.mem_append.mp hr with h | h
      · exact absurd ht (hnt r h)
      · exact ⟨r, h, ht⟩
    · rintro ⟨r, hr, ht⟩
      exact ⟨r, List.mem_append_right _ hr, ht⟩

end Gmars
