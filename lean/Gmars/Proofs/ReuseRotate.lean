/-
  C12 + C13: the rotated battle may be played in a REUSED simulator.  After `Reset`, a simulator
  with any history is related to `rotApi k` of the fresh reference state, for every shift `k`
  (rotating an empty core with no spawned warriors changes nothing), so it can serve as the
  `s₂` of `model_spawn_rotate` / `model_run_rotate`.
-/
import Gmars.Proofs.ApiRel
import Gmars.Proofs.SpecRotate

namespace Gmars
open Spec

/-- rotating a blank core gives the blank core (any size, also 0) -/
theorem rot_replicate_default (k M : Nat) :
    rot k (List.replicate M (default : SInstr)) = List.replicate M default := by
  apply Core.ext (by simp)
  intro a ha
  have ha' : a < M := by simpa using ha
  have hM : 0 < M := by omega
  rw [rot_at_lt k _ (by simpa using ha'), Core.at_eq_getElem _ (by simpa using unsh_lt hM k a),
    Core.at_eq_getElem _ (by simpa using ha')]
  simp

/-- **Rotating a fresh simulator changes nothing**: empty core, no queues. No hypothesis. -/
theorem rotApi_fresh (k M R W P C : Nat) (sig : List (List SInstr × Nat)) :
    rotApi k (Spec.Api.freshWith M R W P C sig) = Spec.Api.freshWith M R W P C sig := by
  rw [Api.freshWith_eq]
  simp only [rotApi, rot_replicate_default, List.map_map]
  congr 1

/-- **A reset simulator is related to the rotated fresh reference state, for every shift.** -/
theorem reset_related_to_rotated_fresh {s : Sim} {a : Spec.Api} (k : Nat) (h : Rel s a)
    (hd : DataRel s a) :
    Rel s.reset (rotApi k (Spec.Api.freshWith a.M a.R a.W a.P a.C a.sig)) ∧
      DataRel s.reset (rotApi k (Spec.Api.freshWith a.M a.R a.W a.P a.C a.sig)) := by
  rw [rotApi_fresh]
  obtain ⟨a0, rfl, h1, h2, _⟩ := reset_fresh h hd
  exact ⟨h1, h2⟩

/-- `Reset` keeps well-formedness (no `CodeOK` needed, unlike `reset_spec`) -/
theorem reset_wf_noCode {s : Sim} (hwf : s.WF) : s.reset.WF := by
  have hmpos : 0 < s.m.toNat := by have := hwf.m3; omega
  refine ⟨?_, hwf.m3, hwf.rl, hwf.wl, hwf.procs, hwf.cycles, ?_, ?_, hwf.widx, ?_, ?_, ?_⟩
  · simp only [Sim.reset, Sim.report, Array.size_replicate]
  · intro i hi
    simp only [Sim.reset, Sim.report, Array.getElem_replicate]
    exact default_fields _ hmpos
  · simp only [Sim.reset, Sim.report, Array.size_map]
    exact hwf.count
  · intro i hi
    simp only [Sim.reset, Sim.report, Array.size_map] at hi
    simp only [Sim.reset, Sim.report, Array.getElem_map]
    have h := hwf.warriors i hi
    unfold Sim.WarriorOK at h ⊢
    refine ⟨h.1, ?_⟩
    have h2 := h.2
    dsimp only
    cases hpq : s.warriors[i].pq with
    | none => rfl
    | some q =>
      rw [hpq] at h2
      dsimp only at h2 ⊢
      exact ⟨h2.1, h2.2.1, h2.2.2.1, fun h => (by cases h), fun h => (by cases h)⟩
  · rw [Sim.aliveCount_eq]
    simp only [Sim.reset, Sim.report, Array.toList_map, List.countP_map]
    have : (isAlive ∘ fun w : Warrior => { w with state := WState.added }) = fun _ => false := by
      funext w; simp [isAlive]
    rw [this]
    simp
  · show (0 : UInt64) ≤ s.maxCycles
    rw [UInt64.le_iff_toNat_le]; simp

/-- the hypotheses of the scheduler / rotation theorems survive `Reset` -/
theorem reset_pre {s : Sim} (p : Pre s) : Pre s.reset :=
  ⟨reset_wf_noCode p.wf, p.m32, p.rl, p.wl⟩

/-- (already `reset_startsOK` in ApiRel) -/
theorem reset_startsOK' {s : Sim} (h : StartsOK s) : StartsOK s.reset := reset_startsOK h

/-- everything `model_spawn_rotate` / `model_run_rotate` ask of their `s₂`, for a reused simulator -/
theorem reset_serves_as_rotated {s : Sim} {a : Spec.Api} (k : Nat) (p : Pre s) (hs : StartsOK s)
    (h : Rel s a) (hd : DataRel s a) :
    Pre s.reset ∧ StartsOK s.reset ∧
      Rel s.reset (rotApi k (Spec.Api.freshWith a.M a.R a.W a.P a.C a.sig)) ∧
      DataRel s.reset (rotApi k (Spec.Api.freshWith a.M a.R a.W a.P a.C a.sig)) :=
  ⟨reset_pre p, reset_startsOK hs, reset_related_to_rotated_fresh k h hd⟩


end Gmars
