/-
  C09 (loader half) and C16: the main round-trip theorems.

  * `load_print`   — `parseLoadFile` accepts the canonical load-file text `Spec.printLoad`
                     of a warrior and returns exactly the warrior.
  * `load_printG`  — (in `RoundTripA.lean`) the same for every layout with arbitrary
                     blanks/tabs between the fields (`printLoadG`).
  * `listing_roundtrip` — the listing printed by `LoadCode()` read back with the pMARS
                     conventions denotes the warrior.

  Deviation from the requested statement of `load_print`: the extra hypothesis
  `start < 2^31`. The loader reads the `ORG`/`END` argument with `ParseInt(_, 10, 32)`, so
  a load file with a larger entry point is rejected (`load_print_large_start`); the
  requested statement is false for a warrior with more than `2^31` instructions.
-/
import Gmars.Proofs.RoundTripA
import Gmars.Proofs.RoundTripB

namespace Gmars.RoundTrip
open Gmars Gmars.GoStr

/-- **C09, loader half.** -/
theorem load_print (cfg : Config) (code : List Instr) (start : Nat)
    (hM0 : 0 < cfg.coreSize.toNat) (hM : cfg.coreSize.toNat < 2 ^ 63)
    (hf : ∀ i ∈ code, i.a.toNat < cfg.coreSize.toNat ∧ i.b.toNat < cfg.coreSize.toNat)
    (hstart : start < code.length)
    (hl : (cfg.mode == .icws88) = true → ∀ i ∈ code, Spec.Legal88 i = true)
    (hs31 : start < 2 ^ 31) :
    parseLoadFile cfg (Spec.printLoad (cfg.mode == .icws88) code start) =
      .ok (some { name := "Unknown", author := "Anonymous", strategy := "",
                  code := code.toArray, start := (start : Int) }) := by
  have _ := hM0
  rw [printLoad_eq]
  have h := load_printG cfg {} (code.map (fun i => ({}, i))) start
    canonDir_ok hM
    (by
      intro p hp
      obtain ⟨i, hi, rfl⟩ := List.mem_map.1 hp
      exact ⟨canonGaps_ok, UInt64.lt_iff_toNat_lt.2 (hf i hi).1, UInt64.lt_iff_toNat_lt.2 (hf i hi).2,
        fun h => hl h i hi⟩)
    (by simpa using hstart) hs31
  simpa [List.map_map, Function.comp_def] using h

/-- the requested statement of `load_print` without `start < 2^31` is false: with a '94
    configuration every canonical load file whose entry point is `≥ 2^31` is rejected -/
theorem load_print_large_start (cfg : Config) (code : List Instr) (start : Nat)
    (h94 : (cfg.mode == .icws88) = false) (hs : 2 ^ 31 ≤ start) :
    parseLoadFile cfg (Spec.printLoad false code start) = .ok none := by
  rw [printLoad_eq]
  apply load_printG_large_start cfg {} _ start
    canonDir_ok _ h94 hs
  intro p hp
  obtain ⟨i, _, rfl⟩ := List.mem_map.1 hp
  exact canonGaps_ok

/-- **C16.** (The bounds on `m` and on the fields are not needed, see `listing_roundtrip_gen`.) -/
theorem listing_roundtrip (m : UInt64) (legacy : Bool) (w : WarriorData)
    (_hm0 : 0 < m.toNat) (_hm : m.toNat < 2 ^ 63)
    (hs : 0 ≤ w.start) (hlt : w.start < w.code.size)
    (_hf : ∀ i ∈ w.code.toList, i.a.toNat < m.toNat ∧ i.b.toNat < m.toNat)
    (hl : legacy = true → ∀ i ∈ w.code.toList, Spec.Legal88 i = true) :
    ∃ t, Spec.readText (loadCode m legacy w) = some t ∧
      Spec.denotes m.toNat t w.code.toList w.start = true :=
  listing_roundtrip_gen m legacy w hs hlt hl

end Gmars.RoundTrip

