/-
  C09, loader half: the canonical load-file text of a warrior (`Spec.printLoad`), and more
  generally any layout of it with extra blanks between the fields, is accepted by the model
  of `ParseLoadFile` and yields exactly the warrior.
-/
import Gmars.Model.Load
import Gmars.Spec.LoadText
import Gmars.Proofs.LoadLines

namespace Gmars.RoundTrip
open Gmars Gmars.GoStr

/-! ## the words of a line -/

/-- the mnemonic token -/
def opWord (legacy : Bool) (i : Instr) : Str :=
  i.op.name.toList ++ (if legacy then [] else '.' :: i.md.name.toList)

theorem opWord94_low (op : Op) (md : Modifier) : LowWord (op.name.toList ++ '.' :: md.name.toList) := by
  cases op <;> cases md <;> refine ⟨by decide, by decide⟩

theorem opWord88_low (op : Op) : LowWord op.name.toList := by
  cases op <;> refine ⟨by decide, by decide⟩

theorem getOp94_opWord (op : Op) (md : Modifier) :
    getOp94 (toLower (op.name.toList ++ '.' :: md.name.toList)) = some (op, md) := by
  cases op <;> cases md <;> decide

theorem getOpCode88_opWord (op : Op) (am bm : Mode) (md : Modifier)
    (h : Spec.implied88 op am bm = some md) :
    getOpCode88 (toLower op.name.toList) = some op ∧ getAddressMode88 [am.sym] = some am ∧
      getAddressMode88 [bm.sym] = some bm ∧ getOpModeAndValidate88 op am bm = some md := by
  have key : (Spec.implied88 op am bm).isSome = true →
      getOpCode88 (toLower op.name.toList) = some op ∧ getAddressMode88 [am.sym] = some am ∧
        getAddressMode88 [bm.sym] = some bm ∧
        getOpModeAndValidate88 op am bm = Spec.implied88 op am bm := by
    cases op <;> cases am <;> cases bm <;> decide
  have := key (by rw [h]; rfl)
  rw [h] at this
  exact this

theorem symWord_low (m : Mode) : LowWord [m.sym] := by
  cases m <;> refine ⟨by decide, by decide⟩

theorem toLower_sym (m : Mode) : toLower [m.sym] = [m.sym] := by cases m <;> decide

theorem getAddressMode_sym (m : Mode) : getAddressMode [m.sym] = some m := by cases m <;> decide

theorem digit_lowWord_char {c : Char} (h : isDigit c = true) :
    c ≠ ';' ∧ lowerChar c ≠ ';' ∧ lowerChar c ≠ ',' ∧ isAsciiSpace (lowerChar c) = false := by
  rw [lowerChar_digit h]
  refine ⟨?_, ?_, ?_, digit_not_space h⟩ <;> (intro e; subst e; revert h; decide)

theorem digits_low (n : Nat) : LowWord (Nat.toDigits 10 n) :=
  ⟨toDigits_ne_nil n, fun c hc => digit_lowWord_char (toDigits_all_isDigit n c hc)⟩

theorem toLower_digits (n : Nat) : toLower (Nat.toDigits 10 n) = Nat.toDigits 10 n := by
  unfold toLower
  conv => rhs; rw [← List.map_id (Nat.toDigits 10 n)]
  apply List.map_congr_left
  intro c hc
  exact lowerChar_digit (toDigits_all_isDigit n c hc)

theorem parseAddress_digits (a M : UInt64) (hlt : a < M) (hM : M.toNat < 2 ^ 63) :
    parseAddress (Nat.toDigits 10 a.toNat) M = .ok (some a) := by
  have ha : a.toNat < M.toNat := UInt64.lt_iff_toNat_lt.1 hlt
  have hM0 : ¬ (M = 0) := by intro e; subst e; simp at ha
  unfold parseAddress
  rw [parseInt_toDigits _ 64 (by omega)]
  have e1 : Int.tmod (a.toNat : Int) (M.toNat : Int) = (a.toNat : Int) :=
    Int.tmod_eq_of_lt (by omega) (by omega)
  have e2 : ¬ ((a.toNat : Int) < 0) := by omega
  simp [hM0, e1, e2]

/-! ## layouts with arbitrary blanks -/

/-- blanks: white space other than the newline -/
def Blanks (g : Str) : Prop := ∀ c ∈ g, isAsciiSpace c = true ∧ c ≠ '\n'

/-- the blank strings of an instruction line, in order: before the mnemonic, mnemonic/A-mode,
    A-mode/A-number, A-number/comma, comma/B-mode, B-mode/B-number, after the B-number -/
structure Gaps where
  g0 : Str := []
  g1 : Str := [' ']
  g2 : Str := [' ']
  g3 : Str := []
  g4 : Str := [' ']
  g5 : Str := [' ']
  g6 : Str := []

/-- the loader needs the mnemonic, the mode characters and the numbers to be separate tokens -/
structure Gaps.ok (g : Gaps) : Prop where
  b0 : Blanks g.g0
  b1 : Blanks g.g1
  b2 : Blanks g.g2
  b3 : Blanks g.g3
  b4 : Blanks g.g4
  b5 : Blanks g.g5
  b6 : Blanks g.g6
  n1 : g.g1 ≠ []
  n2 : g.g2 ≠ []
  n5 : g.g5 ≠ []

/-- the blank strings of an `ORG n` / `END n` line: before, between, after -/
structure DirGaps where
  d0 : Str := []
  d1 : Str := [' ']
  d2 : Str := []

structure DirGaps.ok (d : DirGaps) : Prop where
  b0 : Blanks d.d0
  b1 : Blanks d.d1
  b2 : Blanks d.d2
  n1 : d.d1 ≠ []

def instrBody (legacy : Bool) (g : Gaps) (i : Instr) : Str :=
  g.g0 ++ opWord legacy i ++ g.g1 ++ [i.am.sym] ++ g.g2 ++ Nat.toDigits 10 i.a.toNat ++ g.g3 ++ [','] ++
    g.g4 ++ [i.bm.sym] ++ g.g5 ++ Nat.toDigits 10 i.b.toNat ++ g.g6

def dirBody (d : DirGaps) (kw : Str) (n : Nat) : Str :=
  d.d0 ++ kw ++ d.d1 ++ Nat.toDigits 10 n ++ d.d2

/-- load-file text with per-line blank layout: `ORG n` first ('94) or `END n` last ('88) -/
def printLoadG (legacy : Bool) (d : DirGaps) (lines : List (Gaps × Instr)) (start : Nat) : Str :=
  (if legacy then [] else dirBody d "ORG".toList start ++ ['\n']) ++
  (lines.map (fun p => instrBody legacy p.1 p.2 ++ ['\n'])).flatten ++
  (if legacy then dirBody d "END".toList start ++ ['\n'] else [])

theorem blanks_nil : Blanks [] := by intro c hc; cases hc
theorem blanks_one : Blanks [' '] := by unfold Blanks; decide

theorem canonGaps_ok : ({} : Gaps).ok :=
  ⟨blanks_nil, blanks_one, blanks_one, blanks_nil, blanks_one, blanks_one, blanks_nil,
    by decide, by decide, by decide⟩

theorem canonDir_ok : ({} : DirGaps).ok := ⟨blanks_nil, blanks_one, blanks_nil, by decide⟩

/-- the canonical printer is the layout with single blanks -/
theorem printLoad_eq (legacy : Bool) (code : List Instr) (start : Nat) :
    Spec.printLoad legacy code start = printLoadG legacy {} (code.map (fun i => ({}, i))) start := by
  have e1 : " ".toList = [' '] := rfl
  have e2 : ", ".toList = [',', ' '] := rfl
  have e3 : "\n".toList = ['\n'] := rfl
  have e4 : "ORG ".toList = "ORG".toList ++ [' '] := rfl
  have e5 : "END ".toList = "END".toList ++ [' '] := rfl
  have hi : ∀ i : Instr, Spec.printInstr legacy i = instrBody legacy {} i ++ ['\n'] := by
    intro i
    simp only [Spec.printInstr, instrBody, opWord, e1, e2, e3, List.append_assoc,
      List.nil_append, List.cons_append, List.append_nil]
  have hm : code.map (Spec.printInstr legacy) =
      (code.map (fun i => (({} : Gaps), i))).map (fun p => instrBody legacy p.1 p.2 ++ ['\n']) := by
    rw [List.map_map]
    exact List.map_congr_left (fun i _ => hi i)
  unfold Spec.printLoad printLoadG
  rw [hm]
  cases legacy
  · simp only [dirBody, e3, e4, List.append_assoc, List.nil_append, Bool.false_eq_true, if_false,
      List.append_nil]
  · simp only [dirBody, e3, e5, List.append_assoc, List.nil_append, if_true, List.append_nil]

theorem blanks_sep {g : Str} (h : Blanks g) : ∀ c ∈ g, SepChar c := fun c hc => .inl (h c hc).1

theorem lowSep_of {g : Str} (h : ∀ c ∈ g, SepChar c) (hne : g ≠ []) : LowSep g := ⟨hne, h⟩

theorem sep_append {g h : Str} (hg : ∀ c ∈ g, SepChar c) (hh : ∀ c ∈ h, SepChar c) :
    ∀ c ∈ g ++ h, SepChar c := by
  intro c hc
  rcases List.mem_append.1 hc with hc | hc
  · exact hg c hc
  · exact hh c hc

theorem sep_nl : ∀ c ∈ ['\n'], SepChar c := by
  intro c hc; simp only [List.mem_singleton] at hc; subst hc; exact .inl (by decide)

theorem sep_comma (g : Str) (hg : ∀ c ∈ g, SepChar c) : ∀ c ∈ ',' :: g, SepChar c := by
  intro c hc
  rcases List.mem_cons.1 hc with hc | hc
  · exact .inr hc
  · exact hg c hc

theorem instrLine_layout (legacy : Bool) (g : Gaps) (i : Instr) :
    instrBody legacy g i ++ ['\n'] =
      layout g.g0 [(opWord legacy i, g.g1), ([i.am.sym], g.g2),
        (Nat.toDigits 10 i.a.toNat, g.g3 ++ ',' :: g.g4), ([i.bm.sym], g.g5),
        (Nat.toDigits 10 i.b.toNat, g.g6 ++ ['\n'])] := by
  simp [instrBody, layout]

theorem dirLine_layout (d : DirGaps) (kw : Str) (n : Nat) :
    dirBody d kw n ++ ['\n'] = layout d.d0 [(kw, d.d1), (Nat.toDigits 10 n, d.d2 ++ ['\n'])] := by
  simp [dirBody, layout]

theorem opWord_low (legacy : Bool) (i : Instr) : LowWord (opWord legacy i) := by
  cases legacy
  · exact opWord94_low i.op i.md
  · simpa [opWord] using opWord88_low i.op

theorem instrLine_parts (legacy : Bool) (g : Gaps) (i : Instr) (hg : g.ok) :
    ∀ p ∈ [(opWord legacy i, g.g1), ([i.am.sym], g.g2),
        (Nat.toDigits 10 i.a.toNat, g.g3 ++ ',' :: g.g4), ([i.bm.sym], g.g5),
        (Nat.toDigits 10 i.b.toNat, g.g6 ++ ['\n'])], LowWord p.1 ∧ LowSep p.2 := by
  intro p hp
  simp only [List.mem_cons, List.not_mem_nil, or_false] at hp
  rcases hp with rfl | rfl | rfl | rfl | rfl
  · exact ⟨opWord_low legacy i, lowSep_of (blanks_sep hg.b1) hg.n1⟩
  · exact ⟨symWord_low _, lowSep_of (blanks_sep hg.b2) hg.n2⟩
  · exact ⟨digits_low _, lowSep_of (sep_append (blanks_sep hg.b3) (sep_comma _ (blanks_sep hg.b4))) (by simp)⟩
  · exact ⟨symWord_low _, lowSep_of (blanks_sep hg.b5) hg.n5⟩
  · exact ⟨digits_low _, lowSep_of (sep_append (blanks_sep hg.b6) sep_nl) (by simp)⟩

theorem instrLine_comma (legacy : Bool) (g : Gaps) (i : Instr) : ',' ∈ instrBody legacy g i ++ ['\n'] := by
  simp [instrBody]

theorem line94_instrLine (M : UInt64) (st : LoadState) (g : Gaps) (i : Instr) (hg : g.ok)
    (ha : i.a < M) (hb : i.b < M) (hM : M.toNat < 2 ^ 63) :
    line94 M st (instrBody false g i ++ ['\n']) = .ok (.cont { st with code := st.code.push i }) := by
  have hparts := instrLine_parts false g i hg
  have hsemi := layout_no_semi g.g0 _ (blanks_sep hg.b0) hparts
  have hf := fields_norm_layout g.g0 _ (blanks_sep hg.b0) hparts
  rw [← instrLine_layout] at hsemi hf
  simp only [List.map_cons, List.map_nil] at hf
  have := line94_instr M st _ _ _ _ _ _ i.op i.md i.am i.bm i.a i.b (head_ne_semi hsemi)
    (lower_no_semi hsemi) (lower_has_comma (instrLine_comma false g i)) hf
    (getOp94_opWord i.op i.md) (by rw [toLower_sym]; exact getAddressMode_sym _)
    (by rw [toLower_digits]; exact parseAddress_digits _ _ ha hM)
    (by rw [toLower_sym]; exact getAddressMode_sym _)
    (by rw [toLower_digits]; exact parseAddress_digits _ _ hb hM)
  rw [this]

theorem line88_instrLine (M : UInt64) (st : LoadState) (g : Gaps) (i : Instr) (hg : g.ok)
    (ha : i.a < M) (hb : i.b < M) (hM : M.toNat < 2 ^ 63) (hl : Spec.Legal88 i = true) :
    line88 M st (instrBody true g i ++ ['\n']) = .ok (.cont { st with code := st.code.push i }) := by
  have hparts := instrLine_parts true g i hg
  have hsemi := layout_no_semi g.g0 _ (blanks_sep hg.b0) hparts
  have hf := fields_norm_layout g.g0 _ (blanks_sep hg.b0) hparts
  rw [← instrLine_layout] at hsemi hf
  simp only [List.map_cons, List.map_nil] at hf
  have h88 := getOpCode88_opWord i.op i.am i.bm i.md (by simpa [Spec.Legal88] using hl)
  have := line88_instr M st _ _ _ _ _ _ i.op i.md i.am i.bm i.a i.b (head_ne_semi hsemi)
    (lower_no_semi hsemi) (lower_has_comma (instrLine_comma true g i)) hf
    (by simpa [opWord] using h88.1) (by rw [toLower_sym]; exact h88.2.1)
    (by rw [toLower_digits]; exact parseAddress_digits _ _ ha hM)
    (by rw [toLower_sym]; exact h88.2.2.1)
    (by rw [toLower_digits]; exact parseAddress_digits _ _ hb hM) h88.2.2.2
  rw [this]

/-! ## directive lines -/

theorem kw_low : LowWord "ORG".toList ∧ LowWord "END".toList := by
  refine ⟨⟨by decide, by decide⟩, ⟨by decide, by decide⟩⟩

theorem dirLine_parts (d : DirGaps) (kw : Str) (n : Nat) (hd : d.ok) (hk : LowWord kw) :
    ∀ p ∈ [(kw, d.d1), (Nat.toDigits 10 n, d.d2 ++ ['\n'])], LowWord p.1 ∧ LowSep p.2 := by
  intro p hp
  simp only [List.mem_cons, List.not_mem_nil, or_false] at hp
  rcases hp with rfl | rfl
  · exact ⟨hk, lowSep_of (blanks_sep hd.b1) hd.n1⟩
  · exact ⟨digits_low _, lowSep_of (sep_append (blanks_sep hd.b2) sep_nl) (by simp)⟩

theorem line94_orgLine (M : UInt64) (st : LoadState) (d : DirGaps) (n : Nat) (hd : d.ok)
    (hn : n < 2 ^ 31) :
    line94 M st (dirBody d "ORG".toList n ++ ['\n']) = .ok (.cont { st with start := (n : Int) }) := by
  have hparts := dirLine_parts d "ORG".toList n hd kw_low.1
  have hsemi := layout_no_semi d.d0 _ (blanks_sep hd.b0) hparts
  have hf := fields_norm_layout d.d0 _ (blanks_sep hd.b0) hparts
  rw [← dirLine_layout] at hsemi hf
  simp only [List.map_cons, List.map_nil, toLower_digits] at hf
  exact line94_org M st _ _ n (head_ne_semi hsemi) (lower_no_semi hsemi) hf
    (parseInt_toDigits n 32 (by omega))

theorem line88_endLine (M : UInt64) (st : LoadState) (d : DirGaps) (n : Nat) (hd : d.ok)
    (hn : n < 2 ^ 31) (hle : n ≤ st.code.size) :
    line88 M st (dirBody d "END".toList n ++ ['\n']) = .ok (.stop { st with start := (n : Int) }) := by
  have hparts := dirLine_parts d "END".toList n hd kw_low.2
  have hsemi := layout_no_semi d.d0 _ (blanks_sep hd.b0) hparts
  have hf := fields_norm_layout d.d0 _ (blanks_sep hd.b0) hparts
  rw [← dirLine_layout] at hsemi hf
  simp only [List.map_cons, List.map_nil, toLower_digits] at hf
  exact line88_end M st _ _ n (head_ne_semi hsemi) (lower_no_semi hsemi) hf
    (parseInt_toDigits n 32 (by omega)) hle

/-! ## no newline inside a line body -/

theorem lowWord_no_nl {w : Str} (h : LowWord w) : ∀ c ∈ w, c ≠ '\n' := by
  intro c hc e
  subst e
  have := (h.2 _ hc).2.2.2
  revert this; decide

theorem instrBody_no_nl (legacy : Bool) (g : Gaps) (i : Instr) (hg : g.ok) :
    ∀ c ∈ instrBody legacy g i, c ≠ '\n' := by
  intro c hc
  simp only [instrBody, List.mem_append, List.mem_singleton] at hc
  rcases hc with (((((((((((hc | hc) | hc) | hc) | hc) | hc) | hc) | hc) | hc) | hc) | hc) | hc) | hc
  · exact (hg.b0 c hc).2
  · exact lowWord_no_nl (opWord_low legacy i) c hc
  · exact (hg.b1 c hc).2
  · subst hc; cases i.am <;> decide
  · exact (hg.b2 c hc).2
  · exact lowWord_no_nl (digits_low _) c hc
  · exact (hg.b3 c hc).2
  · subst hc; decide
  · exact (hg.b4 c hc).2
  · subst hc; cases i.bm <;> decide
  · exact (hg.b5 c hc).2
  · exact lowWord_no_nl (digits_low _) c hc
  · exact (hg.b6 c hc).2

theorem dirBody_no_nl (d : DirGaps) (kw : Str) (n : Nat) (hd : d.ok) (hk : LowWord kw) :
    ∀ c ∈ dirBody d kw n, c ≠ '\n' := by
  intro c hc
  simp only [dirBody, List.mem_append] at hc
  rcases hc with (((hc | hc) | hc) | hc) | hc
  · exact (hd.b0 c hc).2
  · exact lowWord_no_nl hk c hc
  · exact (hd.b1 c hc).2
  · exact lowWord_no_nl (digits_low _) c hc
  · exact (hd.b2 c hc).2

/-! ## the whole file -/

/-- hypotheses on one laid-out instruction line -/
structure LineOK (M : UInt64) (legacy : Bool) (p : Gaps × Instr) : Prop where
  gaps : p.1.ok
  a_lt : p.2.a < M
  b_lt : p.2.b < M
  legal : legacy = true → Spec.Legal88 p.2 = true

theorem printLoadG_94 (d : DirGaps) (lines : List (Gaps × Instr)) (start : Nat) :
    printLoadG false d lines start =
      ((dirBody d "ORG".toList start :: lines.map (fun p => instrBody false p.1 p.2)).map
        (· ++ ['\n'])).flatten := by
  simp [printLoadG, List.map_map, Function.comp_def]

theorem printLoadG_88 (d : DirGaps) (lines : List (Gaps × Instr)) (start : Nat) :
    printLoadG true d lines start =
      ((lines.map (fun p => instrBody true p.1 p.2) ++ [dirBody d "END".toList start]).map
        (· ++ ['\n'])).flatten := by
  simp [printLoadG, List.map_map, Function.comp_def]

theorem loadLoop_94 (M : UInt64) (d : DirGaps) (lines : List (Gaps × Instr)) (start : Nat)
    (hd : d.ok) (hM : M.toNat < 2 ^ 63) (hl : ∀ p ∈ lines, LineOK M false p) (hs : start < 2 ^ 31) :
    loadLoop (line94 M) {} (readLines (printLoadG false d lines start)) =
      .ok (some { code := (lines.map (·.2)).toArray, start := (start : Int) }) := by
  rw [printLoadG_94, readLines_lines]
  · simp only [List.map_cons, List.map_map, Function.comp_def]
    rw [loadLoop_cont _ _ _ _ _ (line94_orgLine M {} d start hd hs)]
    have := loadLoop_instrs (line94 M)
      (lines.map (fun p => (instrBody false p.1 p.2 ++ ['\n'], p.2))) []
      { start := (start : Int) } (by
        intro q hq st
        obtain ⟨p, hp, rfl⟩ := List.mem_map.1 hq
        have h := hl p hp
        exact line94_instrLine M st p.1 p.2 h.gaps h.a_lt h.b_lt hM)
    simp only [List.map_map, Function.comp_def, List.append_nil] at this
    rw [this]
    simp [loadLoop]
  · intro l hl'
    rcases List.mem_cons.1 hl' with rfl | hl'
    · exact dirBody_no_nl d _ _ hd kw_low.1
    · obtain ⟨p, hp, rfl⟩ := List.mem_map.1 hl'
      exact instrBody_no_nl false p.1 p.2 (hl p hp).gaps

theorem loadLoop_88 (M : UInt64) (d : DirGaps) (lines : List (Gaps × Instr)) (start : Nat)
    (hd : d.ok) (hM : M.toNat < 2 ^ 63) (hl : ∀ p ∈ lines, LineOK M true p) (hs : start < 2 ^ 31)
    (hle : start ≤ lines.length) :
    loadLoop (line88 M) {} (readLines (printLoadG true d lines start)) =
      .ok (some { code := (lines.map (·.2)).toArray, start := (start : Int) }) := by
  rw [printLoadG_88, readLines_lines]
  · simp only [List.map_append, List.map_cons, List.map_nil, List.map_map, Function.comp_def]
    have := loadLoop_instrs (line88 M)
      (lines.map (fun p => (instrBody true p.1 p.2 ++ ['\n'], p.2)))
      [dirBody d "END".toList start ++ ['\n']] {} (by
        intro q hq st
        obtain ⟨p, hp, rfl⟩ := List.mem_map.1 hq
        have h := hl p hp
        exact line88_instrLine M st p.1 p.2 h.gaps h.a_lt h.b_lt hM (h.legal rfl))
    simp only [List.map_map, Function.comp_def] at this
    rw [this, loadLoop_stop _ _ _ _ _ (line88_endLine M _ d start hd hs (by simpa using hle))]
    simp
  · intro l hl'
    rcases List.mem_append.1 hl' with hl' | hl'
    · obtain ⟨p, hp, rfl⟩ := List.mem_map.1 hl'
      exact instrBody_no_nl true p.1 p.2 (hl p hp).gaps
    · simp only [List.mem_singleton] at hl'
      subst hl'
      exact dirBody_no_nl d _ _ hd kw_low.2

/-- **C09 (loader half), with arbitrary blanks.** Any layout of the load-file text of a warrior
    with blanks/tabs between the fields is accepted and yields exactly the warrior. -/
theorem load_printG (cfg : Config) (d : DirGaps) (lines : List (Gaps × Instr)) (start : Nat)
    (hd : d.ok) (hM : cfg.coreSize.toNat < 2 ^ 63)
    (hl : ∀ p ∈ lines, LineOK cfg.coreSize (cfg.mode == .icws88) p)
    (hstart : start < lines.length) (hs : start < 2 ^ 31) :
    parseLoadFile cfg (printLoadG (cfg.mode == .icws88) d lines start) =
      .ok (some { name := "Unknown", author := "Anonymous", strategy := "",
                  code := (lines.map (·.2)).toArray, start := (start : Int) }) := by
  unfold parseLoadFile
  cases hleg : (cfg.mode == .icws88)
  · rw [hleg] at hl
    simp only [Bool.false_eq_true, if_false, bind, Except.bind]
    rw [loadLoop_94 cfg.coreSize d lines start hd hM hl hs]
    have : ¬ ((lines.length : Int) ≤ (start : Int)) := by omega
    simp [finish, this]
  · rw [hleg] at hl
    simp only [if_true, bind, Except.bind]
    rw [loadLoop_88 cfg.coreSize d lines start hd hM hl hs (by omega)]
    have : ¬ ((lines.length : Int) ≤ (start : Int)) := by omega
    simp [finish, this]

/-! ## why `start < 2^31` is needed -/

theorem line94_orgLine_big (M : UInt64) (st : LoadState) (d : DirGaps) (n : Nat) (hd : d.ok)
    (hn : 2 ^ 31 ≤ n) :
    line94 M st (dirBody d "ORG".toList n ++ ['\n']) = .ok .fail := by
  have hparts := dirLine_parts d "ORG".toList n hd kw_low.1
  have hsemi := layout_no_semi d.d0 _ (blanks_sep hd.b0) hparts
  have hf := fields_norm_layout d.d0 _ (blanks_sep hd.b0) hparts
  rw [← dirLine_layout] at hsemi hf
  simp only [List.map_cons, List.map_nil, toLower_digits] at hf
  refine line94_org_fail M st _ _ (head_ne_semi hsemi) (lower_no_semi hsemi) hf ?_
  rw [parseInt_digits (toDigits_ne_nil n) (toDigits_all_isDigit n), digitsVal_toDigits, if_neg]
  simpa using hn

/-- The loader reads the `ORG` argument with `ParseInt(_, 10, 32)`: a '94 load file whose entry
    point is `≥ 2^31` is rejected, whatever the code. So `load_print` needs `start < 2^31`
    (the requested statement, without it, fails for a warrior of more than `2^31` lines). -/
theorem load_printG_large_start (cfg : Config) (d : DirGaps) (lines : List (Gaps × Instr))
    (start : Nat) (hd : d.ok) (hl : ∀ p ∈ lines, p.1.ok) (h94 : (cfg.mode == .icws88) = false)
    (hs : 2 ^ 31 ≤ start) :
    parseLoadFile cfg (printLoadG false d lines start) = .ok none := by
  unfold parseLoadFile
  simp only [h94, Bool.false_eq_true, if_false, bind, Except.bind]
  rw [printLoadG_94, readLines_lines]
  · simp only [List.map_cons]
    rw [loadLoop_fail _ _ _ _ (line94_orgLine_big cfg.coreSize {} d start hd hs)]
  · intro l hl'
    rcases List.mem_cons.1 hl' with rfl | hl'
    · exact dirBody_no_nl d _ _ hd kw_low.1
    · obtain ⟨p, hp, rfl⟩ := List.mem_map.1 hl'
      exact instrBody_no_nl false p.1 p.2 (hl p hp)

end Gmars.RoundTrip
