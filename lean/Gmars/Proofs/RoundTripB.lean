/-
  C16: the listing printed by `LoadCode()` (model `loadCode`), read back with the pMARS
  conventions (`Spec.readText`), denotes the warrior.
-/
import Gmars.Model.Listing
import Gmars.Spec.LoadText
import Gmars.Proofs.GoStrLemmas

namespace Gmars.RoundTrip
open Gmars Gmars.GoStr

/-! ## signed numerals -/

/-- a signed numeral denoting `v`: accepted by `parseSigned`, no white space, no comma -/
structure Numeral (A : Str) (v : Int) : Prop where
  parse : Spec.parseSigned A = some v
  ne : A ≠ []
  nospace : NoSpace A
  nocomma : ∀ c ∈ A, c ≠ ','
  nosemi : ∀ c ∈ A, c ≠ ';'
  nonl : ∀ c ∈ A, c ≠ '\n'

theorem parseSigned_digits {ds : Str} (hne : ds ≠ []) (hd : ∀ c ∈ ds, isDigit c = true) :
    Spec.parseSigned ds = some (digitsVal ds : Int) := by
  have hall : ds.all isDigit = true := by rw [List.all_eq_true]; exact hd
  cases ds with
  | nil => exact absurd rfl hne
  | cons c r =>
    have hc : isDigit c = true := hd c (by simp)
    have h1 : c ≠ '+' := by intro h; subst h; revert hc; decide
    have h2 : c ≠ '-' := by intro h; subst h; revert hc; decide
    unfold Spec.parseSigned
    split
    · rename_i heq; simp only [List.cons.injEq] at heq; exact absurd heq.1 h2
    · rename_i heq; simp only [List.cons.injEq] at heq; exact absurd heq.1 h1
    · simp [hall]

theorem digit_props {c : Char} (h : isDigit c = true) :
    isAsciiSpace c = false ∧ c ≠ ',' ∧ c ≠ ';' ∧ c ≠ '\n' := by
  refine ⟨digit_not_space h, ?_, ?_, ?_⟩ <;> (intro e; subst e; revert h; decide)

theorem showInt_numeral (i : Int) : Numeral (showInt i) i := by
  unfold showInt natDigits
  by_cases h : i < 0
  · rw [if_pos h]
    have hd := toDigits_all_isDigit i.natAbs
    have hall : (Nat.toDigits 10 i.natAbs).all isDigit = true := toDigits_all _
    have hmem : ∀ c ∈ '-' :: Nat.toDigits 10 i.natAbs,
        isAsciiSpace c = false ∧ c ≠ ',' ∧ c ≠ ';' ∧ c ≠ '\n' := by
      intro c hc
      rcases List.mem_cons.1 hc with rfl | hc
      · decide
      · exact digit_props (hd c hc)
    refine ⟨?_, by simp, fun c hc => (hmem c hc).1, fun c hc => (hmem c hc).2.1,
      fun c hc => (hmem c hc).2.2.1, fun c hc => (hmem c hc).2.2.2⟩
    simp only [Spec.parseSigned, toDigits_isEmpty, hall, Bool.not_true, Bool.or_self,
      Bool.false_eq_true, if_false, digitsVal_toDigits, Option.some.injEq]
    omega
  · rw [if_neg h]
    have hd := toDigits_all_isDigit i.toNat
    refine ⟨?_, toDigits_ne_nil _, fun c hc => (digit_props (hd c hc)).1,
      fun c hc => (digit_props (hd c hc)).2.1, fun c hc => (digit_props (hd c hc)).2.2.1,
      fun c hc => (digit_props (hd c hc)).2.2.2⟩
    rw [parseSigned_digits (toDigits_ne_nil _) hd, digitsVal_toDigits]
    congr 1
    omega

/-! ## operands and instructions in a blank layout -/

theorem last_of_append {pre A r : Str} {z : Char} (hne : A ≠ []) (h : pre ++ A = r ++ [z]) : z ∈ A := by
  have h1 : (pre ++ A).getLast? = some z := by rw [h]; simp
  rw [List.getLast?_append, List.getLast?_eq_some_getLast hne] at h1
  simp only [Option.some_or, Option.some.injEq] at h1
  rw [← h1]; exact List.getLast_mem hne

theorem modeOfChar_sym (m : Mode) : Spec.modeOfChar m.sym = some m := by cases m <;> decide

theorem sym_props (m : Mode) :
    isAsciiSpace m.sym = false ∧ m.sym ≠ ',' ∧ m.sym ≠ ';' ∧ m.sym ≠ '\n' := by
  cases m <;> decide

theorem allSpace_ne {g : Str} (hg : AllSpace g) {x : Char} (hx : isAsciiSpace x = false) :
    ∀ c ∈ g, c ≠ x := by
  intro c hc e; subst e; rw [hg c hc] at hx; cases hx

theorem parseOperand_layout (g g' g'' A : Str) (m : Mode) (v : Int) (hg : AllSpace g)
    (hg' : AllSpace g') (hg'' : AllSpace g'') (hA : Numeral A v) :
    Spec.parseOperand (g ++ m.sym :: (g' ++ A) ++ g'') = some (m, v) := by
  have ht : trimSpace (g ++ m.sym :: (g' ++ A) ++ g'') = m.sym :: (g' ++ A) := by
    apply trimSpace_core hg hg''
    · intro a r h; cases h; exact (sym_props m).1
    · intro z r h
      have : z ∈ A := last_of_append (pre := m.sym :: g') hA.ne (by simpa using h)
      exact hA.nospace z this
  have ht2 : trimSpace (g' ++ A) = A := by
    have := trimSpace_noSpace hg' allSpace_nil hA.nospace
    simpa using this
  unfold Spec.parseOperand
  rw [ht]
  simp only [ht2, modeOfChar_sym, hA.parse]
  rfl

/-- the blank strings around the tokens of an instruction text -/
structure TGaps where
  h0 : Str
  h1 : Str
  h2 : Str
  h3 : Str
  h4 : Str
  h5 : Str
  h6 : Str

structure TGaps.ok (g : TGaps) : Prop where
  s0 : AllSpace g.h0
  s1 : AllSpace g.h1
  s2 : AllSpace g.h2
  s3 : AllSpace g.h3
  s4 : AllSpace g.h4
  s5 : AllSpace g.h5
  s6 : AllSpace g.h6
  n1 : g.h1 ≠ []

/-- `tok am A , bm B` with the given blank strings around the tokens -/
def itext (tok : Str) (am bm : Mode) (A B : Str) (g : TGaps) : Str :=
  g.h0 ++ (tok ++ (g.h1 ++ am.sym :: (g.h2 ++ A) ++ g.h3 ++ ',' :: (g.h4 ++ bm.sym :: (g.h5 ++ B) ++ [])) ++ g.h6)

theorem parseInstrText_itext (tok opN : Str) (op : Op) (mdo : Option Modifier) (am bm : Mode)
    (A B : Str) (a b : Int) (g : TGaps) (hg : g.ok) (htok : NoSpace tok) (htne : tok ≠ [])
    (hsplit : (splitOnChar tok '.' = [opN] ∧ mdo = none) ∨
      (∃ mN md, splitOnChar tok '.' = [opN, mN] ∧ Spec.modOfName mN = some md ∧ mdo = some md))
    (hop : Spec.opOfName opN = some op) (hA : Numeral A a) (hB : Numeral B b) :
    Spec.parseInstrText (itext tok am bm A B g) = some (op, mdo, am, a, bm, b) := by
  have hcomma : ∀ c ∈ g.h1 ++ am.sym :: (g.h2 ++ A) ++ g.h3, c ≠ ',' := by
    have e : isAsciiSpace ',' = false := by decide
    intro c hc
    simp only [List.mem_append, List.mem_cons] at hc
    rcases hc with (hc | hc | hc | hc) | hc
    · exact allSpace_ne hg.s1 e c hc
    · subst hc; exact (sym_props am).2.1
    · exact allSpace_ne hg.s2 e c hc
    · exact hA.nocomma c hc
    · exact allSpace_ne hg.s3 e c hc
  have hcomma2 : ∀ c ∈ g.h4 ++ bm.sym :: (g.h5 ++ B) ++ [], c ≠ ',' := by
    have e : isAsciiSpace ',' = false := by decide
    intro c hc
    simp only [List.mem_append, List.mem_cons, List.not_mem_nil, or_false] at hc
    rcases hc with hc | hc | hc | hc
    · exact allSpace_ne hg.s4 e c hc
    · subst hc; exact (sym_props bm).2.1
    · exact allSpace_ne hg.s5 e c hc
    · exact hB.nocomma c hc
  -- the trimmed text
  have ht : trimSpace (itext tok am bm A B g) =
      tok ++ (g.h1 ++ am.sym :: (g.h2 ++ A) ++ g.h3 ++ ',' :: (g.h4 ++ bm.sym :: (g.h5 ++ B) ++ [])) := by
    unfold itext
    rw [← List.append_assoc]
    apply trimSpace_core hg.s0 hg.s6
    · intro x r h
      cases tok with
      | nil => exact absurd rfl htne
      | cons t ts => cases h; exact htok _ (by simp)
    · intro z r h
      have : z ∈ B := last_of_append
        (pre := tok ++ (g.h1 ++ am.sym :: (g.h2 ++ A) ++ g.h3 ++ ',' :: (g.h4 ++ bm.sym :: g.h5))) hB.ne
        (by simpa using h)
      exact hB.nospace z this
  have hsp : ∀ c r, (g.h1 ++ am.sym :: (g.h2 ++ A) ++ g.h3 ++ ',' :: (g.h4 ++ bm.sym :: (g.h5 ++ B) ++ [])) = c :: r →
      isAsciiSpace c = true := by
    intro c r h
    cases h1 : g.h1 with
    | nil => exact absurd h1 hg.n1
    | cons x xs =>
      rw [h1] at h
      simp only [List.cons_append, List.cons.injEq] at h
      rw [← h.1]; exact hg.s1 x (by simp [h1])
  have hl := parseOperand_layout g.h1 g.h2 g.h3 A am a hg.s1 hg.s2 hg.s3 hA
  have hr := parseOperand_layout g.h4 g.h5 [] B bm b hg.s4 hg.s5 allSpace_nil hB
  unfold Spec.parseInstrText
  simp only [ht, takeWhile_noSpace htok hsp, dropWhile_noSpace htok hsp,
    splitOnChar_one ',' _ _ hcomma hcomma2]
  rcases hsplit with ⟨h1, rfl⟩ | ⟨mN, md, h1, h2, rfl⟩
  · simp only [h1, hop, hl, hr]
    rfl
  · simp only [h1, h2, hop, Option.map_some, hl, hr]
    rfl

/-! ## steps of the reference reader -/

abbrev PI := Op × Option Modifier × Mode × Int × Mode × Int

theorem go_instr_plain (l : Str) (rest : List Str) (f0 f1 f2 : Str) (fr : List Str)
    (x : PI) (code : List PI) (start label : Option Nat) (ref : Bool)
    (hf : fields l = f0 :: f1 :: f2 :: fr) (hh : toLower f0 ≠ "start".toList)
    (hp : Spec.parseInstrText l = some x) :
    Spec.readText.go (l :: rest) code start label ref = Spec.readText.go rest (x :: code) start label ref := by
  have hb : (Option.map toLower (f0 :: f1 :: f2 :: fr).head? == some "start".toList) = false := by
    simp only [List.head?_cons, Option.map_some, Option.some_beq_some, beq_eq_false_iff_ne]
    exact hh
  rw [Spec.readText.go]
  simp only [hf, hb, Bool.false_eq_true, if_false, hp]

theorem go_instr_start (l : Str) (rest : List Str) (f0 f1 f2 : Str) (fr : List Str)
    (x : PI) (code : List PI) (start label : Option Nat) (ref : Bool)
    (hf : fields l = f0 :: f1 :: f2 :: fr) (hh : toLower f0 = "start".toList)
    (hp : Spec.parseInstrText ((trimLeft l).drop 5) = some x) :
    Spec.readText.go (l :: rest) code start label ref =
      Spec.readText.go rest (x :: code) start (some code.length) ref := by
  have hb : (Option.map toLower (f0 :: f1 :: f2 :: fr).head? == some "start".toList) = true := by
    simp only [List.head?_cons, Option.map_some, Option.some_beq_some, beq_iff_eq]
    exact hh
  rw [Spec.readText.go]
  simp only [hf, hb, if_true, hp]

theorem go_org_start (rest : List Str) (code : List PI) (start label : Option Nat) (ref : Bool) :
    Spec.readText.go ("ORG      START".toList :: rest) code start label ref =
      Spec.readText.go rest code start label true := by
  have hf : fields "ORG      START".toList = ["ORG".toList, "START".toList] := by decide
  have h1 : (toLower "ORG".toList == "org".toList) = true := by decide
  have h2 : (toLower "START".toList == "start".toList) = true := by decide
  have h3 : (toLower "ORG".toList == "end".toList) = false := by decide
  rw [Spec.readText.go]
  simp only [hf, h1, h2, h3, Bool.true_or, if_true, Bool.false_eq_true, if_false]

theorem go_end_start (rest : List Str) (code : List PI) (start label : Option Nat) (ref : Bool) :
    Spec.readText.go ("END      START".toList :: rest) code start label ref =
      some { code := code.reverse, start := (label.orElse (fun _ => start)).getD 0 } := by
  have hf : fields "END      START".toList = ["END".toList, "START".toList] := by decide
  have h1 : (toLower "END".toList == "end".toList) = true := by decide
  have h2 : (toLower "START".toList == "start".toList) = true := by decide
  rw [Spec.readText.go]
  simp only [hf, h1, h2, Bool.or_true, if_true]

theorem go_nil (code : List PI) (start label : Option Nat) (ref : Bool) :
    Spec.readText.go [] code start label ref =
      some { code := code.reverse,
             start := if ref then (label.orElse (fun _ => start)).getD 0 else start.getD 0 } := by
  rw [Spec.readText.go]

/-! ## the printed line -/

def ltok (legacy : Bool) (i : Instr) : Str :=
  i.op.name.toList ++ (if legacy then [] else '.' :: i.md.name.toList)

def numA (m : UInt64) (x : UInt64) : Str := showInt (addressSigned m x)

def lgaps (m : UInt64) (legacy : Bool) (i : Instr) : TGaps where
  h0 := []
  h1 := List.replicate (3 - (if legacy then [] else '.' :: i.md.name.toList).length) ' ' ++ [' ']
  h2 := ' ' :: List.replicate (5 - (numA m i.a).length) ' '
  h3 := []
  h4 := [' ']
  h5 := ' ' :: List.replicate (5 - (numA m i.b).length) ' '
  h6 := []

def ltext (m : UInt64) (legacy : Bool) (i : Instr) : Str :=
  itext (ltok legacy i) i.am i.bm (numA m i.a) (numA m i.b) (lgaps m legacy i)

theorem op_name_length (op : Op) : op.name.toList.length = 3 := by
  cases op <;> rfl

theorem listingLine_eq (m : UInt64) (legacy isStart : Bool) (i : Instr) :
    listingLine m legacy isStart i =
      (if isStart then "START".toList else "     ".toList) ++ "  ".toList ++ ltext m legacy i ++
        "     ".toList ++ ['\n'] := by
  have e1 : " ".toList = [' '] := rfl
  have e2 : ", ".toList = [',', ' '] := rfl
  have e3 : "     \n".toList = "     ".toList ++ ['\n'] := rfl
  simp only [listingLine, ltext, itext, lgaps, ltok, numA, padLeft, padRight, e1, e2, e3,
    op_name_length, Nat.sub_self, List.replicate_zero,
    List.append_assoc, List.nil_append, List.cons_append, List.append_nil]

theorem lgaps_ok (m : UInt64) (legacy : Bool) (i : Instr) : (lgaps m legacy i).ok where
  s0 := allSpace_nil
  s1 := (allSpace_replicate _).append (allSpace_cons (by decide) allSpace_nil)
  s2 := allSpace_cons (by decide) (allSpace_replicate _)
  s3 := allSpace_nil
  s4 := allSpace_cons (by decide) allSpace_nil
  s5 := allSpace_cons (by decide) (allSpace_replicate _)
  s6 := allSpace_nil
  n1 := by simp [lgaps]

/-- the same text with two leading blanks (what follows the `START` label) -/
def lgaps2 (m : UInt64) (legacy : Bool) (i : Instr) : TGaps :=
  { lgaps m legacy i with h0 := "  ".toList }

theorem lgaps2_ok (m : UInt64) (legacy : Bool) (i : Instr) : (lgaps2 m legacy i).ok :=
  { lgaps_ok m legacy i with
    s0 := by
      have : ∀ c ∈ "  ".toList, isAsciiSpace c = true := by decide
      exact this }

theorem ltext2_eq (m : UInt64) (legacy : Bool) (i : Instr) :
    "  ".toList ++ ltext m legacy i =
      itext (ltok legacy i) i.am i.bm (numA m i.a) (numA m i.b) (lgaps2 m legacy i) := by
  simp [ltext, itext, lgaps, lgaps2]

theorem ltok_noSpace (legacy : Bool) (i : Instr) : NoSpace (ltok legacy i) ∧ ltok legacy i ≠ [] := by
  unfold NoSpace ltok
  cases legacy <;> cases i.op <;> cases i.md <;> exact ⟨by decide, by decide⟩

theorem ltok_split94 (op : Op) (md : Modifier) :
    splitOnChar (op.name.toList ++ '.' :: md.name.toList) '.' = [op.name.toList, md.name.toList] := by
  apply splitOnChar_one
  · cases op <;> decide
  · cases md <;> decide

theorem ltok_split88 (op : Op) : splitOnChar op.name.toList '.' = [op.name.toList] := by
  apply splitOnChar_none; cases op <;> decide

theorem opOfName_name (op : Op) : Spec.opOfName op.name.toList = some op := by cases op <;> decide

theorem modOfName_name (md : Modifier) : Spec.modOfName md.name.toList = some md := by
  cases md <;> decide

/-- what the reference reader extracts from the printed instruction -/
def parsedOf (m : UInt64) (legacy : Bool) (i : Instr) : PI :=
  (i.op, (if legacy then none else some i.md), i.am, addressSigned m i.a, i.bm, addressSigned m i.b)

theorem parse_itext_listing (m : UInt64) (legacy : Bool) (i : Instr) (g : TGaps) (hg : g.ok) :
    Spec.parseInstrText (itext (ltok legacy i) i.am i.bm (numA m i.a) (numA m i.b) g) =
      some (parsedOf m legacy i) := by
  have ht := ltok_noSpace legacy i
  apply parseInstrText_itext (ltok legacy i) i.op.name.toList i.op _ i.am i.bm _ _ _ _ g hg ht.1 ht.2
    ?_ (opOfName_name _) (showInt_numeral _) (showInt_numeral _)
  cases legacy
  · exact .inr ⟨i.md.name.toList, i.md, ltok_split94 _ _, modOfName_name _, rfl⟩
  · exact .inl ⟨by simpa [ltok] using ltok_split88 i.op, rfl⟩

theorem parse_ltext (m : UInt64) (legacy : Bool) (i : Instr) :
    Spec.parseInstrText (ltext m legacy i) = some (parsedOf m legacy i) :=
  parse_itext_listing m legacy i _ (lgaps_ok m legacy i)

theorem parse_ltext2 (m : UInt64) (legacy : Bool) (i : Instr) :
    Spec.parseInstrText ("  ".toList ++ ltext m legacy i) = some (parsedOf m legacy i) := by
  rw [ltext2_eq]; exact parse_itext_listing m legacy i _ (lgaps2_ok m legacy i)

/-! ## characters of a printed line -/

/-- neither a comment start nor a newline -/
def plainB (c : Char) : Bool := c != ';' && c != '\n'

theorem plainB_iff (c : Char) : plainB c = true ↔ c ≠ ';' ∧ c ≠ '\n' := by simp [plainB]

theorem ltok_plain (legacy : Bool) (i : Instr) : (ltok legacy i).all plainB = true := by
  unfold ltok
  cases legacy <;> cases i.op <;> cases i.md <;> decide

theorem numA_plain (m x : UInt64) : (numA m x).all plainB = true := by
  rw [List.all_eq_true]
  intro c hc
  have h := showInt_numeral (addressSigned m x)
  exact (plainB_iff c).2 ⟨h.nosemi c hc, h.nonl c hc⟩

theorem sym_plain (md : Mode) : plainB md.sym = true := by cases md <;> decide

theorem ltext_plain (m : UInt64) (legacy : Bool) (i : Instr) : (ltext m legacy i).all plainB = true := by
  have e : plainB ' ' = true := by decide
  have e' : plainB ',' = true := by decide
  simp [ltext, itext, lgaps, List.all_append, ltok_plain, numA_plain, sym_plain, e, e']

/-- the line without its newline -/
def lbody (m : UInt64) (legacy isStart : Bool) (i : Instr) : Str :=
  (if isStart then "START".toList else "     ".toList) ++ "  ".toList ++ ltext m legacy i ++ "     ".toList

theorem listingLine_body (m : UInt64) (legacy isStart : Bool) (i : Instr) :
    listingLine m legacy isStart i = lbody m legacy isStart i ++ ['\n'] := by
  rw [listingLine_eq]; rfl

theorem lbody_plain (m : UInt64) (legacy isStart : Bool) (i : Instr) :
    (lbody m legacy isStart i).all plainB = true := by
  have e1 : "START".toList.all plainB = true := by decide
  have e2 : "     ".toList.all plainB = true := by decide
  have e3 : "  ".toList.all plainB = true := by decide
  unfold lbody
  cases isStart <;> simp only [List.all_append, ltext_plain, e1, e2, e3, Bool.and_self, if_true,
    Bool.false_eq_true, if_false]

/-- the line as the reference reader sees it after comment stripping and trimming -/
def tline (m : UInt64) (legacy isStart : Bool) (i : Instr) : Str :=
  if isStart then "START".toList ++ ("  ".toList ++ ltext m legacy i) else ltext m legacy i

theorem itext_head (tok : Str) (am bm : Mode) (A B : Str) (g : TGaps) (h0 : g.h0 = []) :
    ∃ X, itext tok am bm A B g = tok ++ X :=
  ⟨(g.h1 ++ am.sym :: (g.h2 ++ A) ++ g.h3 ++ ',' :: (g.h4 ++ bm.sym :: (g.h5 ++ B) ++ [])) ++ g.h6,
    by simp [itext, h0]⟩

theorem itext_last (tok : Str) (am bm : Mode) (A B : Str) (g : TGaps) (h6 : g.h6 = []) :
    ∃ Y, itext tok am bm A B g = Y ++ B :=
  ⟨g.h0 ++ (tok ++ (g.h1 ++ am.sym :: (g.h2 ++ A) ++ g.h3 ++ ',' :: (g.h4 ++ bm.sym :: g.h5))),
    by simp [itext, h6]⟩

theorem ltext_head (m : UInt64) (legacy : Bool) (i : Instr) :
    ∀ a r, ltext m legacy i = a :: r → isAsciiSpace a = false := by
  intro a r h
  obtain ⟨X, hX⟩ := itext_head (ltok legacy i) i.am i.bm (numA m i.a) (numA m i.b) (lgaps m legacy i) rfl
  have ht := ltok_noSpace legacy i
  unfold ltext at h
  rw [hX] at h
  cases htok : ltok legacy i with
  | nil => exact absurd htok ht.2
  | cons t ts =>
    rw [htok] at h
    cases h
    exact ht.1 a (by simp [htok])

theorem ltext_last (m : UInt64) (legacy : Bool) (i : Instr) (pre : Str) :
    ∀ z r, pre ++ ltext m legacy i = r ++ [z] → isAsciiSpace z = false := by
  intro z r h
  obtain ⟨Y, hY⟩ := itext_last (ltok legacy i) i.am i.bm (numA m i.a) (numA m i.b) (lgaps m legacy i) rfl
  have hn := showInt_numeral (addressSigned m i.b)
  unfold ltext at h
  rw [hY, ← List.append_assoc] at h
  exact hn.nospace z (last_of_append hn.ne h)

theorem trim_listingLine (m : UInt64) (legacy isStart : Bool) (i : Instr) :
    trimSpace (Spec.stripComment (listingLine m legacy isStart i)) = tline m legacy isStart i := by
  have hsc : Spec.stripComment (listingLine m legacy isStart i) = listingLine m legacy isStart i := by
    apply takeWhile_ne_self
    intro c hc
    rw [listingLine_body] at hc
    rcases List.mem_append.1 hc with hc | hc
    · exact ((plainB_iff c).1 (List.all_eq_true.1 (lbody_plain m legacy isStart i) c hc)).1
    · simp only [List.mem_singleton] at hc; subst hc; decide
  have hg' : AllSpace ("     ".toList ++ ['\n']) := by intro c hc; revert c; decide
  rw [hsc, listingLine_eq]
  cases isStart
  · have hg : AllSpace ("     ".toList ++ "  ".toList) := by intro c hc; revert c; decide
    have := trimSpace_core hg hg' (ltext_head m legacy i) (ltext_last m legacy i [])
    simpa [tline] using this
  · have := trimSpace_core (g := []) allSpace_nil hg'
      (core := "START".toList ++ ("  ".toList ++ ltext m legacy i))
      (by intro a r h; cases h; decide)
      (by intro z r h; rw [← List.append_assoc] at h; exact ltext_last m legacy i _ z r h)
    simpa [tline] using this

/-! ## tokens of a printed line -/

def lparts (m : UInt64) (legacy : Bool) (i : Instr) : List (Str × Str) :=
  [(ltok legacy i, (lgaps m legacy i).h1), ([i.am.sym], (lgaps m legacy i).h2),
   (numA m i.a ++ [','], (lgaps m legacy i).h4), ([i.bm.sym], (lgaps m legacy i).h5)]

theorem ltext_layout (m : UInt64) (legacy : Bool) (i : Instr) :
    ltext m legacy i = layout [] (lparts m legacy i) ++ numA m i.b := by
  simp [ltext, itext, layout, lparts, lgaps]

theorem numA_word (m x : UInt64) : IsWord (numA m x) :=
  ⟨(showInt_numeral _).ne, (showInt_numeral _).nospace⟩

theorem lparts_ok (m : UInt64) (legacy : Bool) (i : Instr) :
    ∀ p ∈ lparts m legacy i, IsWord p.1 ∧ IsSep p.2 := by
  have hg := lgaps_ok m legacy i
  intro p hp
  simp only [lparts, List.mem_cons, List.not_mem_nil, or_false] at hp
  rcases hp with rfl | rfl | rfl | rfl
  · exact ⟨⟨(ltok_noSpace legacy i).2, (ltok_noSpace legacy i).1⟩, ⟨hg.n1, hg.s1⟩⟩
  · refine ⟨⟨by simp, ?_⟩, ⟨by simp [lgaps], hg.s2⟩⟩
    intro c hc; simp only [List.mem_singleton] at hc; subst hc; exact (sym_props _).1
  · refine ⟨⟨by simp, ?_⟩, ⟨by simp [lgaps], hg.s4⟩⟩
    intro c hc
    rcases List.mem_append.1 hc with hc | hc
    · exact (numA_word m i.a).2 c hc
    · simp only [List.mem_singleton] at hc; subst hc; decide
  · refine ⟨⟨by simp, ?_⟩, ⟨by simp [lgaps], hg.s5⟩⟩
    intro c hc; simp only [List.mem_singleton] at hc; subst hc; exact (sym_props _).1

theorem fields_ltext (m : UInt64) (legacy : Bool) (i : Instr) :
    fields (ltext m legacy i) =
      [ltok legacy i, [i.am.sym], numA m i.a ++ [','], [i.bm.sym], numA m i.b] := by
  rw [ltext_layout, fields_layout_last _ _ _ (by intro c hc; cases hc) (lparts_ok m legacy i)
    (numA_word m i.b)]
  rfl

theorem fields_start_ltext (m : UInt64) (legacy : Bool) (i : Instr) :
    fields ("START".toList ++ ("  ".toList ++ ltext m legacy i)) =
      ["START".toList, ltok legacy i, [i.am.sym], numA m i.a ++ [','], [i.bm.sym], numA m i.b] := by
  have e : "START".toList ++ ("  ".toList ++ ltext m legacy i) =
      layout [] (("START".toList, "  ".toList) :: lparts m legacy i) ++ numA m i.b := by
    rw [ltext_layout]; simp [layout]
  rw [e, fields_layout_last _ _ _ (by intro c hc; cases hc) ?_ (numA_word m i.b)]
  · rfl
  · intro p hp
    rcases List.mem_cons.1 hp with rfl | hp
    · exact ⟨⟨by decide, by decide⟩, ⟨by decide, by decide⟩⟩
    · exact lparts_ok m legacy i p hp

theorem ltok_not_start (legacy : Bool) (i : Instr) : toLower (ltok legacy i) ≠ "start".toList := by
  unfold ltok
  cases legacy <;> cases i.op <;> cases i.md <;> decide

/-- one step of the reference reader over a printed line -/
theorem go_tline (m : UInt64) (legacy isStart : Bool) (i : Instr) (rest : List Str)
    (code : List PI) (start label : Option Nat) (ref : Bool) :
    Spec.readText.go (tline m legacy isStart i :: rest) code start label ref =
      Spec.readText.go rest (parsedOf m legacy i :: code) start
        (if isStart then some code.length else label) ref := by
  cases isStart
  · simp only [tline, Bool.false_eq_true, if_false]
    exact go_instr_plain _ _ _ _ _ _ _ _ _ _ _ (fields_ltext m legacy i) (ltok_not_start legacy i)
      (parse_ltext m legacy i)
  · simp only [tline, if_true]
    refine go_instr_start _ _ _ _ _ _ _ _ _ _ _ (fields_start_ltext m legacy i) (by decide) ?_
    have : trimLeft ("START".toList ++ ("  ".toList ++ ltext m legacy i)) =
        "START".toList ++ ("  ".toList ++ ltext m legacy i) := trimLeft_cons (by decide) _
    rw [this]
    exact parse_ltext2 m legacy i

/-! ## the loop over all printed lines -/

theorem go_tlines (m : UInt64) (legacy : Bool) (s : Nat) (c : List Instr) (k : Nat) (rest : List Str)
    (code : List PI) (start label : Option Nat) (ref : Bool) (hk : code.length = k) :
    Spec.readText.go ((c.zipIdx k).map (fun p => tline m legacy (decide (p.2 = s)) p.1) ++ rest)
        code start label ref =
      Spec.readText.go rest ((c.map (parsedOf m legacy)).reverse ++ code) start
        (if k ≤ s ∧ s < k + c.length then some s else label) ref := by
  induction c generalizing k code label with
  | nil =>
    have : ¬ (k ≤ s ∧ s < k) := by omega
    simp [this]
  | cons i r ih =>
    simp only [List.zipIdx_cons, List.map_cons, List.cons_append]
    rw [go_tline, ih (k + 1) _ _ (by simp [hk])]
    congr 1
    · simp
    · by_cases hks : k = s
      · subst hks
        have h1 : ¬ (k + 1 ≤ k ∧ k < k + 1 + r.length) := by omega
        simp [h1, hk]
      · have h3 : (k + 1 ≤ s ∧ s < k + 1 + r.length) ↔ (k ≤ s ∧ s < k + (i :: r).length) := by
          simp only [List.length_cons]; omega
        simp only [hks, decide_false, Bool.false_eq_true, if_false, h3]

theorem tline_ne_nil (m : UInt64) (legacy isStart : Bool) (i : Instr) : tline m legacy isStart i ≠ [] := by
  cases isStart
  · simp only [tline, Bool.false_eq_true, if_false]
    intro h
    have := fields_ltext m legacy i
    rw [h] at this
    cases this
  · simp [tline]

theorem range_map_eq {β : Type} (a : Array Instr) (f : Nat → Instr → β) :
    (List.range a.size).map (fun i => f i (a.getD i default)) =
      a.toList.zipIdx.map (fun p => f p.2 p.1) := by
  apply List.ext_getElem
  · simp
  · intro n h1 h2
    have hn : n < a.size := by simpa using h1
    simp [Array.getD, hn]

/-! ## the whole listing -/

def bodies (m : UInt64) (legacy : Bool) (w : WarriorData) : List Str :=
  w.code.toList.zipIdx.map (fun p => lbody m legacy (decide (p.2 = w.start.toNat)) p.1)

def tlines (m : UInt64) (legacy : Bool) (w : WarriorData) : List Str :=
  w.code.toList.zipIdx.map (fun p => tline m legacy (decide (p.2 = w.start.toNat)) p.1)

theorem loadCode_lines (m : UInt64) (legacy : Bool) (w : WarriorData) (hne : w.code.size ≠ 0)
    (hs : 0 ≤ w.start) :
    loadCode m legacy w =
      (((if legacy then [] else ["       ORG      START".toList]) ++ bodies m legacy w ++
        (if legacy then ["       END      START".toList] else [])).map (· ++ ['\n'])).flatten := by
  have e1 : "       ORG      START\n".toList = "       ORG      START".toList ++ ['\n'] := rfl
  have e2 : "       END      START\n".toList = "       END      START".toList ++ ['\n'] := rfl
  have hd : ∀ i : Nat, decide (Int.ofNat i = w.start) = decide (i = w.start.toNat) := by
    intro i; apply decide_eq_decide.2
    rw [Int.ofNat_eq_natCast]
    constructor <;> intro h <;> omega
  unfold loadCode
  have hne' : (w.code.size == 0) = false := by simpa using hne
  simp only [hne', Bool.false_eq_true, if_false, hd]
  rw [range_map_eq w.code (fun i x => listingLine m legacy (decide (i = w.start.toNat)) x)]
  simp only [listingLine_body, bodies, e1, e2]
  cases legacy <;> simp [List.map_map, Function.comp_def]

theorem lbody_no_nl (m : UInt64) (legacy isStart : Bool) (i : Instr) :
    ∀ c ∈ lbody m legacy isStart i, c ≠ '\n' := fun c hc =>
  ((plainB_iff c).1 (List.all_eq_true.1 (lbody_plain m legacy isStart i) c hc)).2

theorem trim_bodies (m : UInt64) (legacy : Bool) (w : WarriorData) :
    ((bodies m legacy w).map (· ++ ['\n'])).map (fun l => trimSpace (Spec.stripComment l)) =
      tlines m legacy w := by
  simp only [bodies, tlines, List.map_map]
  apply List.map_congr_left
  intro p _
  simp only [Function.comp_def, ← listingLine_body, trim_listingLine]

theorem filter_tlines (m : UInt64) (legacy : Bool) (w : WarriorData) :
    (tlines m legacy w).filter (!·.isEmpty) = tlines m legacy w := by
  rw [List.filter_eq_self]
  intro l hl
  obtain ⟨p, _, rfl⟩ := List.mem_map.1 hl
  have := tline_ne_nil m legacy (decide (p.2 = w.start.toNat)) p.1
  cases h : tline m legacy (decide (p.2 = w.start.toNat)) p.1 with
  | nil => exact absurd h this
  | cons _ _ => rfl

/-- what the reference reader returns on the printed listing -/
theorem readText_loadCode (m : UInt64) (legacy : Bool) (w : WarriorData)
    (hs : 0 ≤ w.start) (hlt : w.start < w.code.size) :
    Spec.readText (loadCode m legacy w) =
      some { code := w.code.toList.map (parsedOf m legacy), start := w.start.toNat } := by
  have hne : w.code.size ≠ 0 := by omega
  have hlen : w.start.toNat < w.code.toList.length := by simp; omega
  have hlen2 : w.start.toNat < w.code.size := by omega
  have hnl : ∀ l ∈ (if legacy then [] else ["       ORG      START".toList]) ++ bodies m legacy w ++
        (if legacy then ["       END      START".toList] else []), ∀ c ∈ l, c ≠ '\n' := by
    intro l hl
    simp only [List.mem_append] at hl
    rcases hl with (hl | hl) | hl
    · cases legacy
      · simp only [Bool.false_eq_true, if_false, List.mem_singleton] at hl; subst hl; decide
      · simp at hl
    · obtain ⟨p, _, rfl⟩ := List.mem_map.1 hl
      exact lbody_no_nl _ _ _ _
    · cases legacy
      · simp at hl
      · simp only [if_true, List.mem_singleton] at hl; subst hl; decide
  have t1 : trimSpace (Spec.stripComment ("       ORG      START".toList ++ ['\n'])) =
      "ORG      START".toList := by decide
  have t2 : trimSpace (Spec.stripComment ("       END      START".toList ++ ['\n'])) =
      "END      START".toList := by decide
  have f1 : (!("ORG      START".toList).isEmpty) = true := by decide
  have f2 : (!("END      START".toList).isEmpty) = true := by decide
  have hgo := go_tlines m legacy w.start.toNat w.code.toList 0
  unfold Spec.readText
  rw [loadCode_lines m legacy w hne hs, readLines_lines _ hnl]
  cases legacy
  · simp only [Bool.false_eq_true, if_false, List.append_nil, List.singleton_append, List.map_cons, t1,
      trim_bodies, List.filter_cons, f1, if_true, filter_tlines]
    rw [go_org_start]
    have := hgo [] [] none none true rfl
    simp only [List.append_nil] at this
    unfold tlines
    rw [this, go_nil]
    simp [hlen2]
  · simp only [if_true, List.nil_append, List.map_append, List.map_cons, List.map_nil, t2,
      trim_bodies, List.filter_append, List.filter_cons, f2, List.filter_nil, filter_tlines]
    have := hgo ["END      START".toList] [] none none false rfl
    unfold tlines
    rw [this, go_end_start]
    simp [hlen2]

/-! ## the text warrior denotes the warrior -/

theorem fieldEq_addressSigned (m a : UInt64) :
    Spec.fieldEq m.toNat (addressSigned m a) a.toNat = true := by
  unfold Spec.fieldEq addressSigned
  split
  · have e : -((m.toNat : Int) - (a.toNat : Int)) = (a.toNat : Int) + (m.toNat : Int) * (-1) := by omega
    rw [e, Int.add_mul_emod_self_left]
    simp
  · simp

theorem zip_map_all {α β : Type} (P : α → β) (F : β × α → Bool) (c : List α) :
    ((c.map P).zip c).all F = c.all (fun i => F (P i, i)) := by
  induction c with
  | nil => rfl
  | cons i r ih => simp [ih]

theorem denotes_parsed (m : UInt64) (legacy : Bool) (c : List Instr) (s : Nat) (start : Int)
    (hstart : (s : Int) = start) (hl : legacy = true → ∀ i ∈ c, Spec.Legal88 i = true) :
    Spec.denotes m.toNat { code := c.map (parsedOf m legacy), start := s } c start = true := by
  unfold Spec.denotes
  simp only [List.length_map, beq_self_eq_true, hstart, Bool.true_and]
  rw [zip_map_all, List.all_eq_true]
  intro i hi
  cases legacy
  · simp [parsedOf, fieldEq_addressSigned]
  · have := hl rfl i hi
    simp only [Spec.Legal88] at this
    simp [parsedOf, fieldEq_addressSigned, this]

/-- **C16**, in the strongest form: no bound on the core size or the fields is needed. -/
theorem listing_roundtrip_gen (m : UInt64) (legacy : Bool) (w : WarriorData)
    (hs : 0 ≤ w.start) (hlt : w.start < w.code.size)
    (hl : legacy = true → ∀ i ∈ w.code.toList, Spec.Legal88 i = true) :
    ∃ t, Spec.readText (loadCode m legacy w) = some t ∧
      Spec.denotes m.toNat t w.code.toList w.start = true :=
  ⟨_, readText_loadCode m legacy w hs hlt,
    denotes_parsed m legacy w.code.toList w.start.toNat w.start (by omega) hl⟩

end Gmars.RoundTrip
