/-
  C02: `RunCycle` / `Run` of the model refine the reference scheduler `Spec.Api`.
-/
import Gmars.Proofs.SchedBasics
import Gmars.Proofs.ExecLog
import Gmars.Proofs.Refine

namespace Gmars
open Spec

/-! ## computing `runWarrior` -/

/-- the state after the task `pc` has been popped from the queue of warrior `i` (`q'` is the
    rest of the queue) and reported -/
def Sim.popped (s : Sim) (i : Nat) (h : i < s.warriors.size) (q' : PQ) (pc : UInt64) : Sim :=
  ({ s with warriors := s.warriors.set i { s.warriors[i] with pq := some q' } h } : Sim).report
    { typ := .taskPop, cycle := s.cycleCount.toNat, wi := i, addr := pc }

/-- the state after warrior `i` has been declared dead -/
def Sim.killed (s : Sim) (i : Nat) (h : i < s.warriors.size) (pc : UInt64) : Sim :=
  { s with warriors := s.warriors.set i { s.warriors[i] with state := .dead } h,
           living := s.living - 1,
           log := s.log.push { typ := .warriorTerminate, cycle := s.cycleCount.toNat, wi := i, addr := pc } }

theorem runWarrior_skip (s : Sim) (i : Nat) (hi : i < s.warriors.size)
    (h : s.warriors[i].state ≠ .alive) : s.runWarrior i = .ok (s, none) := by
  unfold Sim.runWarrior
  rw [dif_pos hi]
  have : (s.warriors[i].state == WState.alive) = false := by simpa using h
  simp only [this, Bool.false_eq_true, if_false]

theorem runWarrior_alive (s : Sim) (i : Nat) (hi : i < s.warriors.size) (q q' : PQ) (pc : UInt64)
    (hst : s.warriors[i].state = .alive) (hpq : s.warriors[i].pq = some q)
    (hpop : q.pop = .ok (some pc, q')) (s2 : Sim) (hex : (s.popped i hi q' pc).exec pc i = .ok s2)
    (h2 : i < s2.warriors.size) (q2 : PQ) (hpq2 : s2.warriors[i].pq = some q2) :
    s.runWarrior i = .ok (
      if q2.length = 0 then
        (s2.killed i h2 pc,
          if (s2.killed i h2 pc).warriorCount > 1 ∧ (s2.killed i h2 pc).living = 1
          then some (s2.killed i h2 pc).living else none)
      else (s2, none)) := by
  unfold Sim.runWarrior
  rw [dif_pos hi]
  have hb : (s.warriors[i].state == WState.alive) = true := by rw [hst]; rfl
  simp only [hb, if_true, hpq, hpop, bind, Except.bind]
  dsimp only [Sim.popped] at hex
  rw [hex]
  simp only [dif_pos h2, hpq2]
  by_cases hz : q2.length = 0
  · simp only [hz, beq_self_eq_true, if_true]
    unfold Sim.killed Sim.report
    simp only [Bool.and_eq_true, decide_eq_true_eq, beq_iff_eq]
    split <;> simp only [hpq2]
  · have : (q2.length == 0) = false := by simpa using hz
    simp only [this, hz, Bool.false_eq_true, if_false]

/-! ## computing `Api.turn` -/

theorem Spec.Api.turn_skip (a : Api) (i : Nat) (aw : SW) (haw : a.ws[i]? = some aw)
    (hst : aw.st ≠ .alive) : a.turn i = (a, []) := by
  unfold Api.turn
  simp only [haw]
  have : (aw.st != WSt.alive) = true := by simpa using hst
  simp only [this, if_true]

/-- the state after an alive warrior's turn -/
def Spec.Api.turned (a : Api) (i : Nat) (aw : SW) (pc : Nat) (rest : List Nat) : Api :=
  let r := step a.M a.R a.W a.core pc
  let q' := enqueue a.P rest r.succ
  { a with core := r.core,
           ws := a.ws.set i { aw with q := q', st := if q'.isEmpty then .dead else aw.st } }

theorem Spec.Api.turn_alive (a : Api) (i : Nat) (aw : SW) (haw : a.ws[i]? = some aw)
    (hst : aw.st = .alive) (pc : Nat) (rest : List Nat) (hq : aw.q = pc :: rest) :
    (a.turn i).1 = a.turned i aw pc rest := by
  unfold Api.turn Api.turned
  simp only [haw]
  have : (aw.st != WSt.alive) = false := by simp [hst]
  simp only [this, Bool.false_eq_true, if_false, hq]
  split <;> rfl

theorem Spec.Api.living_set (a : Api) (i : Nat) (aw aw' : SW) (haw : a.ws[i]? = some aw) (c : Core) :
    ({ a with core := c, ws := a.ws.set i aw' } : Api).living + (if aw.st == .alive then 1 else 0) =
      a.living + (if aw'.st == .alive then 1 else 0) := by
  obtain ⟨hlt, hget⟩ := List.getElem?_eq_some_iff.mp haw
  have := filter_length_set (fun w : SW => w.st == .alive) a.ws i aw' hlt
  rw [hget] at this
  exact this

/-! ## updating one warrior keeps the relation and the invariant -/

theorem Rel.update {s s' : Sim} {a : Api} (h : Rel s a) (hs : Same s s') (i : Nat)
    (c' : Core) (hc : s'.absCore = c')
    (hothers : ∀ j, j ≠ i → s'.warriors[j]? = s.warriors[j]?)
    (w' : Warrior) (hw' : s'.warriors[i]? = some w') (aw' : SW)
    (hst : aw'.st = w'.state.abs) (hq : aw'.q = w'.absQueue) :
    Rel s' { a with core := c', ws := a.ws.set i aw' } where
  M := by rw [hs.m]; exact h.M
  R := by rw [hs.readLimit]; exact h.R
  W := by rw [hs.writeLimit]; exact h.W
  P := by rw [hs.maxProcs]; exact h.P
  C := by rw [hs.maxCycles]; exact h.C
  core := hc.symm
  cycles := by rw [hs.cycle]; exact h.cycles
  len := by simp only [List.length_set]; rw [hs.wsize]; exact h.len
  ws := by
    intro j hj hj'
    simp only [List.length_set] at hj'
    simp only [List.getElem_set]
    by_cases hji : i = j
    · subst hji
      rw [if_pos rfl]
      have : s'.warriors[i] = w' := by
        have := Array.getElem?_eq_getElem hj
        rw [hw'] at this; exact (Option.some.inj this).symm
      rw [this]
      exact ⟨hst, fun _ => hq⟩
    · rw [if_neg hji]
      have hj2 : j < s.warriors.size := by rw [← hs.wsize]; exact hj
      have : s'.warriors[j] = s.warriors[j] := by
        have h1 := hothers j (Ne.symm hji)
        rw [Array.getElem?_eq_getElem hj, Array.getElem?_eq_getElem hj2] at h1
        exact Option.some.inj h1
      rw [this]
      exact h.ws j hj2 hj'

theorem Sim.WarriorOK.same {s s' : Sim} (hs : Same s s') {j : Nat} {w : Warrior}
    (h : s.WarriorOK j w) : s'.WarriorOK j w := by
  unfold Sim.WarriorOK at h ⊢
  rw [hs.maxProcs, hs.m]; exact h

theorem Sim.WF.update {s s' : Sim} (h : s.WF) (hs : Same s s') (i : Nat)
    (hsize : s'.mem.size = s.mem.size) (hf : s'.FieldsOK)
    (hothers : ∀ j, j ≠ i → s'.warriors[j]? = s.warriors[j]?)
    (w' : Warrior) (hw' : s'.warriors[i]? = some w') (hok : s'.WarriorOK i w')
    (hliving : s'.living = Int.ofNat s'.aliveCount) : s'.WF where
  size := by rw [hsize, hs.m]; exact h.size
  m3 := by rw [hs.m]; exact h.m3
  rl := by rw [hs.readLimit]; exact h.rl
  wl := by rw [hs.writeLimit]; exact h.wl
  procs := by rw [hs.maxProcs]; exact h.procs
  cycles := by rw [hs.maxCycles]; exact h.cycles
  fields := hf
  count := by rw [hs.count, hs.wsize]; exact h.count
  widx := by rw [hs.widx]; exact h.widx
  warriors := by
    intro j hj
    by_cases hji : j = i
    · subst hji
      have : s'.warriors[j] = w' := by
        have := Array.getElem?_eq_getElem hj
        rw [hw'] at this; exact (Option.some.inj this).symm
      rw [this]; exact hok
    · have hj2 : j < s.warriors.size := by rw [← hs.wsize]; exact hj
      have : s'.warriors[j] = s.warriors[j] := by
        have h1 := hothers j hji
        rw [Array.getElem?_eq_getElem hj, Array.getElem?_eq_getElem hj2] at h1
        exact Option.some.inj h1
      rw [this]
      exact (h.warriors j hj2).same hs
  living := hliving
  cycle := by rw [hs.cycle, hs.maxCycles]; exact h.cycle

/-! ## the state in which `exec` is called -/

/-- `popped` with the running warrior relabelled `added` (so that its momentarily empty queue
    does not contradict the invariant) and not counted as living -/
def Sim.poppedWF (s : Sim) (i : Nat) (h : i < s.warriors.size) (q' : PQ) (pc : UInt64) : Sim :=
  { s with warriors := s.warriors.set i { s.warriors[i] with pq := some q', state := .added } h,
           living := s.living - 1,
           log := s.log.push { typ := .taskPop, cycle := s.cycleCount.toNat, wi := i, addr := pc } }

theorem Sim.popped_eq_relabel (s : Sim) (i : Nat) (h : i < s.warriors.size) (q' : PQ) (pc : UInt64)
    (hst : s.warriors[i].state = .alive) :
    s.popped i h q' pc = Sim.relabel i .alive 1 (s.poppedWF i h q' pc) := by
  unfold Sim.popped Sim.poppedWF Sim.relabel Sim.report
  simp only [Int.sub_add_cancel]
  congr 1
  apply Array.ext
  · simp
  · intro j h1 h2
    simp only [Array.getElem_modify, Array.getElem_set]
    by_cases hij : i = j
    · simp only [hij, if_true]
      subst hij
      rw [hst]
    · simp only [hij, if_false]

theorem Sim.aliveCount_set (s s' : Sim) (i : Nat) (h : i < s.warriors.size) (w' : Warrior)
    (hw : s'.warriors = s.warriors.set i w' h) :
    s'.aliveCount + (if s.warriors[i].state == .alive then 1 else 0) =
      s.aliveCount + (if w'.state == .alive then 1 else 0) := by
  unfold Sim.aliveCount
  rw [hw, Array.toList_set]
  have := filter_length_set (fun w : Warrior => w.state == .alive) s.warriors.toList i w'
    (by simpa using h)
  simpa using this

theorem Sim.poppedWF_same (s : Sim) (i : Nat) (h : i < s.warriors.size) (q' : PQ) (pc : UInt64) :
    Same s (s.poppedWF i h q' pc) :=
  ⟨rfl, rfl, rfl, rfl, rfl, by simp [Sim.poppedWF], rfl, rfl, rfl⟩

theorem Sim.poppedWF_wf {s : Sim} (hwf : s.WF) (i : Nat) (h : i < s.warriors.size) (q q' : PQ)
    (pc : UInt64) (hst : s.warriors[i].state = .alive) (hpq : s.warriors[i].pq = some q)
    (hinv' : q'.Inv) (hsz' : q'.size = q.size) (htl : q'.toList = q.toList.tail) :
    (s.poppedWF i h q' pc).WF := by
  have hok := hwf.warriors i h
  obtain ⟨hidx, hok2⟩ := hok
  rw [hpq] at hok2
  obtain ⟨_, hqsz, hent, _, _⟩ := hok2
  refine hwf.update (s.poppedWF_same i h q' pc) i rfl hwf.fields ?_
    { s.warriors[i] with pq := some q', state := .added } ?_ ?_ ?_
  · intro j hj
    simp only [Sim.poppedWF]
    exact Array.getElem?_set_ne h (Ne.symm hj)
  · simp only [Sim.poppedWF]
    exact Array.getElem?_set_self h
  · refine ⟨hidx, ?_⟩
    show q'.Inv ∧ _
    refine ⟨hinv', hsz'.trans hqsz, ?_, fun hc => (by cases hc), fun hc => (by cases hc)⟩
    intro x hx
    rw [htl] at hx
    exact hent x (List.mem_of_mem_tail hx)
  · have := Sim.aliveCount_set s (s.poppedWF i h q' pc) i h
      { s.warriors[i] with pq := some q', state := .added } rfl
    simp only [hst, beq_self_eq_true, if_true] at this
    have h0 : ((WState.added == WState.alive) = true) = False := by simp
    simp only [h0, if_false, Nat.add_zero] at this
    show s.living - 1 = _
    rw [hwf.living, ← this]
    simp only [Int.ofNat_eq_natCast]
    omega

theorem Sim.WarriorOK.mk_some {s : Sim} {i : Nat} {w : Warrior} {q : PQ} (hidx : w.index = i)
    (hpq : w.pq = some q)
    (h : q.Inv ∧ q.size = s.maxProcs ∧ (∀ a ∈ q.toList, a < s.m) ∧
      (w.state = .alive → q.length ≠ 0) ∧ (w.state = .dead → q.length = 0)) :
    s.WarriorOK i w := by
  unfold Sim.WarriorOK
  rw [hpq]
  exact ⟨hidx, h⟩

theorem PQ.length_eq_zero_iff (q : PQ) : q.length = 0 ↔ q.toList = [] := by
  rw [← List.length_eq_zero_iff, PQ.toList_length, ← UInt64.toNat_inj]
  rfl

/-! ## one warrior's turn -/

/-- the early-stop test of the reference scheduler -/
def stopCond (a a' : Api) : Bool :=
  a'.living < a.living && a'.ws.length > 1 && a'.living == 1

/-! ### the observable trace: `taskPop` reports of the model, `exec` events of the reference -/

/-- the (warrior, pc) pairs of the `taskPop` reports among `l` -/
def pops (l : List Report) : List (Int × Nat) :=
  (l.filter (fun r => r.typ == .taskPop)).map (fun r => (r.wi, r.addr.toNat))

/-- the (warrior, pc) pairs of the `exec` events among `evs` -/
def execs (evs : List Ev) : List (Int × Nat) :=
  evs.filterMap (fun e => match e with
    | .exec wi pc _ _ => some (Int.ofNat wi, pc)
    | _ => none)

theorem pops_append (l l' : List Report) : pops (l ++ l') = pops l ++ pops l' := by
  simp [pops]

theorem execs_append (l l' : List Ev) : execs (l ++ l') = execs l ++ execs l' := by
  simp [execs]

theorem pops_eq_nil (l : List Report) (h : ∀ r ∈ l, r.typ ≠ .taskPop) : pops l = [] := by
  unfold pops
  rw [List.map_eq_nil_iff, List.filter_eq_nil_iff]
  intro r hr
  simpa using h r hr

/-- the report with which `RunCycle` announces the task it is about to execute -/
def popReport (s : Sim) (i : Nat) (pc : UInt64) : Report :=
  { typ := .taskPop, cycle := s.cycleCount.toNat, wi := i, addr := pc }

/-- the report with which `RunCycle` announces the death of a warrior -/
def termReport (s : Sim) (i : Nat) (pc : UInt64) : Report :=
  { typ := .warriorTerminate, cycle := s.cycleCount.toNat, wi := i, addr := pc }

theorem pops_popReport (s : Sim) (i : Nat) (pc : UInt64) (l : List Report) :
    pops (popReport s i pc :: l) = (Int.ofNat i, pc.toNat) :: pops l := by
  simp [pops, popReport]

/-- what the model appended to the log (`s` before, `s'` after) carries the same
    (warrior, pc) trace as the reference's events `evs` -/
def LogRel (s s' : Sim) (evs : List Ev) : Prop :=
  ∃ new : List Report, s'.log.toList = s.log.toList ++ new ∧ pops new = execs evs

theorem LogRel.refl (s : Sim) : LogRel s s [] := ⟨[], by simp, rfl⟩

theorem LogRel.trans {s s' s'' : Sim} {e e' : List Ev} (h : LogRel s s' e) (h' : LogRel s' s'' e') :
    LogRel s s'' (e ++ e') := by
  obtain ⟨n, hn, hp⟩ := h
  obtain ⟨n', hn', hp'⟩ := h'
  exact ⟨n ++ n', by rw [hn', hn, List.append_assoc], by rw [pops_append, execs_append, hp, hp']⟩

theorem Spec.Api.turn_alive_execs (a : Api) (i : Nat) (aw : SW) (haw : a.ws[i]? = some aw)
    (hst : aw.st = .alive) (pc : Nat) (rest : List Nat) (hq : aw.q = pc :: rest) :
    execs (a.turn i).2 = [(Int.ofNat i, pc)] := by
  unfold Api.turn
  simp only [haw]
  have : (aw.st != WSt.alive) = false := by simp [hst]
  simp only [this, Bool.false_eq_true, if_false, hq]
  split <;> split <;> simp [execs]

/-- facts about the state `s2` reached by `exec` from `s.popped …`, phrased relative to `s` -/
structure AfterExec (s s2 : Sim) (a : Api) (i : Nat) (pc : UInt64) (rest : List UInt64)
    (q2 : PQ) : Prop where
  same   : Same s s2
  core   : s2.absCore = (step a.M a.R a.W a.core pc.toNat).core
  size   : s2.mem.size = s.mem.size
  fields : s2.FieldsOK
  others : ∀ j, j ≠ i → s2.warriors[j]? = s.warriors[j]?
  lt     : i < s2.warriors.size
  pq     : ∀ h : i < s2.warriors.size, s2.warriors[i].pq = some q2
  idx    : ∀ h : i < s2.warriors.size, s2.warriors[i].index = i
  state  : ∀ h : i < s2.warriors.size, s2.warriors[i].state = .alive
  inv    : q2.Inv
  qsize  : q2.size = s.maxProcs
  ent    : ∀ x ∈ q2.toList, x < s.m
  list   : q2.toList.map (·.toNat) =
             enqueue a.P (rest.map (·.toNat)) (step a.M a.R a.W a.core pc.toNat).succ
  living : s2.living = s.living
  log    : ∃ new : List Report, s2.log.toList = s.log.toList ++ popReport s i pc :: new ∧
             pops new = []

theorem exec_after (H : ExecRefines) {s : Sim} {a : Api} (hp : Pre s) (hr : Rel s a) (i : Nat)
    (hi : i < s.warriors.size) (q q' : PQ) (pc : UInt64) (rest : List UInt64)
    (hst : s.warriors[i].state = .alive) (hpq : s.warriors[i].pq = some q)
    (hl : q.toList = pc :: rest)
    (hinv' : q'.Inv) (hsz' : q'.size = q.size) (htl : q'.toList = rest) :
    ∃ s2 q2, (s.popped i hi q' pc).exec pc i = .ok s2 ∧ AfterExec s s2 a i pc rest q2 := by
  have hwf := hp.wf
  obtain ⟨hidx, hok2⟩ := hwf.warriors i hi
  rw [hpq] at hok2
  obtain ⟨_, hqsz, hent, _, _⟩ := hok2
  have htl' : q'.toList = q.toList.tail := by rw [hl]; exact htl
  have hpre : StepPre (s.poppedWF i hi q' pc) pc i q' :=
    { wf := Sim.poppedWF_wf hwf i hi q q' pc hst hpq hinv' hsz' htl'
      m32 := hp.m32
      rl := hp.rl
      wl := hp.wl
      pc := hent pc (by rw [hl]; exact List.mem_cons_self)
      pq := by
        unfold Sim.pqOf Sim.poppedWF
        simp only [Array.getElem?_set_self, Option.bind_some]
      qinv := hinv' }
  obtain ⟨s2, q2, hex, hcore, hpq2, hinv2, hsz2, hl2, hfr, hfo, hent2⟩ :=
    exec_refines_relabel H _ pc i q' hpre .alive 1 (s.popped i hi q' pc)
      (Sim.popped_eq_relabel s i hi q' pc hst)
  obtain ⟨h2, hpq2'⟩ := Sim.pqOf_eq_some hpq2
  have hsame := hfr.same { s.warriors[i] with pq := some q' } s2.warriors[i]
    (by simp only [Sim.popped, Sim.report]; exact Array.getElem?_set_self hi)
    (Array.getElem?_eq_getElem h2)
  refine ⟨s2, q2, hex, ?_⟩
  refine
    { same := ⟨hfr.m, hfr.maxProcs, hfr.maxCycles, hfr.readLimit, hfr.writeLimit, ?_,
               hfr.count, hfr.widx, hfr.cycle⟩
      core := ?_
      size := hfr.size
      fields := hfo
      others := ?_
      lt := h2
      pq := fun _ => hpq2'
      idx := fun _ => hsame.2.1.trans hidx
      state := fun _ => hsame.2.2.trans hst
      inv := hinv2
      qsize := hsz2.trans (hsz'.trans hqsz)
      ent := hent2
      list := ?_
      living := hfr.living
      log := ?_ }
  · rw [hfr.wsize]; simp [Sim.popped, Sim.report]
  · rw [hcore, hr.M, hr.R, hr.W, hr.core]; rfl
  · intro j hj
    rw [hfr.others j hj]
    simp only [Sim.popped, Sim.report]
    exact Array.getElem?_set_ne hi (Ne.symm hj)
  · rw [hl2, hsz', hqsz, htl, hr.P, hr.M, hr.R, hr.W, hr.core]; rfl
  · obtain ⟨new, hnew, hnp⟩ := exec_log _ _ _ _ hex
    refine ⟨new, ?_, pops_eq_nil new hnp⟩
    rw [hnew]
    simp [Sim.popped, Sim.report, popReport]

theorem Sim.killed_same (s : Sim) (i : Nat) (h : i < s.warriors.size) (pc : UInt64) :
    Same s (s.killed i h pc) :=
  ⟨rfl, rfl, rfl, rfl, rfl, by simp [Sim.killed], rfl, rfl, rfl⟩

/-- the warrior survives its turn -/
theorem turn_survives {s s2 : Sim} {a : Api} (hp : Pre s) (hr : Rel s a) (i : Nat)
    (pc : UInt64) (rest : List UInt64) (q2 : PQ)
    (h : AfterExec s s2 a i pc rest q2) (hz : q2.length ≠ 0) (aw : SW)
    (haw : a.ws[i]? = some aw) (hast : aw.st = .alive) :
    Rel s2 (a.turned i aw pc.toNat (rest.map (·.toNat))) ∧ s2.WF ∧
      stopCond a (a.turned i aw pc.toNat (rest.map (·.toNat))) = false := by
  have h2 := h.lt
  have hne : q2.toList ≠ [] := fun hc => hz ((PQ.length_eq_zero_iff q2).mpr hc)
  have hemp : (enqueue a.P (rest.map (·.toNat)) (step a.M a.R a.W a.core pc.toNat).succ).isEmpty
      = false := by
    rw [← h.list]
    cases hq : q2.toList with
    | nil => exact absurd hq hne
    | cons _ _ => rfl
  have hrel : Rel s2 (a.turned i aw pc.toNat (rest.map (·.toNat))) := by
    unfold Api.turned
    simp only [hemp, Bool.false_eq_true, if_false]
    refine hr.update h.same i _ h.core h.others s2.warriors[i]
      (Array.getElem?_eq_getElem h.lt) _ ?_ ?_
    · show aw.st = _
      rw [hast, h.state h.lt]; rfl
    · show _ = s2.warriors[i].absQueue
      unfold Warrior.absQueue
      rw [h.pq h.lt]
      exact h.list.symm
  have hliv : (a.turned i aw pc.toNat (rest.map (·.toNat))).living = a.living := by
    have := Api.living_set a i aw
      { aw with q := enqueue a.P (rest.map (·.toNat)) (step a.M a.R a.W a.core pc.toNat).succ }
      haw (step a.M a.R a.W a.core pc.toNat).core
    simp only [Nat.add_right_cancel_iff] at this
    unfold Api.turned
    simp only [hemp, Bool.false_eq_true, if_false]
    exact this
  refine ⟨hrel, ?_, ?_⟩
  · refine hp.wf.update h.same i h.size h.fields h.others s2.warriors[i]
      (Array.getElem?_eq_getElem h.lt) ?_ ?_
    · refine Sim.WarriorOK.mk_some (h.idx h.lt) (h.pq h.lt) ⟨h.inv, ?_, ?_, fun _ => hz, ?_⟩
      · rw [h.same.maxProcs]; exact h.qsize
      · rw [h.same.m]; exact h.ent
      · intro hc; rw [h.state h.lt] at hc; cases hc
    · rw [Sim.aliveCount_eq_living hrel, hliv, h.living]
      exact hr.living hp.wf
  · unfold stopCond
    rw [hliv]
    simp

/-- the warrior dies in its turn -/
theorem turn_dies {s s2 : Sim} {a : Api} (hp : Pre s) (hr : Rel s a) (i : Nat)
    (pc : UInt64) (rest : List UInt64) (q2 : PQ)
    (h : AfterExec s s2 a i pc rest q2) (hz : q2.length = 0) (aw : SW)
    (haw : a.ws[i]? = some aw) (hast : aw.st = .alive) :
    Rel (s2.killed i h.lt pc) (a.turned i aw pc.toNat (rest.map (·.toNat))) ∧
      (s2.killed i h.lt pc).WF ∧
      (a.turned i aw pc.toNat (rest.map (·.toNat))).living + 1 = a.living := by
  have h2 := h.lt
  have hnil : q2.toList = [] := (PQ.length_eq_zero_iff q2).mp hz
  have hemp : (enqueue a.P (rest.map (·.toNat)) (step a.M a.R a.W a.core pc.toNat).succ).isEmpty
      = true := by
    rw [← h.list, hnil]; rfl
  have hsame : Same s (s2.killed i h.lt pc) := h.same.trans (s2.killed_same i h.lt pc)
  have hothers : ∀ j, j ≠ i → (s2.killed i h.lt pc).warriors[j]? = s.warriors[j]? := by
    intro j hj
    rw [← h.others j hj]
    simp only [Sim.killed]
    exact Array.getElem?_set_ne h.lt (Ne.symm hj)
  have hw3 : (s2.killed i h.lt pc).warriors[i]? = some { s2.warriors[i] with state := .dead } := by
    simp only [Sim.killed]
    exact Array.getElem?_set_self h.lt
  have hrel : Rel (s2.killed i h.lt pc) (a.turned i aw pc.toNat (rest.map (·.toNat))) := by
    unfold Api.turned
    simp only [hemp, if_true]
    refine hr.update hsame i _ h.core hothers _ hw3 _ rfl ?_
    show _ = Warrior.absQueue _
    unfold Warrior.absQueue
    simp only [h.pq h.lt]
    exact h.list.symm
  have hliv : (a.turned i aw pc.toNat (rest.map (·.toNat))).living + 1 = a.living := by
    have := Api.living_set a i aw
      { aw with q := enqueue a.P (rest.map (·.toNat)) (step a.M a.R a.W a.core pc.toNat).succ,
                st := .dead }
      haw (step a.M a.R a.W a.core pc.toNat).core
    simp only [hast, beq_self_eq_true, if_true] at this
    unfold Api.turned
    simp only [hemp, if_true]
    exact this
  refine ⟨hrel, ?_, hliv⟩
  refine hp.wf.update hsame i h.size h.fields hothers _ hw3 ?_ ?_
  · refine Sim.WarriorOK.mk_some (h.idx h.lt) (h.pq h.lt) ⟨h.inv, ?_, ?_, ?_, fun _ => hz⟩
    · rw [hsame.maxProcs]; exact h.qsize
    · rw [hsame.m]; exact h.ent
    · intro hc; cases hc
  · rw [Sim.aliveCount_eq_living hrel]
    show s2.living - 1 = _
    rw [h.living, hr.living hp.wf, ← hliv]
    simp only [Int.ofNat_eq_natCast]
    omega

/-- One iteration of the warrior loop of `RunCycle` is one `turn` of the reference scheduler;
    it returns early exactly when the reference scheduler stops the cycle. -/
theorem runWarrior_refines (H : ExecRefines) {s : Sim} {a : Api} (hp : Pre s) (hr : Rel s a) (i : Nat)
    (hi : i < s.warriors.size) :
    ∃ s' r, s.runWarrior i = .ok (s', r) ∧ Rel s' (a.turn i).1 ∧ s'.WF ∧ Same s s' ∧
      r = (if stopCond a (a.turn i).1 then some 1 else none) ∧ LogRel s s' (a.turn i).2 := by
  have hwf := hp.wf
  have hia : i < a.ws.length := by rw [hr.len]; exact hi
  have haw : a.ws[i]? = some a.ws[i] := List.getElem?_eq_getElem hia
  obtain ⟨hst_rel, hq_rel⟩ := hr.ws i hi hia
  by_cases hst : s.warriors[i].state = .alive
  · -- the warrior runs a task
    have hast : a.ws[i].st = .alive := by rw [hst_rel, hst]; rfl
    obtain ⟨hidx, hok2⟩ := hwf.warriors i hi
    cases hpq : s.warriors[i].pq with
    | none =>
      rw [hpq] at hok2
      simp only at hok2
      rw [hst] at hok2; cases hok2
    | some q =>
      rw [hpq] at hok2
      obtain ⟨hinv, hqsz, hent, hne, _⟩ := hok2
      obtain ⟨q', hpop, hinv', hsz', htl⟩ := PQ.pop_ok q hinv
      cases hl : q.toList with
      | nil => exact absurd ((PQ.length_eq_zero_iff q).mpr hl) (hne hst)
      | cons pc rest =>
        rw [hl] at hpop htl
        simp only [List.head?_cons, List.tail_cons] at hpop htl
        have hq : a.ws[i].q = pc.toNat :: rest.map (·.toNat) := by
          rw [hq_rel (by rw [hst]; intro hc; cases hc)]
          unfold Warrior.absQueue
          rw [hpq]
          simp only [hl, List.map_cons]
        have hexecs := Api.turn_alive_execs a i _ haw hast pc.toNat (rest.map (·.toNat)) hq
        rw [Api.turn_alive a i _ haw hast pc.toNat (rest.map (·.toNat)) hq]
        obtain ⟨s2, q2, hex, hafter⟩ := exec_after H hp hr i hi q q' pc rest hst hpq hl hinv' hsz' htl
        have hrun := runWarrior_alive s i hi q q' pc hst hpq hpop s2 hex hafter.lt q2
          (hafter.pq hafter.lt)
        by_cases hz : q2.length = 0
        · obtain ⟨hrel, hwf3, hliv⟩ := turn_dies hp hr i pc rest q2 hafter hz _ haw hast
          rw [if_pos hz] at hrun
          obtain ⟨new, hnew, hnp⟩ := hafter.log
          refine ⟨_, _, hrun, hrel, hwf3, hafter.same.trans (s2.killed_same i hafter.lt pc), ?_,
            ⟨popReport s i pc :: (new ++ [termReport s2 i pc]), ?_, ?_⟩⟩
          rotate_left
          · simp only [Sim.killed, termReport, Array.toList_push, hnew, List.append_assoc,
              List.cons_append]
          · rw [pops_popReport, pops_append, hnp, hexecs]
            simp [pops, termReport]
          have hl3 := hrel.living hwf3
          have hc3 := hwf3.count
          have hlen3 := hrel.len
          unfold stopCond
          rw [hl3, hc3, ← hlen3]
          simp only [Int.ofNat_eq_natCast]
          by_cases hc : (a.turned i a.ws[i] pc.toNat (rest.map (·.toNat))).ws.length > 1 ∧
              (a.turned i a.ws[i] pc.toNat (rest.map (·.toNat))).living = 1
          · have h1 : ((a.turned i a.ws[i] pc.toNat (rest.map (·.toNat))).ws.length : Int) > 1 ∧
                ((a.turned i a.ws[i] pc.toNat (rest.map (·.toNat))).living : Int) = 1 := by omega
            rw [if_pos h1]
            have h2 : (decide ((a.turned i a.ws[i] pc.toNat (rest.map (·.toNat))).living < a.living) &&
                decide ((a.turned i a.ws[i] pc.toNat (rest.map (·.toNat))).ws.length > 1) &&
                (a.turned i a.ws[i] pc.toNat (rest.map (·.toNat))).living == 1) = true := by
              simp only [Bool.and_eq_true, decide_eq_true_eq, beq_iff_eq]
              omega
            rw [if_pos h2, hc.2]; rfl
          · have h1 : ¬ (((a.turned i a.ws[i] pc.toNat (rest.map (·.toNat))).ws.length : Int) > 1 ∧
                ((a.turned i a.ws[i] pc.toNat (rest.map (·.toNat))).living : Int) = 1) := by omega
            rw [if_neg h1]
            have h2 : ¬ (decide ((a.turned i a.ws[i] pc.toNat (rest.map (·.toNat))).living < a.living) &&
                decide ((a.turned i a.ws[i] pc.toNat (rest.map (·.toNat))).ws.length > 1) &&
                (a.turned i a.ws[i] pc.toNat (rest.map (·.toNat))).living == 1) = true := by
              simp only [Bool.and_eq_true, decide_eq_true_eq, beq_iff_eq]
              omega
            rw [if_neg h2]
        · obtain ⟨hrel, hwf2, hstop⟩ := turn_survives hp hr i pc rest q2 hafter hz _ haw hast
          rw [if_neg hz] at hrun
          obtain ⟨new, hnew, hnp⟩ := hafter.log
          refine ⟨_, _, hrun, hrel, hwf2, hafter.same, ?_, ⟨popReport s i pc :: new, hnew, ?_⟩⟩
          · rw [hstop]; rfl
          · rw [pops_popReport, hnp, hexecs]
  · -- not alive: skipped
    have hast : a.ws[i].st ≠ .alive := by
      rw [hst_rel]
      cases hs : s.warriors[i].state with
      | alive => exact absurd hs hst
      | added => intro hc; cases hc
      | dead => intro hc; cases hc
    rw [Api.turn_skip a i _ haw hast]
    refine ⟨s, none, runWarrior_skip s i hi hst, hr, hwf, Same.refl s, ?_, LogRel.refl s⟩
    unfold stopCond
    simp

/-! ## the warrior loop -/

theorem Spec.Api.turns_cons_fst (a : Api) (i : Nat) (is : List Nat) :
    (a.turns (i :: is)).1 =
      if stopCond a (a.turn i).1 then (a.turn i).1 else ((a.turn i).1.turns is).1 := by
  rw [Api.turns]
  simp only [stopCond]
  split <;> rename_i hc <;> simp only [hc, if_true, Bool.false_eq_true, if_false]

theorem Spec.Api.turns_cons_stop (a : Api) (i : Nat) (is : List Nat) :
    (a.turns (i :: is)).2.2 =
      if stopCond a (a.turn i).1 then true else ((a.turn i).1.turns is).2.2 := by
  rw [Api.turns]
  simp only [stopCond]
  split <;> rename_i hc <;> simp only [hc, if_true, Bool.false_eq_true, if_false]

theorem Spec.Api.turns_cons_evs (a : Api) (i : Nat) (is : List Nat) :
    (a.turns (i :: is)).2.1 =
      if stopCond a (a.turn i).1 then (a.turn i).2
      else (a.turn i).2 ++ ((a.turn i).1.turns is).2.1 := by
  rw [Api.turns]
  simp only [stopCond]
  split <;> rename_i hc <;> simp only [hc, if_true, Bool.false_eq_true, if_false]

/-- the reference scheduler stops a cycle early only with a single survivor among several -/
theorem Spec.Api.turns_stop (a : Api) (is : List Nat) (h : (a.turns is).2.2 = true) :
    (a.turns is).1.living = 1 ∧ (a.turns is).1.ws.length > 1 := by
  induction is generalizing a with
  | nil => simp [Api.turns] at h
  | cons i is ih =>
    rw [Api.turns_cons_stop] at h
    rw [Api.turns_cons_fst]
    by_cases hc : stopCond a (a.turn i).1 = true
    · rw [if_pos hc]
      unfold stopCond at hc
      simp only [Bool.and_eq_true, decide_eq_true_eq, beq_iff_eq] at hc
      exact ⟨hc.2, hc.1.2⟩
    · rw [if_neg hc] at h ⊢
      exact ih _ h

theorem runWarriors_refines (H : ExecRefines) {s : Sim} {a : Api} (hp : Pre s) (hr : Rel s a) (is : List Nat)
    (his : ∀ i ∈ is, i < s.warriors.size) :
    ∃ s' r, s.runWarriors is = .ok (s', r) ∧ Rel s' (a.turns is).1 ∧ s'.WF ∧ Same s s' ∧
      r = (if (a.turns is).2.2 then some 1 else none) ∧ LogRel s s' (a.turns is).2.1 := by
  induction is generalizing s a with
  | nil => exact ⟨s, none, rfl, hr, hp.wf, Same.refl s, rfl, LogRel.refl s⟩
  | cons i is ih =>
    obtain ⟨s1, r1, hrun, hrel1, hwf1, hsame1, hr1, hlog1⟩ :=
      runWarrior_refines H hp hr i (his i List.mem_cons_self)
    rw [Api.turns_cons_fst, Api.turns_cons_stop, Api.turns_cons_evs]
    unfold Sim.runWarriors
    rw [hrun]
    by_cases hc : stopCond a (a.turn i).1 = true
    · rw [if_pos hc] at hr1 ⊢
      rw [if_pos hc, if_pos hc, hr1]
      exact ⟨s1, some 1, rfl, hrel1, hwf1, hsame1, rfl, hlog1⟩
    · rw [if_neg hc] at hr1 ⊢
      rw [if_neg hc, if_neg hc, hr1]
      obtain ⟨s2, r2, hrun2, hrel2, hwf2, hsame2, hr2, hlog2⟩ :=
        ih (hp.of_same hsame1 hwf1) hrel1
          (fun j hj => by rw [hsame1.wsize]; exact his j (List.mem_cons_of_mem _ hj))
      exact ⟨s2, r2, hrun2, hrel2, hwf2, hsame1.trans hsame2, hr2, hlog1.trans hlog2⟩

/-! ## `RunCycle` -/

theorem Sim.WF.report {s : Sim} (h : s.WF) (r : Report) : (s.report r).WF :=
  ⟨h.size, h.m3, h.rl, h.wl, h.procs, h.cycles, h.fields, h.count, h.widx, h.warriors, h.living,
   h.cycle⟩

theorem Rel.report {s : Sim} {a : Api} (h : Rel s a) (r : Report) : Rel (s.report r) a :=
  ⟨h.M, h.R, h.W, h.P, h.C, h.core, h.cycles, h.len, h.ws⟩

theorem Pre.report {s : Sim} (h : Pre s) (r : Report) : Pre (s.report r) :=
  ⟨h.wf.report r, h.m32, h.rl, h.wl⟩

theorem Sim.not_finished_lt {s : Sim} (h : s.finished = false) : s.cycleCount < s.maxCycles := by
  unfold Sim.finished at h
  by_cases hc : s.cycleCount ≥ s.maxCycles
  · simp [hc] at h
  · exact UInt64.not_le.mp hc

/-- the configuration, which no API call of a battle changes -/
structure SameCfg (s s' : Sim) : Prop where
  m          : s'.m = s.m
  maxProcs   : s'.maxProcs = s.maxProcs
  maxCycles  : s'.maxCycles = s.maxCycles
  readLimit  : s'.readLimit = s.readLimit
  writeLimit : s'.writeLimit = s.writeLimit
  wsize      : s'.warriors.size = s.warriors.size

theorem SameCfg.refl (s : Sim) : SameCfg s s := ⟨rfl, rfl, rfl, rfl, rfl, rfl⟩

theorem SameCfg.trans {s s' s'' : Sim} (h : SameCfg s s') (h' : SameCfg s' s'') : SameCfg s s'' :=
  ⟨h'.m.trans h.m, h'.maxProcs.trans h.maxProcs, h'.maxCycles.trans h.maxCycles,
   h'.readLimit.trans h.readLimit, h'.writeLimit.trans h.writeLimit, h'.wsize.trans h.wsize⟩

theorem Same.cfg {s s' : Sim} (h : Same s s') : SameCfg s s' :=
  ⟨h.m, h.maxProcs, h.maxCycles, h.readLimit, h.writeLimit, h.wsize⟩

theorem Pre.of_cfg {s s' : Sim} (h : Pre s) (hs : SameCfg s s') (hwf : s'.WF) : Pre s' :=
  ⟨hwf, by rw [hs.m]; exact h.m32, by rw [hs.m, hs.readLimit]; exact h.rl,
   by rw [hs.m, hs.writeLimit]; exact h.wl⟩

theorem LogRel.report_left {s s' : Sim} {e : List Ev} {r : Report} (h : LogRel (s.report r) s' e)
    (hr : r.typ ≠ .taskPop) : LogRel s s' e := by
  obtain ⟨n, hn, hp⟩ := h
  refine ⟨r :: n, by simp [hn, Sim.report], ?_⟩
  have : pops [r] = [] := pops_eq_nil [r] (by intro x hx; simp at hx; rw [hx]; exact hr)
  rw [show r :: n = [r] ++ n from rfl, pops_append, this, hp]; rfl

theorem LogRel.push_right {s s' s'' : Sim} {e : List Ev} {r : Report} (h : LogRel s s' e)
    (hr : r.typ ≠ .taskPop) (hl : s''.log = s'.log.push r) : LogRel s s'' e := by
  obtain ⟨n, hn, hp⟩ := h
  refine ⟨n ++ [r], by simp [hl, hn], ?_⟩
  have : pops [r] = [] := pops_eq_nil [r] (by intro x hx; simp at hx; rw [hx]; exact hr)
  rw [pops_append, this, hp, List.append_nil]

/-- `runCycle_refines` with the bookkeeping needed for `Run` -/
theorem runCycle_refines_aux (H : ExecRefines) {s : Sim} {a : Api} (hp : Pre s) (hr : Rel s a) :
    ∃ s' n, s.runCycle = .ok (s', n) ∧ Rel s' a.cycle.1 ∧ n = Int.ofNat a.cycle.2.2 ∧ s'.WF ∧
      SameCfg s s' ∧
      (s.finished = false → a.cycle.2.2 = a.cycle.1.living ∧
        (s'.cycleCount.toNat = s.cycleCount.toNat + 1 ∨
          (a.cycle.1.living = 1 ∧ a.cycle.1.ws.length > 1))) ∧
      LogRel s s' a.cycle.2.1 := by
  have hwf := hp.wf
  have hfin := finished_iff hr hwf
  unfold Sim.runCycle Api.cycle
  by_cases hf : s.finished = true
  · have hfa : a.finished = true := by rw [← hfin]; exact hf
    rw [if_pos hf, if_pos hfa]
    exact ⟨s, 0, rfl, hr, rfl, hwf, SameCfg.refl s, fun h => (by rw [hf] at h; cases h),
      LogRel.refl s⟩
  · have hfa : ¬ a.finished = true := by rw [← hfin]; exact hf
    have hf' : s.finished = false := by simpa using hf
    rw [if_neg hf, if_neg hfa]
    have hlt := Sim.not_finished_lt hf'
    have hidx : (s.warriorIndex == 0) = true := by rw [hwf.widx]; rfl
    simp only [hidx, if_true]
    have hn : (s.report { typ := .cycleStart, cycle := s.cycleCount.toNat }).warriorCount.toNat
        = a.ws.length := by
      show s.warriorCount.toNat = _
      rw [hwf.count, hr.len]; rfl
    have hw0 : (s.report { typ := .cycleStart, cycle := s.cycleCount.toNat }).warriorIndex = 0 :=
      hwf.widx
    rw [hn, hw0, List.drop_zero]
    obtain ⟨s1, r1, hrun, hrel1, hwf1, hsame1, hr1, hlog1⟩ :=
      runWarriors_refines H (hp.report { typ := .cycleStart, cycle := s.cycleCount.toNat })
        (hr.report _) (List.range a.ws.length)
        (fun i hi => by
          rw [List.mem_range, hr.len] at hi; exact hi)
    simp only [bind, Except.bind, hrun]
    have hsame : Same s s1 := ⟨hsame1.m, hsame1.maxProcs, hsame1.maxCycles, hsame1.readLimit,
      hsame1.writeLimit, hsame1.wsize, hsame1.count, hsame1.widx, hsame1.cycle⟩
    have hlog : LogRel s s1 (a.turns (List.range a.ws.length)).2.1 :=
      hlog1.report_left (by intro hc; cases hc)
    by_cases hstop : (a.turns (List.range a.ws.length)).2.2 = true
    · rw [if_pos hstop] at hr1
      obtain ⟨hl1, hlen1⟩ := Api.turns_stop a _ hstop
      simp only [hr1, hstop, if_true]
      refine ⟨s1, 1, rfl, hrel1, ?_, hwf1, hsame.cfg, fun _ => ⟨trivial, Or.inr ⟨hl1, hlen1⟩⟩,
        hlog⟩
      rw [hl1]; rfl
    · rw [if_neg hstop] at hr1
      have hstop' : (a.turns (List.range a.ws.length)).2.2 = false := by simpa using hstop
      simp only [hr1, hstop', Bool.false_eq_true, if_false]
      have hcc : (s1.cycleCount + 1).toNat = s1.cycleCount.toNat + 1 := by
        rw [UInt64.toNat_add, UInt64.toNat_one, Nat.mod_eq_of_lt]
        have := UInt64.lt_iff_toNat_lt.mp hlt
        have := s.maxCycles.toNat_lt
        rw [hsame.cycle]; omega
      refine ⟨_, _, rfl, ?_, ?_, ?_, ?_, fun _ => ⟨rfl, Or.inl ?_⟩,
        hlog.push_right (r := { typ := .cycleEnd, cycle := s1.cycleCount.toNat })
          (by intro hc; cases hc) rfl⟩
      · exact
          { M := hrel1.M, R := hrel1.R, W := hrel1.W, P := hrel1.P, C := hrel1.C,
            core := hrel1.core
            cycles := by
              show (a.turns (List.range a.ws.length)).1.cycles + 1 = (s1.cycleCount + 1).toNat
              rw [hcc, hrel1.cycles]
            len := hrel1.len, ws := hrel1.ws }
      · exact hrel1.living hwf1
      · exact
          { size := hwf1.size, m3 := hwf1.m3, rl := hwf1.rl, wl := hwf1.wl, procs := hwf1.procs,
            cycles := hwf1.cycles, fields := hwf1.fields, count := hwf1.count, widx := rfl,
            warriors := hwf1.warriors, living := hwf1.living
            cycle := by
              show s1.cycleCount + 1 ≤ s1.maxCycles
              rw [UInt64.le_iff_toNat_le, hcc, hsame.cycle, hsame.maxCycles]
              exact UInt64.lt_iff_toNat_lt.mp hlt }
      · exact ⟨hsame.m, hsame.maxProcs, hsame.maxCycles, hsame.readLimit, hsame.writeLimit,
          hsame.wsize⟩
      · show (s1.cycleCount + 1).toNat = _
        rw [hcc, hsame.cycle]

/-- **C02, one cycle.** `RunCycle` of the model is one cycle of the reference scheduler. -/
theorem runCycle_refines_of (H : ExecRefines) {s : Sim} {a : Api} (hwf : s.WF) (hm : s.m.toNat ≤ 2 ^ 32)
    (hrl : s.readLimit.toNat ≤ s.m.toNat) (hwl : s.writeLimit.toNat ≤ s.m.toNat) (hr : Rel s a) :
    ∃ s' n, s.runCycle = .ok (s', n) ∧ Rel s' a.cycle.1 ∧ n = Int.ofNat a.cycle.2.2 ∧ s'.WF := by
  obtain ⟨s', n, h1, h2, h3, h4, _⟩ := runCycle_refines_aux H ⟨hwf, hm, hrl, hwl⟩ hr
  exact ⟨s', n, h1, h2, h3, h4⟩

/-- the `taskPop` reports a cycle appends to the log list the same (warrior, pc) pairs, in the
    same order, as the `exec` events of the reference scheduler's cycle -/
theorem runCycle_trace_of (H : ExecRefines) {s : Sim} {a : Api} (hwf : s.WF) (hm : s.m.toNat ≤ 2 ^ 32)
    (hrl : s.readLimit.toNat ≤ s.m.toNat) (hwl : s.writeLimit.toNat ≤ s.m.toNat) (hr : Rel s a) :
    ∃ s' n new, s.runCycle = .ok (s', n) ∧ s'.log.toList = s.log.toList ++ new ∧
      pops new = execs a.cycle.2.1 := by
  obtain ⟨s', n, h1, _, _, _, _, _, new, h2, h3⟩ := runCycle_refines_aux H ⟨hwf, hm, hrl, hwl⟩ hr
  exact ⟨s', n, new, h1, h2, h3⟩

/-! ## `Run` -/

theorem Spec.Api.run_of_finished (a : Api) (k : Nat) (h : a.finished = true) : a.run k = (a, []) := by
  cases k with
  | zero => rfl
  | succ k => rw [Api.run, if_pos h]

theorem Spec.Api.run_succ (a : Api) (k : Nat) (h : ¬ a.finished = true) :
    (a.run (k + 1)).1 = (a.cycle.1.run k).1 := by
  rw [Api.run, if_neg h]

theorem Spec.Api.finished_of_living_zero (a : Api) (h : a.living = 0) : a.finished = true := by
  unfold Api.finished
  simp [h]

theorem Spec.Api.finished_of_single (a : Api) (h : a.living = 1) (hl : a.ws.length > 1) :
    a.finished = true := by
  unfold Api.finished
  simp [h, hl]

/-- the test with which `Run()` leaves its loop right after a cycle that returned `n` -/
def Sim.earlyExit (s : Sim) (n : Int) : Prop :=
  (s.warriors.size = 1 ∧ n = 0) ∨ (s.warriors.size > 1 ∧ n = 1)

instance (s : Sim) (n : Int) : Decidable (s.earlyExit n) := by
  unfold Sim.earlyExit; exact inferInstance

theorem Sim.runLoop_succ (s : Sim) (k : Nat) (hf : s.finished = false) (s1 : Sim) (n : Int)
    (hrun : s.runCycle = .ok (s1, n)) :
    s.runLoop (k + 1) = if s.earlyExit n then .ok (s1, true) else s1.runLoop k := by
  rw [Sim.runLoop]
  simp only [hf, Bool.false_eq_true, if_false, bind, Except.bind, hrun]
  by_cases he1 : s.warriors.size = 1 ∧ n = 0
  · have hc : (s.warriors.size == 1 && n == 0) = true := by simp [he1.1, he1.2]
    rw [if_pos hc, if_pos (show s.earlyExit n from Or.inl he1)]
  · have hc : ¬ (s.warriors.size == 1 && n == 0) = true := by
      simp only [Bool.and_eq_true, beq_iff_eq]; exact he1
    rw [if_neg hc]
    by_cases he2 : s.warriors.size > 1 ∧ n = 1
    · have hc2 : (decide (s.warriors.size > 1) && n == 1) = true := by simp [he2.1, he2.2]
      rw [if_pos hc2, if_pos (show s.earlyExit n from Or.inr he2)]
    · have hc2 : ¬ (decide (s.warriors.size > 1) && n == 1) = true := by
        simp only [Bool.and_eq_true, decide_eq_true_eq, beq_iff_eq]; exact he2
      rw [if_neg hc2, if_neg (fun h : s.earlyExit n => Or.elim h he1 he2)]

/-- one non-final iteration of the loop of `Run()`: either `Run()` leaves the loop, and the
    state is then `finished`, or a full cycle has been counted -/
theorem cycle_step (H : ExecRefines) {s : Sim} {a : Api} (hp : Pre s) (hr : Rel s a) (hf : s.finished = false) :
    ∃ s1 n, s.runCycle = .ok (s1, n) ∧ Rel s1 a.cycle.1 ∧ s1.WF ∧ SameCfg s s1 ∧
      (if s.earlyExit n then s1.finished = true
       else s1.cycleCount.toNat = s.cycleCount.toNat + 1) := by
  obtain ⟨s1, n, hrun, hrel1, hn, hwf1, hcfg1, hprog, _⟩ := runCycle_refines_aux H hp hr
  obtain ⟨hn2, hprog⟩ := hprog hf
  rw [hn2] at hn
  have hlen : a.cycle.1.ws.length = s.warriors.size := by rw [hrel1.len, hcfg1.wsize]
  have hfin1 := finished_iff hrel1 hwf1
  refine ⟨s1, n, hrun, hrel1, hwf1, hcfg1, ?_⟩
  by_cases he : s.earlyExit n
  · rw [if_pos he, hfin1]
    rcases he with he1 | he2
    · apply Api.finished_of_living_zero
      have := he1.2; rw [hn] at this
      simp only [Int.ofNat_eq_natCast] at this; omega
    · apply Api.finished_of_single
      · have := he2.2; rw [hn] at this
        simp only [Int.ofNat_eq_natCast] at this; omega
      · rw [hlen]; exact he2.1
  · rw [if_neg he]
    rcases hprog with h | ⟨h1, h2⟩
    · exact h
    · exfalso; apply he
      refine Or.inr ⟨by rw [← hlen]; exact h2, ?_⟩
      rw [hn, h1]; rfl

/-- `Run()` with enough fuel ends, with a result slice, in the state the reference reaches by
    iterating cycles; that state is `finished`. -/
theorem runLoop_refines (H : ExecRefines) {s : Sim} {a : Api} (hp : Pre s) (hr : Rel s a) (fuel : Nat)
    (hfuel : s.maxCycles.toNat - s.cycleCount.toNat + 1 ≤ fuel) :
    ∃ s', s.runLoop fuel = .ok (s', true) ∧ Rel s' (a.run fuel).1 ∧ s'.WF ∧ SameCfg s s' ∧
      s'.finished = true := by
  induction fuel generalizing s a with
  | zero => omega
  | succ k ih =>
    have hfin := finished_iff hr hp.wf
    by_cases hf : s.finished = true
    · rw [Sim.runLoop, if_pos hf, Api.run_of_finished a _ (by rw [← hfin]; exact hf)]
      exact ⟨s, rfl, hr, hp.wf, SameCfg.refl s, hf⟩
    · have hf' : s.finished = false := by simpa using hf
      obtain ⟨s1, n, hrun, hrel1, hwf1, hcfg1, hstep⟩ := cycle_step H hp hr hf'
      rw [Sim.runLoop_succ s k hf' s1 n hrun, Api.run_succ a k (by rw [← hfin]; exact hf)]
      by_cases he : s.earlyExit n
      · rw [if_pos he] at hstep ⊢
        rw [Api.run_of_finished _ _ (by rw [← finished_iff hrel1 hwf1]; exact hstep)]
        exact ⟨s1, rfl, hrel1, hwf1, hcfg1, hstep⟩
      · rw [if_neg he] at hstep ⊢
        have hlt := UInt64.lt_iff_toNat_lt.mp (Sim.not_finished_lt hf')
        obtain ⟨s2, hrun2, hrel2, hwf2, hcfg2, hfin2⟩ :=
          ih (hp.of_cfg hcfg1 hwf1) hrel1 (by rw [hcfg1.maxCycles, hstep]; omega)
        exact ⟨s2, hrun2, hrel2, hwf2, hcfg1.trans hcfg2, hfin2⟩

/-- iterate `RunCycle` until the battle is `finished`, at most `fuel` times; the flag tells
    whether `finished` has been reached -/
def Sim.iterCycles (s : Sim) : Nat → Except Panic (Sim × Bool)
  | 0 => .ok (s, false)
  | fuel + 1 =>
    if s.finished then .ok (s, true)
    else do
      let (s', _) ← s.runCycle
      s'.iterCycles fuel

theorem Sim.iterCycles_of_finished (s : Sim) (k : Nat) (h : s.finished = true) :
    s.iterCycles (k + 1) = .ok (s, true) := by
  rw [Sim.iterCycles, if_pos h]

/-- **C02, `Run` is the iteration of `RunCycle`.** With the fuel `Run` is given (any fuel
    above the number of cycles still allowed), the loop of `Run()` - which inspects the
    count returned by `RunCycle` - computes exactly "repeat `RunCycle` until `finished`". -/
theorem run_eq_iterate_aux (H : ExecRefines) {s : Sim} {a : Api} (hp : Pre s) (hr : Rel s a) (fuel : Nat)
    (hfuel : s.maxCycles.toNat - s.cycleCount.toNat + 1 ≤ fuel) :
    s.runLoop fuel = s.iterCycles fuel := by
  induction fuel generalizing s a with
  | zero => rfl
  | succ k ih =>
    by_cases hf : s.finished = true
    · rw [Sim.runLoop, Sim.iterCycles, if_pos hf, if_pos hf]
    · have hf' : s.finished = false := by simpa using hf
      obtain ⟨s1, n, hrun, hrel1, hwf1, hcfg1, hstep⟩ := cycle_step H hp hr hf'
      have hlt := UInt64.lt_iff_toNat_lt.mp (Sim.not_finished_lt hf')
      rw [Sim.runLoop_succ s k hf' s1 n hrun, Sim.iterCycles, if_neg hf]
      simp only [bind, Except.bind, hrun]
      by_cases he : s.earlyExit n
      · rw [if_pos he] at hstep ⊢
        obtain ⟨k', rfl⟩ : ∃ k', k = k' + 1 := ⟨k - 1, by omega⟩
        rw [Sim.iterCycles_of_finished s1 k' hstep]
      · rw [if_neg he] at hstep ⊢
        exact ih (hp.of_cfg hcfg1 hwf1) hrel1 (by rw [hcfg1.maxCycles, hstep]; omega)

theorem results_eq {s : Sim} {a : Api} (h : Rel s a) :
    s.results = a.ws.map (fun w => w.st == .alive) := by
  unfold Sim.results
  apply List.ext_getElem
  · simp [h.len]
  · intro i h1 h2
    have hi : i < s.warriors.size := by simpa using h1
    have hi' : i < a.ws.length := by simpa using h2
    have := (h.ws i hi hi').1
    simp only [List.getElem_map, Array.getElem_toList, this, WState.abs_alive]

/-- **C02, `Run`.** `Run()` ends in the same final state as iterating cycles on the reference
    scheduler, and reports its survivors. -/
theorem run_refines_of (H : ExecRefines) {s : Sim} {a : Api} (hwf : s.WF) (hm : s.m.toNat ≤ 2 ^ 32)
    (hrl : s.readLimit.toNat ≤ s.m.toNat) (hwl : s.writeLimit.toNat ≤ s.m.toNat) (hr : Rel s a) :
    ∃ s', s.runLoop (s.maxCycles.toNat + 2) = .ok (s', true) ∧ Rel s' (a.run (a.C + 2)).1 ∧
      s'.results = (a.run (a.C + 2)).1.ws.map (fun w => w.st == .alive) := by
  obtain ⟨s', h1, h2, _, _, _⟩ :=
    runLoop_refines H ⟨hwf, hm, hrl, hwl⟩ hr (s.maxCycles.toNat + 2) (by omega)
  rw [hr.C]
  exact ⟨s', h1, h2, results_eq h2⟩

theorem run_eq_iterate_of (H : ExecRefines) {s : Sim} {a : Api} (hwf : s.WF) (hm : s.m.toNat ≤ 2 ^ 32)
    (hrl : s.readLimit.toNat ≤ s.m.toNat) (hwl : s.writeLimit.toNat ≤ s.m.toNat) (hr : Rel s a) :
    s.runLoop (s.maxCycles.toNat + 2) = s.iterCycles (s.maxCycles.toNat + 2) :=
  run_eq_iterate_aux H ⟨hwf, hm, hrl, hwl⟩ hr _ (by omega)

/-! ## the theorems of C02, with the step refinement `exec_refines` plugged in -/

/-- **C02, one cycle.** `RunCycle` of the model is one cycle of the reference scheduler: the
    same state (core, queues, life-cycle states, cycle count), the same returned living count,
    no panic, and the invariant is preserved. -/
theorem runCycle_refines {s : Sim} {a : Api} (hwf : s.WF) (hm : s.m.toNat ≤ 2 ^ 32)
    (hrl : s.readLimit.toNat ≤ s.m.toNat) (hwl : s.writeLimit.toNat ≤ s.m.toNat) (hr : Rel s a) :
    ∃ s' n, s.runCycle = .ok (s', n) ∧ Rel s' a.cycle.1 ∧ n = Int.ofNat a.cycle.2.2 ∧ s'.WF :=
  runCycle_refines_of exec_refines hwf hm hrl hwl hr

/-- **C02, `Run`.** `Run()` ends (with a result slice) in the same final state as iterating
    cycles on the reference scheduler, and reports its survivors. -/
theorem run_refines {s : Sim} {a : Api} (hwf : s.WF) (hm : s.m.toNat ≤ 2 ^ 32)
    (hrl : s.readLimit.toNat ≤ s.m.toNat) (hwl : s.writeLimit.toNat ≤ s.m.toNat) (hr : Rel s a) :
    ∃ s', s.runLoop (s.maxCycles.toNat + 2) = .ok (s', true) ∧ Rel s' (a.run (a.C + 2)).1 ∧
      s'.results = (a.run (a.C + 2)).1.ws.map (fun w => w.st == .alive) :=
  run_refines_of exec_refines hwf hm hrl hwl hr

/-- **C02, `Run` iterates `RunCycle`.** -/
theorem run_eq_iterate {s : Sim} {a : Api} (hwf : s.WF) (hm : s.m.toNat ≤ 2 ^ 32)
    (hrl : s.readLimit.toNat ≤ s.m.toNat) (hwl : s.writeLimit.toNat ≤ s.m.toNat) (hr : Rel s a) :
    s.runLoop (s.maxCycles.toNat + 2) = s.iterCycles (s.maxCycles.toNat + 2) :=
  run_eq_iterate_of exec_refines hwf hm hrl hwl hr

/-- **C02, trace of a cycle.** The `taskPop` reports appended by `RunCycle` name the same
    (warrior, pc) pairs in the same order as the `exec` events of the reference cycle. -/
theorem runCycle_trace {s : Sim} {a : Api} (hwf : s.WF) (hm : s.m.toNat ≤ 2 ^ 32)
    (hrl : s.readLimit.toNat ≤ s.m.toNat) (hwl : s.writeLimit.toNat ≤ s.m.toNat) (hr : Rel s a) :
    ∃ s' n new, s.runCycle = .ok (s', n) ∧ s'.log.toList = s.log.toList ++ new ∧
      pops new = execs a.cycle.2.1 :=
  runCycle_trace_of exec_refines hwf hm hrl hwl hr

/-- **C02/C04, `Run` ends.** `Run()` does not panic, does not run out of fuel, ends in a
    `finished` state and preserves the invariant. -/
theorem run_finished {s : Sim} {a : Api} (hwf : s.WF) (hm : s.m.toNat ≤ 2 ^ 32)
    (hrl : s.readLimit.toNat ≤ s.m.toNat) (hwl : s.writeLimit.toNat ≤ s.m.toNat) (hr : Rel s a) :
    ∃ s', s.runLoop (s.maxCycles.toNat + 2) = .ok (s', true) ∧ s'.finished = true ∧ s'.WF := by
  obtain ⟨s', h1, _, h3, _, h5⟩ :=
    runLoop_refines exec_refines ⟨hwf, hm, hrl, hwl⟩ hr (s.maxCycles.toNat + 2) (by omega)
  exact ⟨s', h1, h5, h3⟩

end Gmars
