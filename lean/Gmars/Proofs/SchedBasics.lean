/-
  Vocabulary of the scheduler refinement (C02): the simulation relation `Rel`
  between the model and the reference API state, counting lemmas, and the
  step refinement transported to the (not quite well-formed) state in which
  `RunCycle` calls `exec`.
-/
import Gmars.Proofs.RefineStmt
import Gmars.Proofs.WFExec
import Gmars.Proofs.ExecRelabel

namespace Gmars

/-! ## counting -/

theorem filter_length_set {α : Type} (p : α → Bool) (l : List α) (i : Nat) (x : α)
    (h : i < l.length) :
    ((l.set i x).filter p).length + (if p l[i] then 1 else 0) =
      (l.filter p).length + (if p x then 1 else 0) := by
  induction l generalizing i with
  | nil => simp at h
  | cons y ys ih =>
    cases i with
    | zero =>
      simp only [List.set_cons_zero, List.getElem_cons_zero, List.filter_cons]
      by_cases hx : p x = true <;> by_cases hy : p y = true <;> simp [hx, hy]
    | succ i =>
      simp only [List.set_cons_succ, List.getElem_cons_succ, List.filter_cons]
      have := ih i (by simpa using h)
      by_cases hy : p y = true <;> simp [hy] <;> omega

theorem filter_length_congr {α β : Type} (p : α → Bool) (q : β → Bool) (l1 : List α) (l2 : List β)
    (hlen : l1.length = l2.length)
    (h : ∀ i (h1 : i < l1.length) (h2 : i < l2.length), p l1[i] = q l2[i]) :
    (l1.filter p).length = (l2.filter q).length := by
  induction l1 generalizing l2 with
  | nil =>
    cases l2 with
    | nil => rfl
    | cons _ _ => simp at hlen
  | cons x xs ih =>
    cases l2 with
    | nil => simp at hlen
    | cons y ys =>
      have h0 := h 0 (by simp) (by simp)
      simp only [List.getElem_cons_zero] at h0
      have := ih ys (by simpa using hlen) (fun i h1 h2 => by
        have := h (i + 1) (by simpa using h1) (by simpa using h2)
        simpa using this)
      simp only [List.filter_cons, h0]
      cases q y <;> simp [this]

/-! ## the simulation relation -/

def WState.abs : WState → Spec.WSt
  | .added => .added | .alive => .alive | .dead => .dead

theorem WState.abs_alive (st : WState) : (st.abs == Spec.WSt.alive) = (st == WState.alive) := by
  cases st <;> rfl

/-- the model state `s` and the reference state `a` describe the same battle -/
structure Rel (s : Sim) (a : Spec.Api) : Prop where
  M : a.M = s.m.toNat
  R : a.R = s.readLimit.toNat
  W : a.W = s.writeLimit.toNat
  P : a.P = s.maxProcs.toNat
  C : a.C = s.maxCycles.toNat
  core : a.core = s.absCore
  cycles : a.cycles = s.cycleCount.toNat
  len : a.ws.length = s.warriors.size
  ws : ∀ i (h : i < s.warriors.size) (h' : i < a.ws.length),
        a.ws[i].st = s.warriors[i].state.abs ∧
        (s.warriors[i].state ≠ .added → a.ws[i].q = s.warriors[i].absQueue)

/-- the reference state described by a model state (witness that `Rel` is satisfiable) -/
def Sim.toApi (s : Sim) : Spec.Api :=
  { M := s.m.toNat, R := s.readLimit.toNat, W := s.writeLimit.toNat, P := s.maxProcs.toNat,
    C := s.maxCycles.toNat, core := s.absCore, cycles := s.cycleCount.toNat,
    ws := s.warriors.toList.map (fun w =>
      { code := w.data.code.toList.map Instr.abs, start := w.data.start.toNat,
        st := w.state.abs, q := w.absQueue }) }

theorem Rel.toApi (s : Sim) : Rel s s.toApi where
  M := rfl
  R := rfl
  W := rfl
  P := rfl
  C := rfl
  core := rfl
  cycles := rfl
  len := by simp [Sim.toApi]
  ws := by
    intro i h h'
    simp [Sim.toApi]

/-- hypotheses of the scheduler theorems -/
structure Pre (s : Sim) : Prop where
  wf  : s.WF
  m32 : s.m.toNat ≤ 2 ^ 32
  rl  : s.readLimit.toNat ≤ s.m.toNat
  wl  : s.writeLimit.toNat ≤ s.m.toNat

/-- configuration and bookkeeping a warrior's turn leaves alone -/
structure Same (s s' : Sim) : Prop where
  m          : s'.m = s.m
  maxProcs   : s'.maxProcs = s.maxProcs
  maxCycles  : s'.maxCycles = s.maxCycles
  readLimit  : s'.readLimit = s.readLimit
  writeLimit : s'.writeLimit = s.writeLimit
  wsize      : s'.warriors.size = s.warriors.size
  count      : s'.warriorCount = s.warriorCount
  widx       : s'.warriorIndex = s.warriorIndex
  cycle      : s'.cycleCount = s.cycleCount

theorem Same.refl (s : Sim) : Same s s := ⟨rfl, rfl, rfl, rfl, rfl, rfl, rfl, rfl, rfl⟩

theorem Same.trans {s s' s'' : Sim} (h : Same s s') (h' : Same s' s'') : Same s s'' :=
  ⟨h'.m.trans h.m, h'.maxProcs.trans h.maxProcs, h'.maxCycles.trans h.maxCycles,
   h'.readLimit.trans h.readLimit, h'.writeLimit.trans h.writeLimit, h'.wsize.trans h.wsize,
   h'.count.trans h.count, h'.widx.trans h.widx, h'.cycle.trans h.cycle⟩

theorem Pre.of_same {s s' : Sim} (h : Pre s) (hs : Same s s') (hwf : s'.WF) : Pre s' :=
  ⟨hwf, by rw [hs.m]; exact h.m32, by rw [hs.m, hs.readLimit]; exact h.rl,
   by rw [hs.m, hs.writeLimit]; exact h.wl⟩

theorem Sim.aliveCount_eq_living {s : Sim} {a : Spec.Api} (h : Rel s a) :
    s.aliveCount = a.living := by
  unfold Sim.aliveCount Spec.Api.living
  apply filter_length_congr
  · simp [h.len]
  · intro i h1 h2
    have h1' : i < s.warriors.size := by simpa using h1
    have := (h.ws i h1' h2).1
    simp only [Array.getElem_toList, this, WState.abs_alive]

theorem Rel.living {s : Sim} {a : Spec.Api} (h : Rel s a) (hwf : s.WF) :
    s.living = Int.ofNat a.living := by
  rw [hwf.living, Sim.aliveCount_eq_living h]

/-! ## `finished` -/

theorem finished_iff {s : Sim} {a : Spec.Api} (h : Rel s a) (hwf : s.WF) :
    s.finished = a.finished := by
  unfold Sim.finished Spec.Api.finished
  rw [h.living hwf, hwf.count, h.cycles, h.C, h.len]
  have hc : (s.cycleCount ≥ s.maxCycles) ↔ s.cycleCount.toNat ≥ s.maxCycles.toNat :=
    UInt64.le_iff_toNat_le
  have hl : ((Int.ofNat a.living) < 1) ↔ a.living < 1 := by
    show ((a.living : Int) < 1) ↔ _
    omega
  have h4 : (Int.ofNat s.warriors.size > 1) ↔ s.warriors.size > 1 := by
    show ((s.warriors.size : Int) > 1) ↔ _
    omega
  have h5 : (Int.ofNat a.living = 1) ↔ a.living = 1 := by
    show ((a.living : Int) = 1) ↔ _
    omega
  rw [Bool.eq_iff_iff]
  simp only [hc, hl, h4, h5, Bool.or_eq_true, Bool.and_eq_true, decide_eq_true_eq, beq_iff_eq,
    Bool.if_true_left]

/-! ## the step refinement in the state in which `RunCycle` calls `exec` -/

theorem Sim.relabel_pqOf (wi : Nat) (st : WState) (d : Int) (s : Sim) (j : Nat) :
    (Sim.relabel wi st d s).pqOf j = s.pqOf j := by
  unfold Sim.pqOf Sim.relabel
  simp only [Array.getElem?_modify]
  split
  · cases s.warriors[j]? <;> rfl
  · rfl

theorem Frame.relabel {t t' : Sim} {wi : Nat} (h : Frame t t' wi) (st : WState) (d : Int) :
    Frame (Sim.relabel wi st d t) (Sim.relabel wi st d t') wi where
  m := h.m
  maxProcs := h.maxProcs
  maxCycles := h.maxCycles
  readLimit := h.readLimit
  writeLimit := h.writeLimit
  legacy := h.legacy
  size := h.size
  wsize := by simp [Sim.relabel, h.wsize]
  others := fun j hj => by
    simp only [Sim.relabel, Array.getElem?_modify, if_neg (Ne.symm hj)]
    exact h.others j hj
  same := fun w w' hw hw' => by
    simp only [Sim.relabel, Array.getElem?_modify, if_true] at hw hw'
    cases h1 : t.warriors[wi]? with
    | none => simp [h1] at hw
    | some w0 =>
      cases h2 : t'.warriors[wi]? with
      | none => simp [h2] at hw'
      | some w0' =>
        rw [h1] at hw; rw [h2] at hw'
        simp only [Option.map_some, Option.some.injEq] at hw hw'
        subst hw; subst hw'
        have := h.same w0 w0' h1 h2
        exact ⟨this.1, this.2.1, rfl⟩
  widx := h.widx
  count := h.count
  living := by simp [Sim.relabel, h.living]
  cycle := h.cycle
  log := h.log

/-- the statement of the step refinement theorem `exec_refines` (C01, `Gmars/Proofs/Refine.lean`);
    the scheduler proofs are parametric in it -/
def ExecRefines : Prop :=
  ∀ (s : Sim) (pc : UInt64) (wi : Nat) (q : PQ), StepPre s pc wi q →
    ∃ s' q', s.exec pc wi = .ok s' ∧
      s'.absCore = (Spec.step s.m.toNat s.readLimit.toNat s.writeLimit.toNat s.absCore pc.toNat).core ∧
      s'.pqOf wi = some q' ∧ q'.Inv ∧ q'.size = q.size ∧
      q'.toList.map (·.toNat) =
        Spec.enqueue q.size.toNat (q.toList.map (·.toNat))
          (Spec.step s.m.toNat s.readLimit.toNat s.writeLimit.toNat s.absCore pc.toNat).succ ∧
      Frame s s' wi ∧ s'.FieldsOK

/-- `exec_refines` and `exec_wf` for a state that is well formed up to the label of the
    running warrior and the living counter -/
theorem exec_refines_relabel (H : ExecRefines) (t : Sim) (pc : UInt64) (wi : Nat) (q : PQ) (h : StepPre t pc wi q)
    (st : WState) (d : Int) (s : Sim) (hs : s = Sim.relabel wi st d t) :
    ∃ s' q', s.exec pc wi = .ok s' ∧
      s'.absCore = (Spec.step s.m.toNat s.readLimit.toNat s.writeLimit.toNat s.absCore pc.toNat).core ∧
      s'.pqOf wi = some q' ∧ q'.Inv ∧ q'.size = q.size ∧
      q'.toList.map (·.toNat) =
        Spec.enqueue q.size.toNat (q.toList.map (·.toNat))
          (Spec.step s.m.toNat s.readLimit.toNat s.writeLimit.toNat s.absCore pc.toNat).succ ∧
      Frame s s' wi ∧ s'.FieldsOK ∧ (∀ a ∈ q'.toList, a < s.m) := by
  subst hs
  obtain ⟨t', q', hex, hcore, hpq, hinv, hsz, hl, hfr, hfo⟩ := H t pc wi q h
  obtain ⟨t'', q'', hex', _, _, hpq', _, _, hent, _⟩ := exec_wf t pc wi q h.wf h.pc h.pq
  rw [hex] at hex'; cases hex'
  rw [hpq] at hpq'; cases hpq'
  refine ⟨Sim.relabel wi st d t', q', ?_, hcore, ?_, hinv, hsz, hl, hfr.relabel st d, hfo, hent⟩
  · rw [Sim.relabel_exec, hex]; rfl
  · rw [Sim.relabel_pqOf]; exact hpq

end Gmars
