/-
  Spec-level locality theorems (C11, C04): what one reference step may change,
  where its successors lie, and that every number stays below the core size.
  Pure Nat/List reasoning on `Gmars/Spec/ICWS94.lean`.
-/
import Gmars.Proofs.Circ

namespace Gmars.Spec

/-! ### `Core.at`, `List.set`, `Core.modF` -/

theorem Core.at_set_ne (c : Core) (i j : Nat) (v : SInstr) (h : i ≠ j) :
    Core.at (c.set i v) j = c.at j := by
  simp only [Core.at, List.getD_eq_getElem?_getD, List.getElem?_set_ne h]

/-- every cell of `c.set i v` is `v` or a cell of `c` -/
theorem Core.at_set_cases (c : Core) (i j : Nat) (v : SInstr) :
    Core.at (c.set i v) j = v ∨ Core.at (c.set i v) j = c.at j := by
  by_cases h : i = j
  · subst h
    by_cases hl : i < c.length
    · left
      simp only [Core.at, List.getD_eq_getElem?_getD, List.getElem?_set_self hl, Option.getD_some]
    · right
      rw [List.set_eq_of_length_le (by omega)]
  · right; exact Core.at_set_ne c i j v h

theorem Core.modF_length (c : Core) (i : Nat) (f : Field) (g : Nat → Nat) :
    (c.modF i f g).length = c.length := by
  simp only [Core.modF, List.length_set]

theorem Core.modF_at_ne (c : Core) (i j : Nat) (f : Field) (g : Nat → Nat) (h : i ≠ j) :
    (c.modF i f g).at j = c.at j := Core.at_set_ne c i j _ h

/-! ### cores that agree outside a set of cells -/

/-- `c'` has the length of `c` and agrees with it outside the cells listed in `S` -/
def EqOff (S : List Nat) (c c' : Core) : Prop :=
  c'.length = c.length ∧ ∀ a, a ∉ S → c'.at a = c.at a

theorem EqOff.refl (S : List Nat) (c : Core) : EqOff S c c := ⟨rfl, fun _ _ => rfl⟩

theorem EqOff.mono {S T : List Nat} {c c' : Core} (h : EqOff S c c') (hST : ∀ a ∈ S, a ∈ T) :
    EqOff T c c' :=
  ⟨h.1, fun a ha => h.2 a (fun hs => ha (hST a hs))⟩

theorem EqOff.trans {S T : List Nat} {c c' c'' : Core} (h : EqOff S c c') (h' : EqOff T c' c'') :
    EqOff (S ++ T) c c'' := by
  refine ⟨h'.1.trans h.1, fun a ha => ?_⟩
  rw [List.mem_append, not_or] at ha
  rw [h'.2 a ha.2, h.2 a ha.1]

theorem EqOff.set (c : Core) (i : Nat) (v : SInstr) : EqOff [i] c (c.set i v) := by
  refine ⟨List.length_set, fun a ha => ?_⟩
  rw [List.mem_singleton] at ha
  exact Core.at_set_ne c i a v (fun h => ha h.symm)

theorem EqOff.modF (c : Core) (i : Nat) (f : Field) (g : Nat → Nat) : EqOff [i] c (c.modF i f g) :=
  EqOff.set c i _

/-- two changes at the same cell -/
theorem EqOff.trans_same {S : List Nat} {c c' c'' : Core} (h : EqOff S c c') (h' : EqOff S c' c'') :
    EqOff S c c'' :=
  (h.trans h').mono (fun a ha => by rw [List.mem_append] at ha; exact ha.elim id id)

/-! ### numbers below the core size -/

/-- every number of every cell (including the default beyond the end) is below `M` -/
def FieldsLt (M : Nat) (c : Core) : Prop := ∀ a, (c.at a).a < M ∧ (c.at a).b < M

theorem FieldsLt.pos {M : Nat} {c : Core} (h : FieldsLt M c) : 0 < M := by
  have := (h c.length).1
  omega

theorem FieldsLt.set {M : Nat} {c : Core} (h : FieldsLt M c) (i : Nat) (v : SInstr)
    (hv : v.a < M ∧ v.b < M) : FieldsLt M (c.set i v) := by
  intro a
  rcases Core.at_set_cases c i a v with e | e <;> rw [e]
  · exact hv
  · exact h a

theorem FieldsLt.modF {M : Nat} {c : Core} (h : FieldsLt M c) (i : Nat) (f : Field) (g : Nat → Nat)
    (hg : g (getF f (c.at i)) < M) : FieldsLt M (c.modF i f g) := by
  apply FieldsLt.set h
  have := h i
  cases f
  · exact ⟨hg, this.2⟩
  · exact ⟨this.1, hg⟩

theorem FieldsLt.getF {M : Nat} {c : Core} (h : FieldsLt M c) (f : Field) (a : Nat) :
    getF f (c.at a) < M := by
  cases f
  · exact (h a).1
  · exact (h a).2

/-! ### folding -/

theorem fold_zero (L M : Nat) : fold 0 L M = 0 := by
  simp only [fold, Nat.zero_mod, gt_iff_lt, Nat.not_lt_zero, ↓reduceIte]

/-! ### operand evaluation -/

theorem evalOperand_eqOff (M R W pc : Nat) (c : Core) (mode : Mode) (num : Nat) :
    EqOff (evalOperand M R W pc c mode num).dec.toList c (evalOperand M R W pc c mode num).core := by
  cases mode <;> simp only [evalOperand, kind, Option.toList_none, Option.toList_some] <;>
    first | exact EqOff.refl _ _ | exact EqOff.modF _ _ _ _

theorem evalOperand_rp (M R W pc : Nat) (c : Core) (mode : Mode) (num : Nat) :
    ∃ x, (evalOperand M R W pc c mode num).rp = fold x R M := by
  cases mode <;> simp only [evalOperand, kind] <;>
    first | exact ⟨_, rfl⟩ | exact ⟨0, (fold_zero R M).symm⟩

theorem evalOperand_wp (M R W pc : Nat) (c : Core) (mode : Mode) (num : Nat) :
    ∃ x, (evalOperand M R W pc c mode num).wp = fold x W M := by
  cases mode <;> simp only [evalOperand, kind] <;>
    first | exact ⟨_, rfl⟩ | exact ⟨0, (fold_zero W M).symm⟩

theorem evalOperand_dec (M R W pc : Nat) (c : Core) (mode : Mode) (num : Nat) :
    ∀ d ∈ (evalOperand M R W pc c mode num).dec.toList, ∃ x, d = (pc + fold x W M) % M := by
  cases mode <;> simp only [evalOperand, kind, Option.toList_none, Option.toList_some,
    List.not_mem_nil, List.mem_singleton, false_imp_iff, implies_true, forall_eq] <;>
    exact ⟨_, rfl⟩

theorem evalOperand_pip (M R W pc : Nat) (c : Core) (mode : Mode) (num : Nat) :
    ∀ d ∈ ((evalOperand M R W pc c mode num).pip.map (·.1)).toList, ∃ x, d = (pc + fold x W M) % M := by
  cases mode <;> simp only [evalOperand, kind, Option.map_none, Option.map_some, Option.toList_none,
    Option.toList_some, List.not_mem_nil, List.mem_singleton, false_imp_iff, implies_true, forall_eq] <;>
    exact ⟨_, rfl⟩

theorem evalOperand_fieldsLt (M R W pc : Nat) (c : Core) (mode : Mode) (num : Nat)
    (h : FieldsLt M c) : FieldsLt M (evalOperand M R W pc c mode num).core := by
  have hM := h.pos
  cases mode <;> simp only [evalOperand, kind] <;>
    first | exact h | exact h.modF _ _ _ (Nat.mod_lt _ hM)

/-! ### post-increment -/

theorem postInc_eqOff (M : Nat) (c : Core) (p : Option (Nat × Field)) :
    EqOff (p.map (·.1)).toList c (postInc M c p) := by
  cases p with
  | none => exact EqOff.refl _ _
  | some p =>
    obtain ⟨i, f⟩ := p
    simp only [Option.map_some, Option.toList_some, postInc]
    exact EqOff.modF c i f _

theorem postInc_fieldsLt (M : Nat) (c : Core) (p : Option (Nat × Field)) (h : FieldsLt M c) :
    FieldsLt M (postInc M c p) := by
  cases p with
  | none => exact h
  | some p =>
    obtain ⟨i, f⟩ := p
    exact h.modF i f (fun v => (v + 1) % M) (Nat.mod_lt _ h.pos)

/-! ### stores -/

theorem applyPairs_eqOff (c : Core) (w : Nat) (ps : List (Field × Nat × Nat))
    (ok : Nat → Bool) (g : Nat → Nat → Nat) : EqOff [w] c (applyPairs c w ps ok g) := by
  unfold applyPairs
  induction ps generalizing c with
  | nil => exact EqOff.refl _ _
  | cons p ps ih =>
    obtain ⟨f, x, y⟩ := p
    rw [List.foldl_cons]
    refine EqOff.trans_same ?_ (ih _)
    dsimp only
    split
    · exact EqOff.modF _ _ _ _
    · exact EqOff.refl _ _

theorem applyPairs_fieldsLt (M : Nat) (c : Core) (w : Nat) (ps : List (Field × Nat × Nat))
    (ok : Nat → Bool) (g : Nat → Nat → Nat) (h : FieldsLt M c)
    (hg : ∀ p ∈ ps, ok p.2.2 = true → g p.2.1 p.2.2 < M) :
    FieldsLt M (applyPairs c w ps ok g) := by
  unfold applyPairs
  induction ps generalizing c with
  | nil => exact h
  | cons p ps ih =>
    obtain ⟨f, x, y⟩ := p
    rw [List.foldl_cons]
    apply ih
    · dsimp only
      split
      · exact h.modF _ _ _ (hg (f, x, y) List.mem_cons_self ‹_›)
      · exact h
    · exact fun q hq => hg q (List.mem_cons_of_mem _ hq)

theorem arithPairs_mem (md : Modifier) (ira irb : SInstr) :
    ∀ p ∈ arithPairs md ira irb,
      (p.2.1 = irb.a ∨ p.2.1 = irb.b) ∧ (p.2.2 = ira.a ∨ p.2.2 = ira.b) := by
  cases md <;> simp only [arithPairs, List.mem_cons, List.not_mem_nil, or_false, forall_eq_or_imp,
    forall_eq, true_or, or_true, and_self]

theorem arithPairs_lt (M : Nat) (md : Modifier) (ira irb : SInstr)
    (ha : ira.a < M ∧ ira.b < M) (hb : irb.a < M ∧ irb.b < M) :
    ∀ p ∈ arithPairs md ira irb, p.2.1 < M ∧ p.2.2 < M := by
  intro p hp
  obtain ⟨h1, h2⟩ := arithPairs_mem md ira irb p hp
  constructor
  · rcases h1 with h | h <;> rw [h]
    · exact hb.1
    · exact hb.2
  · rcases h2 with h | h <;> rw [h]
    · exact ha.1
    · exact ha.2

theorem djnFold_eqOff (M w : Nat) (fs : List Field) (c : Core) :
    EqOff [w] c (fs.foldl (fun c f => c.modF w f (fun v => (v + M - 1) % M)) c) := by
  induction fs generalizing c with
  | nil => exact EqOff.refl _ _
  | cons f fs ih =>
    rw [List.foldl_cons]
    exact EqOff.trans_same (EqOff.modF _ _ _ _) (ih _)

theorem djnFold_fieldsLt (M w : Nat) (fs : List Field) (c : Core) (h : FieldsLt M c) :
    FieldsLt M (fs.foldl (fun c f => c.modF w f (fun v => (v + M - 1) % M)) c) := by
  induction fs generalizing c with
  | nil => exact h
  | cons f fs ih =>
    rw [List.foldl_cons]
    exact ih _ (h.modF _ _ _ (Nat.mod_lt _ h.pos))

/-! ### the prelude of `step`: both operands evaluated, both post-increments done -/

def opA (M R W : Nat) (c : Core) (pc : Nat) : Operand :=
  evalOperand M R W pc c (c.at pc).am (c.at pc).a
def core1 (M R W : Nat) (c : Core) (pc : Nat) : Core :=
  postInc M (opA M R W c pc).core (opA M R W c pc).pip
def opB (M R W : Nat) (c : Core) (pc : Nat) : Operand :=
  evalOperand M R W pc (core1 M R W c pc) (c.at pc).bm (c.at pc).b
def core2 (M R W : Nat) (c : Core) (pc : Nat) : Core :=
  postInc M (opB M R W c pc).core (opB M R W c pc).pip

/-- the core after a step is the prelude core, possibly with a store at the write target
    (only for storing opcodes) -/
theorem step_core (M R W : Nat) (c : Core) (pc : Nat) :
    (step M R W c pc).core = core2 M R W c pc ∨
    (writesTarget (c.at pc).op = true ∧
      EqOff [(pc + (opB M R W c pc).wp) % M] (core2 M R W c pc) (step M R W c pc).core) := by
  unfold step
  extract_lets ir oa ira c1 ob irb c2 wt jt nxt skp
  split
  case h_2 h =>
    refine Or.inr ⟨by rw [show (c.at pc).op = _ from h]; rfl, ?_⟩
    show EqOff [wt] c2 _
    split
    · exact EqOff.set _ _ _
    · dsimp only
      exact applyPairs_eqOff _ _ _ _ _
  case h_3 h =>
    refine Or.inr ⟨by rw [show (c.at pc).op = _ from h]; rfl, ?_⟩
    show EqOff [wt] c2 _
    dsimp only
    exact applyPairs_eqOff _ _ _ _ _
  case h_4 h =>
    refine Or.inr ⟨by rw [show (c.at pc).op = _ from h]; rfl, ?_⟩
    show EqOff [wt] c2 _
    dsimp only
    exact applyPairs_eqOff _ _ _ _ _
  case h_5 h =>
    refine Or.inr ⟨by rw [show (c.at pc).op = _ from h]; rfl, ?_⟩
    show EqOff [wt] c2 _
    dsimp only
    exact applyPairs_eqOff _ _ _ _ _
  case h_6 h =>
    refine Or.inr ⟨by rw [show (c.at pc).op = _ from h]; rfl, ?_⟩
    show EqOff [wt] c2 _
    dsimp only
    exact applyPairs_eqOff _ _ _ _ _
  case h_7 h =>
    refine Or.inr ⟨by rw [show (c.at pc).op = _ from h]; rfl, ?_⟩
    show EqOff [wt] c2 _
    dsimp only
    exact applyPairs_eqOff _ _ _ _ _
  case h_11 h =>
    refine Or.inr ⟨by rw [show (c.at pc).op = _ from h]; rfl, ?_⟩
    show EqOff [wt] c2 _
    dsimp only
    exact djnFold_eqOff _ _ _ _
  all_goals exact Or.inl rfl

theorem mayTouch_eq (M R W : Nat) (c : Core) (pc : Nat) :
    mayTouch M R W c pc =
      (opA M R W c pc).dec.toList ++ ((opA M R W c pc).pip.map (·.1)).toList ++
      (opB M R W c pc).dec.toList ++ ((opB M R W c pc).pip.map (·.1)).toList ++
      (if writesTarget (c.at pc).op then [(pc + (opB M R W c pc).wp) % M] else []) := rfl

theorem core2_eqOff (M R W : Nat) (c : Core) (pc : Nat) :
    EqOff ((opA M R W c pc).dec.toList ++ ((opA M R W c pc).pip.map (·.1)).toList ++
      (opB M R W c pc).dec.toList ++ ((opB M R W c pc).pip.map (·.1)).toList) c (core2 M R W c pc) :=
  (((evalOperand_eqOff M R W pc c _ _).trans (postInc_eqOff M _ _)).trans
    (evalOperand_eqOff M R W pc (core1 M R W c pc) _ _)).trans (postInc_eqOff M _ _)

/-- the core after a step agrees with the core before outside `mayTouch` -/
theorem step_eqOff (M R W : Nat) (c : Core) (pc : Nat) :
    EqOff (mayTouch M R W c pc) c (step M R W c pc).core := by
  rw [mayTouch_eq]
  rcases step_core M R W c pc with h | ⟨hw, h⟩
  · rw [h]
    exact (core2_eqOff M R W c pc).mono (fun a ha => List.mem_append_left _ ha)
  · rw [hw, if_pos rfl]
    exact (core2_eqOff M R W c pc).trans h

/-! ### 1. only `mayTouch` cells change; the length is preserved -/

theorem step_changed_subset (M R W : Nat) (c : Core) (pc : Nat) :
    ∀ a, (step M R W c pc).core.at a ≠ c.at a → a ∈ mayTouch M R W c pc :=
  fun a h => Decidable.by_contra (fun hn => h ((step_eqOff M R W c pc).2 a hn))

theorem step_length (M R W : Nat) (c : Core) (pc : Nat) :
    (step M R W c pc).core.length = c.length := (step_eqOff M R W c pc).1

/-! ### 2. `mayTouch` cells are within `W / 2` of `pc` -/

theorem mayTouch_fold (M R W : Nat) (c : Core) (pc : Nat) :
    ∀ a ∈ mayTouch M R W c pc, ∃ x, a = (pc + fold x W M) % M := by
  intro a ha
  rw [mayTouch_eq] at ha
  simp only [List.mem_append] at ha
  rcases ha with (((ha | ha) | ha) | ha) | ha
  · exact evalOperand_dec _ _ _ _ _ _ _ a ha
  · exact evalOperand_pip _ _ _ _ _ _ _ a ha
  · exact evalOperand_dec _ _ _ _ _ _ _ a ha
  · exact evalOperand_pip _ _ _ _ _ _ _ a ha
  · split at ha
    · rw [List.mem_singleton] at ha
      obtain ⟨x, hx⟩ := evalOperand_wp M R W pc (core1 M R W c pc) (c.at pc).bm (c.at pc).b
      exact ⟨x, by rw [ha, ← hx]; rfl⟩
    · exact absurd ha List.not_mem_nil

theorem mayTouch_near (M R W : Nat) (c : Core) (pc : Nat) (hW : 0 < W) (hWM : W ≤ M) (hpc : pc < M) :
    ∀ a ∈ mayTouch M R W c pc, circDist M a pc ≤ W / 2 := by
  intro a ha
  obtain ⟨x, rfl⟩ := mayTouch_fold M R W c pc a ha
  exact fold_near x W M pc hW hWM hpc

/-- C11 for writes: a cell that one step changes lies within `W / 2` of the executing cell -/
theorem write_locality (M R W : Nat) (c : Core) (pc : Nat) (hW : 0 < W) (hWM : W ≤ M) (hpc : pc < M) :
    ∀ a, (step M R W c pc).core.at a ≠ c.at a → circDist M a pc ≤ W / 2 :=
  fun a h => mayTouch_near M R W c pc hW hWM hpc a (step_changed_subset M R W c pc a h)

/-! ### 3. successors -/

/-- the successors are among: next cell, skipped cell, jump target; at most two -/
theorem step_succ (M R W : Nat) (c : Core) (pc : Nat) :
    (step M R W c pc).succ.length ≤ 2 ∧
    ∀ q ∈ (step M R W c pc).succ,
      q = (pc + 1) % M ∨ q = (pc + 2) % M ∨ q = (pc + (opA M R W c pc).rp) % M := by
  unfold step
  extract_lets ir oa ira c1 ob irb c2 wt jt nxt skp
  have hjt : jt = (pc + (opA M R W c pc).rp) % M := rfl
  rw [← hjt]
  show _ ∧ ∀ q ∈ _, q = nxt ∨ q = skp ∨ q = jt
  generalize jt = jt, nxt = nxt, skp = skp
  split
  all_goals (try dsimp only)
  all_goals (repeat' split)
  all_goals simp only [List.length_cons, List.length_nil, Nat.zero_add, Nat.reduceLeDiff, Nat.reduceAdd,
    Nat.zero_le, Std.le_refl, List.mem_cons, List.not_mem_nil, or_false, forall_eq_or_imp, forall_eq,
    false_implies, implies_true, true_or, or_true, and_self]

theorem succ_length (M R W : Nat) (c : Core) (pc : Nat) : (step M R W c pc).succ.length ≤ 2 :=
  (step_succ M R W c pc).1

/-- C11 for control flow: a successor is the next cell, the skipped cell, or a jump target within
    `R / 2` of the executing cell -/
theorem succ_near (M R W : Nat) (c : Core) (pc : Nat) (hR : 0 < R) (hRM : R ≤ M) (hpc : pc < M) :
    ∀ q ∈ (step M R W c pc).succ,
      q = (pc + 1) % M ∨ q = (pc + 2) % M ∨ circDist M q pc ≤ R / 2 := by
  intro q hq
  rcases (step_succ M R W c pc).2 q hq with h | h | h
  · exact Or.inl h
  · exact Or.inr (Or.inl h)
  · obtain ⟨x, hx⟩ := evalOperand_rp M R W pc c (c.at pc).am (c.at pc).a
    refine Or.inr (Or.inr ?_)
    rw [h, show (opA M R W c pc).rp = fold x R M from hx]
    exact fold_near x R M pc hR hRM hpc

theorem succ_lt (M R W : Nat) (c : Core) (pc : Nat) (hM : 0 < M) :
    ∀ q ∈ (step M R W c pc).succ, q < M := by
  intro q hq
  rcases (step_succ M R W c pc).2 q hq with h | h | h <;> rw [h] <;> exact Nat.mod_lt _ hM

/-! ### 4. every number stays below the core size -/

theorem step_fieldsLt (M R W : Nat) (c : Core) (pc : Nat) (h : FieldsLt M c) :
    FieldsLt M (step M R W c pc).core := by
  have hM := h.pos
  have hoa : FieldsLt M (opA M R W c pc).core := evalOperand_fieldsLt _ _ _ _ _ _ _ h
  have hc1 : FieldsLt M (core1 M R W c pc) := postInc_fieldsLt _ _ _ hoa
  have hob : FieldsLt M (opB M R W c pc).core := evalOperand_fieldsLt _ _ _ _ _ _ _ hc1
  have hc2 : FieldsLt M (core2 M R W c pc) := postInc_fieldsLt _ _ _ hob
  unfold step
  extract_lets ir oa ira c1 ob irb c2 wt jt nxt skp
  replace hoa : FieldsLt M oa.core := hoa
  replace hob : FieldsLt M ob.core := hob
  replace hc2 : FieldsLt M c2 := hc2
  have hp := fun md => arithPairs_lt M md ira irb (hoa _) (hob _)
  split
  case h_2 =>
    split
    · exact hc2.set _ _ (hoa _)
    · dsimp only
      refine applyPairs_fieldsLt M _ _ _ _ _ hc2 ?_
      intro p hp' _
      exact (hp _ p hp').2
  case h_3 =>
    dsimp only
    refine applyPairs_fieldsLt M _ _ _ _ _ hc2 ?_
    intro p _ _
    exact Nat.mod_lt _ hM
  case h_4 =>
    dsimp only
    refine applyPairs_fieldsLt M _ _ _ _ _ hc2 ?_
    intro p _ _
    exact Nat.mod_lt _ hM
  case h_5 =>
    dsimp only
    refine applyPairs_fieldsLt M _ _ _ _ _ hc2 ?_
    intro p _ _
    exact Nat.mod_lt _ hM
  case h_6 =>
    dsimp only
    refine applyPairs_fieldsLt M _ _ _ _ _ hc2 ?_
    intro p hp' _
    exact Nat.lt_of_le_of_lt (Nat.div_le_self _ _) (hp _ p hp').1
  case h_7 =>
    dsimp only
    refine applyPairs_fieldsLt M _ _ _ _ _ hc2 ?_
    intro p hp' _
    exact Nat.lt_of_le_of_lt (Nat.mod_le _ _) (hp _ p hp').1
  case h_11 => exact djnFold_fieldsLt M _ _ _ hc2
  all_goals exact hc2

/-- every number of every cell stays below the core size (no hypothesis on `R`, `W`, `pc`;
    `0 < M` follows from the premise at a cell beyond the end) -/
theorem step_fields (M R W : Nat) (c : Core) (pc : Nat)
    (h : ∀ a, (c.at a).a < M ∧ (c.at a).b < M) :
    ∀ a, ((step M R W c pc).core.at a).a < M ∧ ((step M R W c pc).core.at a).b < M :=
  step_fieldsLt M R W c pc h

/-! ### 5. the bounded FIFO -/

theorem enqueue_nil (P : Nat) (q : List Nat) : enqueue P q [] = q := rfl

theorem enqueue_cons (P : Nat) (q : List Nat) (a : Nat) (succ : List Nat) :
    enqueue P q (a :: succ) = enqueue P (if q.length < P then q ++ [a] else q) succ := rfl

/-- closed form: the queue takes as many successors as there is room for -/
theorem enqueue_eq_take (P : Nat) (q succ : List Nat) :
    enqueue P q succ = q ++ succ.take (P - q.length) := by
  induction succ generalizing q with
  | nil => rw [enqueue_nil, List.take_nil, List.append_nil]
  | cons a succ ih =>
    rw [enqueue_cons, ih]
    split
    · rw [List.length_append, List.length_singleton,
        show P - q.length = (P - (q.length + 1)) + 1 by omega, List.take_succ_cons,
        List.append_assoc, List.singleton_append]
    · rw [show P - q.length = 0 by omega, List.take_zero, List.take_zero]

theorem enqueue_length (P : Nat) (q succ : List Nat) :
    (enqueue P q succ).length ≤ max q.length P := by
  rw [enqueue_eq_take, List.length_append, List.length_take]
  omega

theorem enqueue_mem (P : Nat) (q succ : List Nat) :
    ∀ x ∈ enqueue P q succ, x ∈ q ∨ x ∈ succ := by
  intro x hx
  rw [enqueue_eq_take, List.mem_append] at hx
  exact hx.imp id List.mem_of_mem_take

/-- the old entries stay in front, in order -/
theorem enqueue_prefix (P : Nat) (q succ : List Nat) : q <+: enqueue P q succ := by
  rw [enqueue_eq_take]
  exact List.prefix_append _ _

/-- a queue within the process limit stays within it -/
theorem enqueue_length_le (P : Nat) (q succ : List Nat) (h : q.length ≤ P) :
    (enqueue P q succ).length ≤ P := by
  have := enqueue_length P q succ
  omega

/-! ### non-vacuity -/

-- a `MOV.I $0, >1` style cell on a tiny core: the step changes cells, all inside `mayTouch`
example :
    let c : Core := [{ op := .mov, md := .i, a := 0, am := .direct, b := 1, bm := .bInc }, default, default, default]
    (step 4 4 4 c 0).core ≠ c ∧ mayTouch 4 4 4 c 0 = [1, 1] ∧ (step 4 4 4 c 0).succ = [1] := by
  decide

end Gmars.Spec
