/-
  C12 at the level of the reference semantics: a battle does not depend on where
  in the (circular) core it is placed.  Rotation of a core by `k`, and
  equivariance of `Spec.step`, `Spec.loadAt`, `Spec.Api.spawn`, `Spec.Api.cycle`
  and `Spec.Api.run` under it.  Pure Nat/List reasoning.
-/
import Gmars.Spec.Api

namespace Gmars.Spec

/-! ### modular arithmetic -/

/-- address shift by `k` on a core of size `M` -/
def sh (M k a : Nat) : Nat := (a + k) % M

/-- inverse address shift -/
def unsh (M k a : Nat) : Nat := (a + M - k % M) % M

theorem sh_lt {M : Nat} (hM : 0 < M) (k a : Nat) : sh M k a < M := Nat.mod_lt _ hM
theorem unsh_lt {M : Nat} (hM : 0 < M) (k a : Nat) : unsh M k a < M := Nat.mod_lt _ hM

private theorem mod_lt_two' (a M : Nat) (h : a < 2 * M) : a % M = if a < M then a else a - M := by
  split
  · exact Nat.mod_eq_of_lt ‹_›
  · rw [Nat.mod_eq_sub_mod (by omega)]
    exact Nat.mod_eq_of_lt (by omega)

theorem unsh_sh {M : Nat} (k : Nat) {a : Nat} (ha : a < M) : unsh M k (sh M k a) = a := by
  unfold unsh sh
  have hk : k % M < M := Nat.mod_lt _ (by omega)
  rw [Nat.add_mod a k M, Nat.mod_eq_of_lt ha]
  generalize k % M = k' at *
  rw [mod_lt_two' (a + k') M (by omega)]
  split
  · rw [mod_lt_two' (a + k' + M - k') M (by omega)]; split <;> omega
  · rw [mod_lt_two' (a + k' - M + M - k') M (by omega)]; split <;> omega

theorem sh_unsh {M : Nat} (k : Nat) {a : Nat} (ha : a < M) : sh M k (unsh M k a) = a := by
  unfold unsh sh
  have hk : k % M < M := Nat.mod_lt _ (by omega)
  rw [Nat.add_mod _ k M, Nat.mod_mod]
  generalize k % M = k' at *
  rw [mod_lt_two' (a + M - k') M (by omega)]
  split
  · rw [mod_lt_two' (a + M - k' + k') M (by omega)]; split <;> omega
  · rw [mod_lt_two' (a + M - k' - M + k') M (by omega)]; split <;> omega

theorem sh_inj {M : Nat} (k : Nat) {a b : Nat} (ha : a < M) (hb : b < M)
    (h : sh M k a = sh M k b) : a = b := by
  rw [← unsh_sh k ha, ← unsh_sh k hb, h]

/-- the arithmetic heart: PC-relative addressing commutes with the shift -/
theorem sh_add (M k a x : Nat) : (sh M k a + x) % M = sh M k ((a + x) % M) := by
  unfold sh
  rw [Nat.mod_add_mod, Nat.mod_add_mod]
  congr 1; omega

theorem add_shift (M a k x : Nat) : ((a + k) % M + x) % M = ((a + x) % M + k) % M :=
  sh_add M k a x

/-! ### cores: extensionality, `at`, `set` -/

theorem Core.at_eq_getElem (c : Core) {i : Nat} (h : i < c.length) : c.at i = c[i] := by
  simp [Core.at, List.getD_eq_getElem?_getD, List.getElem?_eq_getElem h]

theorem Core.ext {c d : Core} (hl : c.length = d.length)
    (h : ∀ a, a < c.length → c.at a = d.at a) : c = d := by
  apply List.ext_getElem hl
  intro i h1 h2
  rw [← Core.at_eq_getElem c h1, ← Core.at_eq_getElem d h2]
  exact h i h1

theorem Core.at_set (c : Core) (i j : Nat) (v : SInstr) :
    Core.at (c.set i v) j = if i = j ∧ i < c.length then v else c.at j := by
  simp only [Core.at, List.getD_eq_getElem?_getD, List.getElem?_set]
  by_cases hij : i = j
  · subst hij
    by_cases hi : i < c.length
    · simp [hi]
    · simp [hi]
  · simp [hij]

@[simp] theorem Core.modF_length (c : Core) (i : Nat) (f : Field) (g : Nat → Nat) :
    (c.modF i f g).length = c.length := by
  simp [Core.modF]

/-! ### rotation -/

/-- rotation of a core by `k`: the cell at address `a` of the rotated core is the cell
    at `a - k` of the original -/
def rot (k : Nat) (c : Core) : Core :=
  (List.range c.length).map (fun a => c.at ((a + c.length - k % c.length) % c.length))

@[simp] theorem rot_length (k : Nat) (c : Core) : (rot k c).length = c.length := by
  simp [rot]

theorem rot_at_lt (k : Nat) (c : Core) {a : Nat} (ha : a < c.length) :
    (rot k c).at a = c.at (unsh c.length k a) := by
  rw [Core.at_eq_getElem _ (by simpa using ha)]
  simp [rot, unsh]

/-- the characterisation of `rot` -/
theorem rot_at {M : Nat} (k : Nat) (c : Core) (hc : c.length = M) {a : Nat} (ha : a < M) :
    (rot k c).at ((a + k) % M) = c.at a := by
  subst hc
  have hM : 0 < c.length := by omega
  have := rot_at_lt k c (sh_lt hM k a)
  rw [unsh_sh k ha] at this
  exact this

theorem rot_eq_iff {M : Nat} (k : Nat) (c d : Core) (hc : c.length = M) :
    rot k c = d ↔ d.length = M ∧ ∀ a, a < M → d.at ((a + k) % M) = c.at a := by
  constructor
  · rintro rfl
    exact ⟨by simp [hc], fun a ha => rot_at k c hc ha⟩
  · rintro ⟨hd, h⟩
    subst hc
    apply Core.ext (by simp [hd])
    intro a ha
    have ha' : a < c.length := by simpa using ha
    rw [rot_at_lt k c ha']
    have hM : 0 < c.length := by omega
    have := h _ (unsh_lt hM k a)
    have e := sh_unsh k ha'
    unfold sh at e
    rw [e] at this
    exact this.symm

theorem rot_set {M : Nat} (k : Nat) (c : Core) (hc : c.length = M) {a : Nat} (ha : a < M)
    (v : SInstr) : rot k (c.set a v) = (rot k c).set ((a + k) % M) v := by
  have hM : 0 < M := by omega
  rw [rot_eq_iff k _ _ (by simpa using hc)]
  refine ⟨by simp [hc], ?_⟩
  intro b hb
  rw [Core.at_set, Core.at_set, rot_at k c hc hb]
  have hlt : (a + k) % M < (rot k c).length := by
    rw [rot_length, hc]; exact Nat.mod_lt _ hM
  by_cases hab : a = b
  · subst hab
    rw [if_pos ⟨rfl, hlt⟩, if_pos ⟨rfl, hc ▸ ha⟩]
  · have : (a + k) % M ≠ (b + k) % M := fun h => hab (sh_inj k ha hb h)
    simp [hab, this]

theorem rot_modF {M : Nat} (k : Nat) (c : Core) (hc : c.length = M) {a : Nat} (ha : a < M)
    (f : Field) (g : Nat → Nat) :
    rot k (c.modF a f g) = (rot k c).modF ((a + k) % M) f g := by
  unfold Core.modF
  rw [rot_set k c hc ha, rot_at k c hc ha]

/-! ### operand evaluation -/

/-- an evaluated operand seen from the rotated core -/
def Operand.rot (M k : Nat) (o : Operand) : Operand :=
  { core := Spec.rot k o.core, rp := o.rp, wp := o.wp,
    pip := o.pip.map (fun p => ((p.1 + k) % M, p.2)),
    dec := o.dec.map (fun a => (a + k) % M) }

theorem evalOperand_length (M R W pc : Nat) (c : Core) (mode : Mode) (num : Nat) :
    (evalOperand M R W pc c mode num).core.length = c.length := by
  unfold evalOperand
  cases mode <;> simp [kind]

theorem evalOperand_pip_lt {M : Nat} (hM : 0 < M) (R W pc : Nat) (c : Core) (mode : Mode)
    (num : Nat) : ∀ p, (evalOperand M R W pc c mode num).pip = some p → p.1 < M := by
  unfold evalOperand
  cases mode <;> simp only [kind] <;> intro p hp <;> simp at hp <;>
    (subst hp; exact Nat.mod_lt _ hM)

theorem evalOperand_rotate {M : Nat} (R W : Nat) (k : Nat) (c : Core) (hc : c.length = M)
    (hM : 0 < M) (pc : Nat) (mode : Mode) (num : Nat) :
    evalOperand M R W ((pc + k) % M) (rot k c) mode num
      = (evalOperand M R W pc c mode num).rot M k := by
  have hlt : ∀ x, (pc + x) % M < M := fun x => Nat.mod_lt _ hM
  unfold evalOperand Operand.rot
  cases mode <;> simp only [kind, add_shift M pc k, rot_at k c hc (hlt _), Option.map_none,
    Option.map_some, ← rot_modF k c hc (hlt _),
    rot_at k (c.modF _ _ _) ((Core.modF_length ..).trans hc) (hlt _)]

theorem postInc_length (M : Nat) (c : Core) (p : Option (Nat × Field)) :
    (postInc M c p).length = c.length := by
  cases p with
  | none => rfl
  | some p => simp [postInc]

theorem postInc_rotate {M : Nat} (k : Nat) (c : Core) (hc : c.length = M)
    (p : Option (Nat × Field)) (hp : ∀ q, p = some q → q.1 < M) :
    postInc M (rot k c) (p.map (fun p => ((p.1 + k) % M, p.2))) = rot k (postInc M c p) := by
  cases p with
  | none => rfl
  | some q =>
    obtain ⟨i, f⟩ := q
    simp only [Option.map_some, postInc]
    rw [rot_modF k c hc (hp _ rfl)]

/-! ### stores -/

theorem applyPairs_length (c : Core) (w : Nat) (ps : List (Field × Nat × Nat))
    (ok : Nat → Bool) (g : Nat → Nat → Nat) : (applyPairs c w ps ok g).length = c.length := by
  unfold applyPairs
  induction ps generalizing c with
  | nil => rfl
  | cons p ps ih =>
    simp only [List.foldl_cons]
    rw [ih]
    split <;> simp

theorem applyPairs_rotate {M : Nat} (k : Nat) (c : Core) (hc : c.length = M) {w : Nat}
    (hw : w < M) (ps : List (Field × Nat × Nat)) (ok : Nat → Bool) (g : Nat → Nat → Nat) :
    applyPairs (rot k c) ((w + k) % M) ps ok g = rot k (applyPairs c w ps ok g) := by
  unfold applyPairs
  induction ps generalizing c with
  | nil => rfl
  | cons p ps ih =>
    simp only [List.foldl_cons]
    rw [← ih _ (by split <;> simp [hc])]
    congr 1
    split
    · rw [rot_modF k c hc hw]
    · rfl

theorem djnFold_length (M : Nat) (c : Core) (w : Nat) (fs : List Field) :
    (fs.foldl (fun c f => c.modF w f (fun v => (v + M - 1) % M)) c).length = c.length := by
  induction fs generalizing c with
  | nil => rfl
  | cons f fs ih => simp only [List.foldl_cons]; rw [ih]; simp

theorem djnFold_rotate {M : Nat} (k : Nat) (c : Core) (hc : c.length = M) {w : Nat}
    (hw : w < M) (fs : List Field) :
    fs.foldl (fun c f => c.modF ((w + k) % M) f (fun v => (v + M - 1) % M)) (rot k c)
      = rot k (fs.foldl (fun c f => c.modF w f (fun v => (v + M - 1) % M)) c) := by
  induction fs generalizing c with
  | nil => rfl
  | cons f fs ih =>
    simp only [List.foldl_cons]
    rw [← ih _ (by simp [hc]), rot_modF k c hc hw]

/-! ### one task -/

/-- the execute phase of `step`, after both operands have been evaluated -/
def stepExec (M : Nat) (op : Op) (md : Modifier) (ira irb : SInstr) (c2 : Core)
    (wt jt nxt skp : Nat) : StepResult :=
  match op with
  | .dat => ⟨c2, []⟩
  | .mov =>
    if md = .i then ⟨c2.set wt ira, [nxt]⟩
    else ⟨applyPairs c2 wt (arithPairs md ira irb) (fun _ => true) (fun _ y => y), [nxt]⟩
  | .add => ⟨applyPairs c2 wt (arithPairs md ira irb) (fun _ => true) (fun x y => (x + y) % M), [nxt]⟩
  | .sub => ⟨applyPairs c2 wt (arithPairs md ira irb) (fun _ => true) (fun x y => (x + M - y) % M), [nxt]⟩
  | .mul => ⟨applyPairs c2 wt (arithPairs md ira irb) (fun _ => true) (fun x y => (x * y) % M), [nxt]⟩
  | .div =>
    let ps := arithPairs md ira irb
    ⟨applyPairs c2 wt ps (· != 0) (fun x y => x / y),
     if ps.all (fun (_, _, y) => y != 0) then [nxt] else []⟩
  | .mod =>
    let ps := arithPairs md ira irb
    ⟨applyPairs c2 wt ps (· != 0) (fun x y => x % y),
     if ps.all (fun (_, _, y) => y != 0) then [nxt] else []⟩
  | .jmp => ⟨c2, [jt]⟩
  | .jmz => ⟨c2, [if (testFields md).all (fun f => getF f irb == 0) then jt else nxt]⟩
  | .jmn => ⟨c2, [if (testFields md).any (fun f => getF f irb != 0) then jt else nxt]⟩
  | .djn =>
    let fs := testFields md
    let c3 := fs.foldl (fun c f => c.modF wt f (fun v => (v + M - 1) % M)) c2
    ⟨c3, [if fs.any (fun f => (getF f irb + M - 1) % M != 0) then jt else nxt]⟩
  | .cmp | .seq =>
    let eq := if md = .i then ira == irb else (cmpPairs md ira irb).all (fun (x, y) => x == y)
    ⟨c2, [if eq then skp else nxt]⟩
  | .sne =>
    let eq := if md = .i then ira == irb else (cmpPairs md ira irb).all (fun (x, y) => x == y)
    ⟨c2, [if eq then nxt else skp]⟩
  | .slt => ⟨c2, [if (cmpPairs md ira irb).all (fun (x, y) => x < y) then skp else nxt]⟩
  | .spl => ⟨c2, [nxt, jt]⟩
  | .nop => ⟨c2, [nxt]⟩

theorem step_eq_stepExec (M R W : Nat) (c : Core) (pc : Nat) :
    step M R W c pc =
      let ir := c.at pc
      let oa := evalOperand M R W pc c ir.am ir.a
      let ira := oa.core.at ((pc + oa.rp) % M)
      let c1 := postInc M oa.core oa.pip
      let ob := evalOperand M R W pc c1 ir.bm ir.b
      let irb := ob.core.at ((pc + ob.rp) % M)
      let c2 := postInc M ob.core ob.pip
      stepExec M ir.op ir.md ira irb c2 ((pc + ob.wp) % M) ((pc + oa.rp) % M)
        ((pc + 1) % M) ((pc + 2) % M) := by
  unfold step stepExec
  rfl

theorem stepExec_length (M : Nat) (op : Op) (md : Modifier) (ira irb : SInstr) (c2 : Core)
    (wt jt nxt skp : Nat) :
    (stepExec M op md ira irb c2 wt jt nxt skp).core.length = c2.length := by
  unfold stepExec
  cases op <;> simp only [applyPairs_length, djnFold_length]
  split <;> simp [applyPairs_length]

theorem stepExec_succ_lt {M : Nat} (op : Op) (md : Modifier) (ira irb : SInstr) (c2 : Core)
    {wt jt nxt skp : Nat} (hj : jt < M) (hn : nxt < M) (hs : skp < M) :
    ∀ a ∈ (stepExec M op md ira irb c2 wt jt nxt skp).succ, a < M := by
  unfold stepExec
  cases op <;> simp only <;> intro a ha
  all_goals (repeat' split at ha) <;> simp at ha <;> (try rcases ha with rfl | rfl) <;>
    (try subst ha) <;> (try split) <;> assumption

theorem stepExec_rotate {M : Nat} (k : Nat) (op : Op) (md : Modifier) (ira irb : SInstr)
    (c2 : Core) (hc : c2.length = M) {wt : Nat} (hw : wt < M) (jt nxt skp : Nat) :
    stepExec M op md ira irb (rot k c2) ((wt + k) % M) ((jt + k) % M) ((nxt + k) % M)
        ((skp + k) % M)
      = ⟨rot k (stepExec M op md ira irb c2 wt jt nxt skp).core,
         (stepExec M op md ira irb c2 wt jt nxt skp).succ.map (fun a => (a + k) % M)⟩ := by
  unfold stepExec
  cases op <;> simp only [applyPairs_rotate k c2 hc hw, djnFold_rotate k c2 hc hw,
    List.map_nil, List.map_cons]
  all_goals (repeat' split) <;> first | rfl | (simp only [List.map_cons, List.map_nil, rot_set k c2 hc hw])

theorem step_length (M R W : Nat) (c : Core) (pc : Nat) :
    (step M R W c pc).core.length = c.length := by
  rw [step_eq_stepExec]
  simp only [stepExec_length, postInc_length, evalOperand_length]

theorem step_succ_lt {M : Nat} (hM : 0 < M) (R W : Nat) (c : Core) (pc : Nat) :
    ∀ a ∈ (step M R W c pc).succ, a < M := by
  rw [step_eq_stepExec]
  exact stepExec_succ_lt _ _ _ _ _ (Nat.mod_lt _ hM) (Nat.mod_lt _ hM) (Nat.mod_lt _ hM)

/-- **One task is rotation-equivariant**: all effective addresses are PC-relative modulo `M`
    and folding does not depend on the PC. -/
theorem step_rotate {M : Nat} (R W : Nat) (k : Nat) (c : Core) (hc : c.length = M)
    {pc : Nat} (hpc : pc < M) :
    step M R W (rot k c) ((pc + k) % M)
      = ⟨rot k (step M R W c pc).core,
         (step M R W c pc).succ.map (fun a => (a + k) % M)⟩ := by
  have hM : 0 < M := by omega
  have hlt : ∀ x, (pc + x) % M < M := fun x => Nat.mod_lt _ hM
  rw [step_eq_stepExec, step_eq_stepExec]
  simp only
  rw [rot_at k c hc hpc]
  generalize hir : c.at pc = ir
  rw [evalOperand_rotate R W k c hc hM pc]
  generalize hoa : evalOperand M R W pc c ir.am ir.a = oa
  have hoal : oa.core.length = M := by rw [← hoa, evalOperand_length, hc]
  have hoap : ∀ q, oa.pip = some q → q.1 < M := by
    rw [← hoa]; exact evalOperand_pip_lt hM R W pc c _ _
  simp only [Operand.rot]
  rw [postInc_rotate k oa.core hoal oa.pip hoap]
  generalize hc1 : postInc M oa.core oa.pip = c1
  have hc1l : c1.length = M := by rw [← hc1, postInc_length, hoal]
  rw [evalOperand_rotate R W k c1 hc1l hM pc]
  generalize hob : evalOperand M R W pc c1 ir.bm ir.b = ob
  have hobl : ob.core.length = M := by rw [← hob, evalOperand_length, hc1l]
  have hobp : ∀ q, ob.pip = some q → q.1 < M := by
    rw [← hob]; exact evalOperand_pip_lt hM R W pc c1 _ _
  simp only [Operand.rot]
  rw [postInc_rotate k ob.core hobl ob.pip hobp]
  have hc2l : (postInc M ob.core ob.pip).length = M := by rw [postInc_length, hobl]
  simp only [add_shift M pc k, rot_at k oa.core hoal (hlt _), rot_at k ob.core hobl (hlt _)]
  exact stepExec_rotate k _ _ _ _ _ hc2l (hlt _) _ _ _

/-! ### loading and spawning -/

theorem loadAt_length (M : Nat) (c : Core) (off : Nat) (code : List SInstr) :
    (loadAt M c off code).length = c.length := by
  unfold loadAt
  generalize List.range code.length = js
  induction js generalizing c with
  | nil => rfl
  | cons j js ih => simp only [List.foldl_cons]; rw [ih]; simp

theorem loadAt_rotate {M : Nat} (k : Nat) (c : Core) (hc : c.length = M) (hM : 0 < M)
    (off : Nat) (code : List SInstr) :
    loadAt M (rot k c) ((off + k) % M) code = rot k (loadAt M c off code) := by
  unfold loadAt
  generalize List.range code.length = js
  induction js generalizing c with
  | nil => rfl
  | cons j js ih =>
    simp only [List.foldl_cons]
    rw [← ih _ (by simpa using hc), rot_set k c hc (Nat.mod_lt _ hM), add_shift]

theorem loadAt_congr (M : Nat) (c : Core) (off j : Nat) (code : List SInstr) :
    loadAt M c (off + j * M) code = loadAt M c off code := by
  unfold loadAt
  have : ∀ x, (off + j * M + x) % M = (off + x) % M := by
    intro x
    rw [Nat.add_right_comm, Nat.add_mul_mod_self_right]
  simp only [this]

theorem spawn_congr (s : Api) (i : Int) (off j : Nat) :
    s.spawn i (off + j * s.M) = s.spawn i off := by
  unfold Api.spawn
  simp only [loadAt_congr]
  have h : ∀ x, (off + j * s.M + x) % s.M = (off + x) % s.M := by
    intro x
    rw [Nat.add_right_comm, Nat.add_mul_mod_self_right]
  simp only [h]

/-! ### the scheduler -/

/-- a warrior with its queue shifted by `k` -/
def rotSW (M k : Nat) (w : SW) : SW := { w with q := w.q.map (fun a => (a + k) % M) }

/-- the API state with the whole battle moved `k` cells up the core -/
def rotApi (k : Nat) (s : Api) : Api :=
  { s with core := rot k s.core, ws := s.ws.map (rotSW s.M k) }

/-- well-formedness of a reference API state -/
structure Api.WFs (s : Api) : Prop where
  len : s.core.length = s.M
  hM : 0 < s.M
  hR : 0 < s.R ∧ s.R ≤ s.M
  hW : 0 < s.W ∧ s.W ≤ s.M
  q_lt : ∀ w ∈ s.ws, ∀ a ∈ w.q, a < s.M

theorem enqueue_map (f : Nat → Nat) (P : Nat) (q succ : List Nat) :
    enqueue P (q.map f) (succ.map f) = (enqueue P q succ).map f := by
  unfold enqueue
  induction succ generalizing q with
  | nil => rfl
  | cons a succ ih =>
    simp only [List.map_cons, List.foldl_cons, List.length_map]
    rw [← ih]
    congr 1
    split <;> simp

theorem enqueue_mem (P : Nat) (q succ : List Nat) :
    ∀ a ∈ enqueue P q succ, a ∈ q ∨ a ∈ succ := by
  unfold enqueue
  induction succ generalizing q with
  | nil => intro a ha; exact Or.inl ha
  | cons b succ ih =>
    intro a ha
    simp only [List.foldl_cons] at ha
    rcases ih _ a ha with h | h
    · split at h
      · rcases List.mem_append.mp h with h | h
        · exact Or.inl h
        · simp at h; subst h; exact Or.inr (List.mem_cons_self ..)
      · exact Or.inl h
    · exact Or.inr (List.mem_cons_of_mem _ h)

@[simp] theorem rotApi_living (k : Nat) (s : Api) : (rotApi k s).living = s.living := by
  unfold Api.living rotApi
  simp only [List.filter_map, List.length_map]
  rfl

@[simp] theorem rotApi_ws_length (k : Nat) (s : Api) : (rotApi k s).ws.length = s.ws.length := by
  simp [rotApi]

@[simp] theorem rotApi_finished (k : Nat) (s : Api) : (rotApi k s).finished = s.finished := by
  unfold Api.finished
  rw [rotApi_living, rotApi_ws_length]
  rfl

theorem turn_rotate (k : Nat) (s : Api) (h : s.WFs) (i : Nat) :
    ((rotApi k s).turn i).1 = rotApi k (s.turn i).1 := by
  unfold Api.turn
  have hws : (rotApi k s).ws[i]? = (s.ws[i]?).map (rotSW s.M k) := by simp [rotApi]
  rw [hws]
  cases hw : s.ws[i]? with
  | none => rfl
  | some w =>
    have hmem : w ∈ s.ws := List.mem_of_getElem? hw
    simp only [Option.map_some]
    by_cases hst : (w.st != .alive) = true
    · have hst' : ((rotSW s.M k w).st != .alive) = true := hst
      rw [if_pos hst, if_pos hst']
    · have hst' : ¬ ((rotSW s.M k w).st != .alive) = true := hst
      rw [if_neg hst, if_neg hst']
      cases hq : w.q with
      | nil =>
        have hq' : (rotSW s.M k w).q = [] := by simp [rotSW, hq]
        simp only [hq']
        simp only [rotApi, List.map_set]
        rfl
      | cons pc rest =>
        have hq' : (rotSW s.M k w).q = ((pc + k) % s.M) :: rest.map (fun a => (a + k) % s.M) := by
          simp [rotSW, hq]
        have hpc : pc < s.M := h.q_lt w hmem pc (by simp [hq])
        simp only [hq']
        have hstep : step (rotApi k s).M (rotApi k s).R (rotApi k s).W (rotApi k s).core
            ((pc + k) % s.M) = _ := step_rotate s.R s.W k s.core h.len hpc
        rw [hstep]
        have hP : (rotApi k s).P = s.P := rfl
        simp only [hP, enqueue_map, List.isEmpty_map]
        split
        · simp only [rotApi, List.map_set]
          rfl
        · simp only [rotApi, List.map_set]
          rfl

theorem WFs_of_core_ws {s s' : Api} (h : s.WFs) (hM : s'.M = s.M) (hR : s'.R = s.R)
    (hW : s'.W = s.W) (hlen : s'.core.length = s.M)
    (hq : ∀ w ∈ s'.ws, ∀ a ∈ w.q, a < s.M) : s'.WFs :=
  ⟨by rw [hM]; exact hlen, by rw [hM]; exact h.hM, by rw [hM, hR]; exact h.hR,
   by rw [hM, hW]; exact h.hW, by rw [hM]; exact hq⟩

theorem turn_params (s : Api) (i : Nat) :
    (s.turn i).1.M = s.M ∧ (s.turn i).1.R = s.R ∧ (s.turn i).1.W = s.W ∧
    (s.turn i).1.P = s.P ∧ (s.turn i).1.C = s.C ∧ (s.turn i).1.cycles = s.cycles := by
  unfold Api.turn
  split
  · simp
  · split
    · simp
    · split
      · simp
      · simp only
        split <;> simp

theorem WFs_turn (s : Api) (h : s.WFs) (i : Nat) : (s.turn i).1.WFs := by
  obtain ⟨hM, hR, hW, -⟩ := turn_params s i
  refine WFs_of_core_ws h hM hR hW ?_ ?_
  · unfold Api.turn
    split
    · exact h.len
    · split
      · exact h.len
      · split
        · exact h.len
        · simp only
          split <;> simp only [step_length, h.len]
  · unfold Api.turn
    split
    · exact h.q_lt
    · rename_i w hw
      have hmem : w ∈ s.ws := List.mem_of_getElem? hw
      split
      · exact h.q_lt
      · split
        · rename_i hq
          intro w' hw' a ha
          rcases List.mem_or_eq_of_mem_set hw' with h1 | h1
          · exact h.q_lt w' h1 a ha
          · subst h1
            simp only [hq] at ha
            cases ha
        · rename_i pc rest hq
          have key : ∀ a ∈ enqueue s.P rest (step s.M s.R s.W s.core pc).succ, a < s.M := by
            intro a ha
            rcases enqueue_mem _ _ _ a ha with h1 | h1
            · exact h.q_lt w hmem a (by rw [hq]; exact List.mem_cons_of_mem _ h1)
            · exact step_succ_lt h.hM _ _ _ _ a h1
          simp only
          split
          all_goals
            intro w' hw' a ha
            rcases List.mem_or_eq_of_mem_set hw' with h1 | h1
            · exact h.q_lt w' h1 a ha
            · subst h1
              exact key a ha

theorem turns_rotate (k : Nat) (is : List Nat) (s : Api) (h : s.WFs) :
    ((rotApi k s).turns is).1 = rotApi k (s.turns is).1 ∧
    ((rotApi k s).turns is).2.2 = (s.turns is).2.2 := by
  induction is generalizing s with
  | nil => exact ⟨rfl, rfl⟩
  | cons i is ih =>
    unfold Api.turns
    simp only
    have e : (rotApi k s).turn i = (rotApi k (s.turn i).1, ((rotApi k s).turn i).2) := by
      rw [← turn_rotate k s h i]
    rw [e]
    simp only [rotApi_living, rotApi_ws_length]
    split
    · exact ⟨rfl, rfl⟩
    · exact ih _ (WFs_turn s h i)

theorem turns_params (is : List Nat) (s : Api) :
    (s.turns is).1.M = s.M ∧ (s.turns is).1.R = s.R ∧ (s.turns is).1.W = s.W ∧
    (s.turns is).1.P = s.P ∧ (s.turns is).1.C = s.C ∧ (s.turns is).1.cycles = s.cycles := by
  induction is generalizing s with
  | nil => simp [Api.turns]
  | cons i is ih =>
    unfold Api.turns
    simp only
    split
    · exact turn_params s i
    · obtain ⟨a, b, c, d, e, f⟩ := ih (s.turn i).1
      obtain ⟨a', b', c', d', e', f'⟩ := turn_params s i
      exact ⟨a.trans a', b.trans b', c.trans c', d.trans d', e.trans e', f.trans f'⟩

theorem WFs_turns (is : List Nat) (s : Api) (h : s.WFs) : (s.turns is).1.WFs := by
  induction is generalizing s with
  | nil => exact h
  | cons i is ih =>
    unfold Api.turns
    simp only
    split
    · exact WFs_turn s h i
    · exact ih _ (WFs_turn s h i)

theorem WFs_cycle (s : Api) (h : s.WFs) : s.cycle.1.WFs := by
  unfold Api.cycle
  split
  · exact h
  · simp only
    have h' := WFs_turns (List.range s.ws.length) s h
    split
    · exact h'
    · exact ⟨h'.len, h'.hM, h'.hR, h'.hW, h'.q_lt⟩

/-- **A cycle is rotation-equivariant** (state and returned living count; the event list is
    projected away). -/
theorem cycle_rotate (k : Nat) (s : Api) (h : s.WFs) :
    ((rotApi k s).cycle).1 = rotApi k s.cycle.1 ∧
    ((rotApi k s).cycle).2.2 = s.cycle.2.2 := by
  unfold Api.cycle
  rw [rotApi_finished, rotApi_ws_length]
  split
  · exact ⟨rfl, rfl⟩
  · obtain ⟨h1, h2⟩ := turns_rotate k (List.range s.ws.length) s h
    simp only
    rw [h2]
    split
    · rw [h1, rotApi_living]; exact ⟨rfl, rfl⟩
    · rw [h1, rotApi_living]; exact ⟨rfl, rfl⟩

theorem WFs_run (fuel : Nat) (s : Api) (h : s.WFs) : (s.run fuel).1.WFs := by
  induction fuel generalizing s with
  | zero => exact h
  | succ fuel ih =>
    unfold Api.run
    split
    · exact h
    · exact ih _ (WFs_cycle s h)

/-- **A whole run is rotation-equivariant.** -/
theorem run_rotate (k : Nat) (fuel : Nat) (s : Api) (h : s.WFs) :
    ((rotApi k s).run fuel).1 = rotApi k (s.run fuel).1 := by
  induction fuel generalizing s with
  | zero => rfl
  | succ fuel ih =>
    unfold Api.run
    rw [rotApi_finished]
    split
    · rfl
    · simp only
      rw [(cycle_rotate k s h).1]
      exact ih _ (WFs_cycle s h)

/-- spawning at the shifted offset in the rotated state is the rotated spawn -/
theorem spawn_rotate (k : Nat) (s : Api) (h : s.WFs) (i : Int) (off : Nat) :
    (rotApi k s).spawn i ((off + k) % s.M) = (s.spawn i off).map (rotApi k) := by
  unfold Api.spawn
  split
  · rfl
  · have hws : (rotApi k s).ws[i.toNat]? = (s.ws[i.toNat]?).map (rotSW s.M k) := by simp [rotApi]
    rw [hws]
    cases hw : s.ws[i.toNat]? with
    | none => rfl
    | some w =>
      simp only [Option.map_some]
      have hst : (rotSW s.M k w).st = w.st := rfl
      rw [hst]
      split
      · rfl
      · simp only [Option.map_some]
        congr 1
        have e1 : loadAt (rotApi k s).M (rotApi k s).core ((off + k) % s.M) (rotSW s.M k w).code
            = rot k (loadAt s.M s.core off w.code) := loadAt_rotate k s.core h.len h.hM off w.code
        have e2 : enqueue (rotApi k s).P [] [((off + k) % s.M + (rotSW s.M k w).start) % (rotApi k s).M]
            = (enqueue s.P [] [(off + w.start) % s.M]).map (fun a => (a + k) % s.M) := by
          rw [← enqueue_map]
          simp only [List.map_nil, List.map_cons]
          rw [← add_shift]
          rfl
        rw [e1, e2]
        simp only [rotApi, List.map_set]
        rfl

theorem WFs_spawn (s s' : Api) (h : s.WFs) (i : Int) (off : Nat) (hs : s.spawn i off = some s') :
    s'.WFs := by
  unfold Api.spawn at hs
  split at hs
  · cases hs
  · split at hs
    · cases hs
    · split at hs
      · cases hs
      · simp only [Option.some.injEq] at hs
        subst hs
        refine ⟨by simp only [loadAt_length]; exact h.len, h.hM, h.hR, h.hW, ?_⟩
        intro w' hw' a ha
        rcases List.mem_or_eq_of_mem_set hw' with h1 | h1
        · exact h.q_lt w' h1 a ha
        · subst h1
          rcases enqueue_mem _ _ _ a ha with h2 | h2
          · cases h2
          · simp only [List.mem_singleton] at h2
            subst h2
            exact Nat.mod_lt _ h.hM

theorem WFs_rotApi (k : Nat) (s : Api) (h : s.WFs) : (rotApi k s).WFs := by
  refine ⟨by simp only [rotApi, rot_length]; exact h.len, h.hM, h.hR, h.hW, ?_⟩
  intro w hw a ha
  simp only [rotApi, List.mem_map] at hw
  obtain ⟨w0, -, rfl⟩ := hw
  simp only [rotSW, List.mem_map] at ha
  obtain ⟨b, -, rfl⟩ := ha
  exact Nat.mod_lt _ h.hM

/-! ### the event stream -/

/-- an event seen from the rotated battle: program counters and touched cells are shifted,
    the (ascending) list of changed cells is the shifted set, listed ascending again -/
def Ev.shift (M k : Nat) : Ev → Ev
  | .exec wi pc changed touch =>
    .exec wi ((pc + k) % M) ((List.range M).filter (fun a => decide (unsh M k a ∈ changed)))
      (touch.map (fun a => (a + k) % M))
  | .taskDied wi pc => .taskDied wi ((pc + k) % M)
  | .warriorDied wi pc => .warriorDied wi ((pc + k) % M)

theorem changed_rotate {M : Nat} (k : Nat) (c c' : Core) (hc : c.length = M) (hc' : c'.length = M) :
    (List.range M).filter (fun a => (rot k c).getD a default != (rot k c').getD a default)
      = (List.range M).filter (fun a => decide (unsh M k a ∈
          (List.range M).filter (fun b => c.getD b default != c'.getD b default))) := by
  apply List.filter_congr
  intro a ha
  have ha' : a < M := List.mem_range.mp ha
  have hM : 0 < M := by omega
  have e1 : (rot k c).getD a default = c.getD (unsh M k a) default := by
    have := rot_at_lt k c (hc ▸ ha'); rw [hc] at this; exact this
  have e2 : (rot k c').getD a default = c'.getD (unsh M k a) default := by
    have := rot_at_lt k c' (hc' ▸ ha'); rw [hc'] at this; exact this
  rw [e1, e2]
  simp only [List.mem_filter, List.mem_range, unsh_lt hM, true_and, Bool.decide_eq_true]

theorem mayTouch_rotate {M : Nat} (R W : Nat) (k : Nat) (c : Core) (hc : c.length = M)
    {pc : Nat} (hpc : pc < M) :
    mayTouch M R W (rot k c) ((pc + k) % M) = (mayTouch M R W c pc).map (fun a => (a + k) % M) := by
  have hM : 0 < M := by omega
  unfold mayTouch
  simp only
  rw [rot_at k c hc hpc]
  generalize hir : c.at pc = ir
  rw [evalOperand_rotate R W k c hc hM pc]
  generalize hoa : evalOperand M R W pc c ir.am ir.a = oa
  have hoal : oa.core.length = M := by rw [← hoa, evalOperand_length, hc]
  have hoap : ∀ q, oa.pip = some q → q.1 < M := by
    rw [← hoa]; exact evalOperand_pip_lt hM R W pc c _ _
  simp only [Operand.rot]
  rw [postInc_rotate k oa.core hoal oa.pip hoap]
  generalize hc1 : postInc M oa.core oa.pip = c1
  have hc1l : c1.length = M := by rw [← hc1, postInc_length, hoal]
  rw [evalOperand_rotate R W k c1 hc1l hM pc]
  generalize hob : evalOperand M R W pc c1 ir.bm ir.b = ob
  simp only [Operand.rot, add_shift M pc k]
  cases oa.dec <;> cases oa.pip <;> cases ob.dec <;> cases ob.pip <;> split <;> simp

theorem turn_rotate_ev (k : Nat) (s : Api) (h : s.WFs) (i : Nat) :
    (rotApi k s).turn i = (rotApi k (s.turn i).1, (s.turn i).2.map (Ev.shift s.M k)) := by
  unfold Api.turn
  have hws : (rotApi k s).ws[i]? = (s.ws[i]?).map (rotSW s.M k) := by simp [rotApi]
  rw [hws]
  cases hw : s.ws[i]? with
  | none => rfl
  | some w =>
    have hmem : w ∈ s.ws := List.mem_of_getElem? hw
    simp only [Option.map_some]
    by_cases hst : (w.st != .alive) = true
    · have hst' : ((rotSW s.M k w).st != .alive) = true := hst
      rw [if_pos hst, if_pos hst']
      rfl
    · have hst' : ¬ ((rotSW s.M k w).st != .alive) = true := hst
      rw [if_neg hst, if_neg hst']
      cases hq : w.q with
      | nil =>
        have hq' : (rotSW s.M k w).q = [] := by simp [rotSW, hq]
        simp only [hq']
        simp only [rotApi, List.map_set]
        rfl
      | cons pc rest =>
        have hq' : (rotSW s.M k w).q = ((pc + k) % s.M) :: rest.map (fun a => (a + k) % s.M) := by
          simp [rotSW, hq]
        have hpc : pc < s.M := h.q_lt w hmem pc (by simp [hq])
        simp only [hq']
        have hstep : step (rotApi k s).M (rotApi k s).R (rotApi k s).W (rotApi k s).core
            ((pc + k) % s.M) = _ := step_rotate s.R s.W k s.core h.len hpc
        have htouch : mayTouch (rotApi k s).M (rotApi k s).R (rotApi k s).W (rotApi k s).core
            ((pc + k) % s.M) = _ := mayTouch_rotate s.R s.W k s.core h.len hpc
        have hchg : (List.range (rotApi k s).M).filter (fun a => (rotApi k s).core.getD a default
              != (rot k (step s.M s.R s.W s.core pc).core).getD a default) = _ :=
          changed_rotate k s.core (step s.M s.R s.W s.core pc).core h.len
            ((step_length ..).trans h.len)
        rw [hstep, htouch]
        simp only
        rw [hchg]
        have hP : (rotApi k s).P = s.P := rfl
        simp only [hP, enqueue_map, List.isEmpty_map]
        split
        · simp only [rotApi, List.map_set]
          split <;> rfl
        · simp only [rotApi, List.map_set]
          split <;> rfl

theorem turns_rotate_ev (k : Nat) (is : List Nat) (s : Api) (h : s.WFs) :
    (rotApi k s).turns is
      = (rotApi k (s.turns is).1, (s.turns is).2.1.map (Ev.shift s.M k), (s.turns is).2.2) := by
  induction is generalizing s with
  | nil => rfl
  | cons i is ih =>
    unfold Api.turns
    simp only
    rw [turn_rotate_ev k s h i]
    simp only [rotApi_living, rotApi_ws_length]
    split
    · rfl
    · rw [ih _ (WFs_turn s h i), (turn_params s i).1]
      simp only [List.map_append]

/-- **A cycle is rotation-equivariant**, including the event stream. -/
theorem cycle_rotate_ev (k : Nat) (s : Api) (h : s.WFs) :
    (rotApi k s).cycle = (rotApi k s.cycle.1, s.cycle.2.1.map (Ev.shift s.M k), s.cycle.2.2) := by
  unfold Api.cycle
  rw [rotApi_finished, rotApi_ws_length]
  split
  · rfl
  · simp only
    rw [turns_rotate_ev k _ s h]
    simp only [rotApi_living]
    split <;> rfl

theorem cycle_params (s : Api) :
    s.cycle.1.M = s.M ∧ s.cycle.1.R = s.R ∧ s.cycle.1.W = s.W ∧ s.cycle.1.P = s.P ∧
    s.cycle.1.C = s.C := by
  unfold Api.cycle
  obtain ⟨a, b, c, d, e, -⟩ := turns_params (List.range s.ws.length) s
  split
  · simp
  · simp only
    split <;> exact ⟨a, b, c, d, e⟩

/-- **A whole run is rotation-equivariant**, including the event stream. -/
theorem run_rotate_ev (k : Nat) (fuel : Nat) (s : Api) (h : s.WFs) :
    (rotApi k s).run fuel = (rotApi k (s.run fuel).1, (s.run fuel).2.map (Ev.shift s.M k)) := by
  induction fuel generalizing s with
  | zero => rfl
  | succ fuel ih =>
    unfold Api.run
    rw [rotApi_finished]
    split
    · rfl
    · simp only
      rw [cycle_rotate_ev k s h]
      simp only
      rw [ih _ (WFs_cycle s h), (cycle_params s).1]
      simp only [List.map_append]

end Gmars.Spec
