/-
  C17 / C02: a battle between at least two warriors never loses its last survivor.
  First on the reference scheduler `Spec.Api`, then transported to the model (`Sim.runLoop`),
  then to the command-line tool's battle loop (`Cli.round`, `Cli.battles`).
-/
import Gmars.Proofs.ApiRel
import Gmars.Model.Cli

namespace Gmars
open Spec

/-! ## 1. the reference scheduler -/

/-- what one warrior's turn does to the counters: it kills at most one warrior -/
theorem Spec.Api.turn_facts (a : Api) (i : Nat) :
    (a.turn i).1.ws.length = a.ws.length ∧ (a.turn i).1.cycles = a.cycles ∧
      (a.turn i).1.C = a.C ∧
      (a.turn i).1.living ≤ a.living ∧ a.living ≤ (a.turn i).1.living + 1 := by
  unfold Api.turn
  split
  · exact ⟨rfl, rfl, rfl, Nat.le_refl _, Nat.le_succ _⟩
  · rename_i w hw
    split
    · exact ⟨rfl, rfl, rfl, Nat.le_refl _, Nat.le_succ _⟩
    · rename_i hst
      have hst' : w.st = .alive := by simpa using hst
      split
      · have h := Api.living_set a i w { w with st := .dead } hw a.core
        simp only [hst', beq_self_eq_true, if_true] at h
        have h0 : ((WSt.dead == WSt.alive) = true) = False := by simp
        simp only [h0, if_false, Nat.add_zero] at h
        refine ⟨by simp only [List.length_set], rfl, rfl, ?_, ?_⟩
        · exact Nat.le_of_lt (Nat.lt_of_succ_le (Nat.le_of_eq h))
        · exact Nat.le_of_eq h.symm
      · rename_i pc rest hq
        dsimp only
        split
        · have h := Api.living_set a i w
            { w with q := enqueue a.P rest (step a.M a.R a.W a.core pc).succ, st := .dead } hw
            (step a.M a.R a.W a.core pc).core
          simp only [hst', beq_self_eq_true, if_true] at h
          have h0 : ((WSt.dead == WSt.alive) = true) = False := by simp
          simp only [h0, if_false, Nat.add_zero] at h
          refine ⟨by simp only [List.length_set], rfl, rfl, ?_, ?_⟩
          · exact Nat.le_of_lt (Nat.lt_of_succ_le (Nat.le_of_eq h))
          · exact Nat.le_of_eq h.symm
        · have h := Api.living_set a i w
            { w with q := enqueue a.P rest (step a.M a.R a.W a.core pc).succ } hw
            (step a.M a.R a.W a.core pc).core
          simp only [Nat.add_right_cancel_iff] at h
          refine ⟨by simp only [List.length_set], rfl, rfl, ?_, ?_⟩
          · exact Nat.le_of_eq h
          · rw [h]; exact Nat.le_succ _

theorem Spec.Api.turns_facts (a : Api) (is : List Nat) :
    (a.turns is).1.ws.length = a.ws.length ∧ (a.turns is).1.cycles = a.cycles ∧
      (a.turns is).1.C = a.C ∧ (a.turns is).1.living ≤ a.living := by
  induction is generalizing a with
  | nil => exact ⟨rfl, rfl, rfl, Nat.le_refl _⟩
  | cons i is ih =>
    obtain ⟨h1, h2, h3, h4, _⟩ := a.turn_facts i
    rw [Api.turns_cons_fst]
    split
    · exact ⟨h1, h2, h3, h4⟩
    · obtain ⟨k1, k2, k3, k4⟩ := ih (a.turn i).1
      exact ⟨k1.trans h1, k2.trans h2, k3.trans h3, Nat.le_trans k4 h4⟩

/-- as long as two warriors live, the warrior loop of a cycle leaves a survivor: each turn
    kills at most one warrior and the loop stops as soon as exactly one of several is left -/
theorem Spec.Api.turns_living_pos (a : Api) (is : List Nat) (h : a.living ≥ 2) :
    (a.turns is).1.living ≥ 1 := by
  induction is generalizing a with
  | nil => exact Nat.le_trans (by decide) h
  | cons i is ih =>
    obtain ⟨_, _, _, h4, h5⟩ := a.turn_facts i
    rw [Api.turns_cons_fst]
    by_cases hc : stopCond a (a.turn i).1 = true
    · rw [if_pos hc]
      unfold stopCond at hc
      simp only [Bool.and_eq_true, decide_eq_true_eq, beq_iff_eq] at hc
      omega
    · rw [if_neg hc]
      apply ih
      unfold stopCond at hc
      simp only [Bool.and_eq_true, decide_eq_true_eq, beq_iff_eq, not_and] at hc
      have hlen : (a.turn i).1.living ≤ (a.turn i).1.ws.length := List.length_filter_le _ _
      have hlen' : a.living ≤ a.ws.length := List.length_filter_le _ _
      omega

theorem Spec.Api.cycle_fst (a : Api) :
    a.cycle.1 =
      if a.finished then a
      else if (a.turns (List.range a.ws.length)).2.2 then (a.turns (List.range a.ws.length)).1
      else { (a.turns (List.range a.ws.length)).1 with
               cycles := (a.turns (List.range a.ws.length)).1.cycles + 1 } := by
  unfold Api.cycle
  split
  · rfl
  · dsimp only
    split <;> rfl

theorem Spec.Api.not_finished (a : Api) (h : ¬ a.finished = true) :
    a.cycles < a.C ∧ a.living ≥ 1 ∧ ¬ (a.ws.length > 1 ∧ a.living = 1) := by
  unfold Api.finished at h
  simp only [Bool.or_eq_true, Bool.and_eq_true, decide_eq_true_eq, beq_iff_eq, not_or] at h
  omega

theorem Spec.Api.cycle_facts (a : Api) :
    a.cycle.1.ws.length = a.ws.length ∧ a.cycle.1.C = a.C ∧ a.cycle.1.living ≤ a.living := by
  obtain ⟨h1, _, h3, h4⟩ := a.turns_facts (List.range a.ws.length)
  rw [Api.cycle_fst]
  split
  · exact ⟨rfl, rfl, Nat.le_refl _⟩
  · split
    · exact ⟨h1, h3, h4⟩
    · exact ⟨h1, h3, h4⟩

/-- **`living_pos`, one cycle.** A battle with at least two warriors never loses its last
    survivor in a cycle. -/
theorem Spec.Api.cycle_living_pos (s : Api) (h2 : s.ws.length ≥ 2) (hl : s.living ≥ 1) :
    (s.cycle.1).living ≥ 1 := by
  rw [Api.cycle_fst]
  by_cases hf : s.finished = true
  · rw [if_pos hf]; exact hl
  · rw [if_neg hf]
    obtain ⟨_, _, hns⟩ := s.not_finished hf
    have h := s.turns_living_pos (List.range s.ws.length) (by omega)
    split
    · exact h
    · exact h

/-- **`living_pos`, `Run`.** A battle with at least two warriors never loses its last survivor. -/
theorem Spec.Api.run_living_pos (s : Api) (fuel : Nat) (h2 : s.ws.length ≥ 2) (hl : s.living ≥ 1) :
    ((s.run fuel).1).living ≥ 1 := by
  induction fuel generalizing s with
  | zero => exact hl
  | succ k ih =>
    by_cases hf : s.finished = true
    · rw [Api.run_of_finished s _ hf]; exact hl
    · rw [Api.run_succ s k hf]
      exact ih _ (by rw [s.cycle_facts.1]; exact h2) (s.cycle_living_pos h2 hl)

/-- the statement asked for: both parts of `living_pos` -/
theorem living_pos (s : Api) (h2 : s.ws.length ≥ 2) (hl : s.living ≥ 1) :
    (s.cycle.1).living ≥ 1 ∧ ∀ fuel, ((s.run fuel).1).living ≥ 1 :=
  ⟨s.cycle_living_pos h2 hl, fun fuel => s.run_living_pos fuel h2 hl⟩

theorem Spec.Api.run_facts (s : Api) (fuel : Nat) :
    (s.run fuel).1.ws.length = s.ws.length ∧ (s.run fuel).1.C = s.C := by
  induction fuel generalizing s with
  | zero => exact ⟨rfl, rfl⟩
  | succ k ih =>
    by_cases hf : s.finished = true
    · rw [Api.run_of_finished s _ hf]; exact ⟨rfl, rfl⟩
    · rw [Api.run_succ s k hf]
      obtain ⟨h1, h2⟩ := ih s.cycle.1
      exact ⟨h1.trans s.cycle_facts.1, h2.trans s.cycle_facts.2.1⟩

/-- a cycle of an unfinished battle is counted, or ends the battle -/
theorem Spec.Api.cycle_progress (s : Api) (hf : ¬ s.finished = true) :
    s.cycle.1.cycles = s.cycles + 1 ∨ s.cycle.1.finished = true := by
  obtain ⟨_, h2, _, _⟩ := s.turns_facts (List.range s.ws.length)
  rw [Api.cycle_fst, if_neg hf]
  by_cases hstop : (s.turns (List.range s.ws.length)).2.2 = true
  · rw [if_pos hstop]
    obtain ⟨hl1, hlen1⟩ := Api.turns_stop s _ hstop
    exact Or.inr (Api.finished_of_single _ hl1 hlen1)
  · rw [if_neg hstop]
    exact Or.inl (by rw [← h2])

/-- **`run_finished` (reference).** With fuel above the number of cycles still allowed, `Run`
    ends in a `finished` state. -/
theorem Spec.Api.run_finished (s : Api) (fuel : Nat) (h : fuel ≥ s.C - s.cycles + 1) :
    (s.run fuel).1.finished = true := by
  induction fuel generalizing s with
  | zero => omega
  | succ k ih =>
    by_cases hf : s.finished = true
    · rw [Api.run_of_finished s _ hf]; exact hf
    · rw [Api.run_succ s k hf]
      obtain ⟨hlt, _, _⟩ := s.not_finished hf
      rcases s.cycle_progress hf with hc | hc
      · exact ih _ (by rw [s.cycle_facts.2.1, hc]; omega)
      · rw [Api.run_of_finished _ _ hc]; exact hc

/-! ## 2. transport to the model -/

theorem Spec.Api.any_alive_of_living (a : Api) (h : a.living ≥ 1) :
    (a.ws.map (fun w => w.st == .alive)).any id = true := by
  unfold Api.living at h
  have hne : a.ws.filter (·.st == .alive) ≠ [] := by
    intro hc; rw [hc] at h; simp at h
  obtain ⟨w, hw⟩ := List.exists_mem_of_ne_nil _ hne
  rw [List.mem_filter] at hw
  rw [List.any_eq_true]
  exact ⟨true, List.mem_map.mpr ⟨w, hw.1, hw.2⟩, rfl⟩

/-- **Survivor, model (relative to a reference state).** If the model state `s` describes the
    reference battle `a` with at least two warriors, one of them alive, then `Run()` ends without
    panic, in the state of the reference `Run`, and reports at least one survivor. -/
theorem runLoop_survivor_of_rel {s : Sim} {a : Api} (hp : Pre s) (hr : Rel s a)
    (h2 : a.ws.length ≥ 2) (hl : a.living ≥ 1) :
    ∃ s', s.runLoop (s.maxCycles.toNat + 2) = .ok (s', true) ∧ Rel s' (a.run (a.C + 2)).1 ∧
      s'.WF ∧ s'.results = (a.run (a.C + 2)).1.ws.map (fun w => w.st == .alive) ∧
      s'.results.length = a.ws.length ∧ s'.results.any id = true := by
  obtain ⟨s', h1, hrel, hwf, _, _⟩ :=
    runLoop_refines exec_refines hp hr (s.maxCycles.toNat + 2) (by omega)
  rw [← hr.C] at h1 hrel
  have hres := results_eq hrel
  refine ⟨s', by rw [← hr.C]; exact h1, hrel, hwf, hres, ?_, ?_⟩
  · rw [hres, List.length_map, (a.run_facts _).1]
  · rw [hres]
    exact Api.any_alive_of_living _ (a.run_living_pos _ h2 hl)

/-- **Survivor, model.** From any well-formed model state with at least two warriors, one of
    them alive, `Run()` ends without panic and at least one of the results is `true`. -/
theorem runLoop_survivor {s : Sim} (hp : Pre s) (h2 : s.warriors.size ≥ 2) (hl : s.living ≥ 1) :
    ∃ s', s.runLoop (s.maxCycles.toNat + 2) = .ok (s', true) ∧ s'.WF ∧
      s'.results.length = s.warriors.size ∧ s'.results.any id = true := by
  have hr := Rel.toApi s
  have hliv := hr.living hp.wf
  have hl' : s.toApi.living ≥ 1 := by
    rw [hliv] at hl
    simp only [Int.ofNat_eq_natCast] at hl
    omega
  obtain ⟨s', h1, _, hwf, _, hlen, hany⟩ :=
    runLoop_survivor_of_rel hp hr (by rw [hr.len]; exact h2) hl'
  exact ⟨s', h1, hwf, by rw [hlen, hr.len], hany⟩

/-- exactly two warriors: they cannot both be reported dead -/
theorem runLoop_survivor_two {s : Sim} (hp : Pre s) (h2 : s.warriors.size = 2)
    (hl : s.living ≥ 1) :
    ∃ s' a1 a2, s.runLoop (s.maxCycles.toNat + 2) = .ok (s', true) ∧ s'.results = [a1, a2] ∧
      (a1, a2) ≠ (false, false) := by
  obtain ⟨s', h1, _, hlen, hany⟩ := runLoop_survivor hp (by omega) hl
  rw [h2] at hlen
  match hres : s'.results, hlen with
  | [a1, a2], _ =>
    refine ⟨s', a1, a2, h1, hres, ?_⟩
    rw [hres] at hany
    intro hc
    cases hc
    simp at hany

theorem two_of_any {a1 a2 : Bool} (h : [a1, a2].any id = true) : (a1, a2) ≠ (false, false) := by
  intro hc; cases hc; simp at h

/-! ## 3. the command-line tool's battle -/

/-- an accepted `spawn` of the reference brings one more warrior to life -/
theorem Spec.Api.spawn_living (a a' : Api) (wi : Int) (off : Nat) (h : a.spawn wi off = some a') :
    a'.living = a.living + 1 ∧ a'.ws.length = a.ws.length := by
  unfold Api.spawn at h
  split at h
  · cases h
  · split at h
    · cases h
    · rename_i w hw
      split at h
      · cases h
      · rename_i hst
        simp only [Option.some.injEq] at h
        subst h
        have hl := Api.living_set a wi.toNat w
          { w with st := .alive, q := enqueue a.P [] [(off + w.start) % a.M], stale := false,
                   spawned := true } hw (loadAt a.M a.core off w.code)
        have h0 : (w.st == WSt.alive) = false := by simpa using hst
        simp only [h0, Bool.false_eq_true, if_false, beq_self_eq_true, if_true, Nat.add_zero] at hl
        exact ⟨hl, by simp only [List.length_set]⟩

/-- `AddWarrior` followed by `SpawnWarrior` of the warrior just added: accepted by the model and
    by the reference, and the states stay related -/
theorem add_spawn_refines {s : Sim} {a : Api} (h : ApiInv s a) (d : WarriorData)
    (hcode : ∀ x ∈ d.code.toList, x.a < s.m ∧ x.b < s.m) (hstart : d.StartOK)
    (wi : Int) (h0 : 0 ≤ wi) (hwi : wi.toNat = s.warriors.size) (off : UInt64) :
    ∃ s' a', (s.addWarrior d).spawn wi off = .ok (s', true) ∧
      (a.add (d.code.toList.map Instr.abs) d.start.toNat).spawn wi off.toNat = some a' ∧
      ApiInv s' a' ∧ s'.m = s.m ∧ s'.warriors.size = s.warriors.size + 1 ∧
      a'.living = a.living + 1 := by
  obtain ⟨hwfA, hcoA, _⟩ := addWarrior_spec d h.wf h.code hcode
  have hinvA : ApiInv (s.addWarrior d) (a.add (d.code.toList.map Instr.abs) d.start.toNat) :=
    ⟨hwfA, hcoA, addWarrior_startsOK h.starts hstart, addWarrior_rel h.rel,
      addWarrior_dataRel h.data, h.m32, h.rl, h.wl⟩
  have hsize : (s.addWarrior d).warriors.size = s.warriors.size + 1 := by
    simp only [Sim.addWarrior, Array.size_push]
  have hlt : wi.toNat < (s.addWarrior d).warriors.size := by rw [hsize, hwi]; exact Nat.lt_succ_self _
  have hstate : (s.addWarrior d).warriors[wi.toNat].state = .added := by
    simp only [Sim.addWarrior, hwi, Array.getElem_push_eq]
  rcases spawn_cases hinvA.starts wi off (by have := hinvA.wf.m3; omega)
    (by have := hinvA.m32; omega) with hc | hc
  · exfalso
    rcases hc with hc | hc | ⟨_, hc⟩
    · omega
    · omega
    · rw [hstate] at hc; cases hc
  · obtain ⟨s', a', e1, e2, hrel⟩ := spawn_accept hinvA.wf hinvA.rel hinvA.data hc
    obtain ⟨⟨s'', b⟩, hsp, hwf', hk⟩ := spawn_spec (s.addWarrior d) wi off hinvA.wf hinvA.code
    rw [e1] at hsp
    cases hsp
    obtain ⟨g1, g2, g3, g4, g5, g6⟩ := Spec.Api.spawn_sig _ a' wi off.toNat e2
    refine ⟨s', a', e1, e2, hinvA.step hwf' hk hrel ⟨g1, g2, g3, g4, g5, g6⟩, hk.m, ?_, ?_⟩
    · rw [hk.wsize, hsize]
    · rw [(Spec.Api.spawn_living _ a' wi off.toNat e2).1]
      simp only [Api.living, Api.add, List.filter_append, List.length_append]
      rfl

/-- the reference battle of the command-line tool: a fresh simulator, warrior 1 spawned at 0,
    warrior 2 at `place`, then `Run` -/
def refBattle (cfg : Config) (w1 w2 : WarriorData) (place : Nat) : Option Api := do
  let a0 := Api.new cfg.coreSize.toNat cfg.readLimit.toNat cfg.writeLimit.toNat
    cfg.processes.toNat cfg.cycles.toNat
  let a1 ← (a0.add (w1.code.toList.map Instr.abs) w1.start.toNat).spawn 0 0
  let a2 ← (a1.add (w2.code.toList.map Instr.abs) w2.start.toNat).spawn 1 place
  some (a2.run (a2.C + 2)).1

/-- the reference never rejects the two spawns of the command-line tool's battle -/
theorem refBattle_isSome (cfg : Config) (w1 w2 : WarriorData) (place : Nat) :
    (refBattle cfg w1 w2 place).isSome = true := by
  simp [refBattle, Api.spawn, Api.add, Api.new]

/-- the hypotheses on a two-warrior round of the command-line tool -/
structure RoundPre (cfg : Config) (w1 w2 : WarriorData) : Prop where
  core32 : cfg.coreSize.toNat ≤ 2 ^ 32
  rl     : cfg.readLimit.toNat ≤ cfg.coreSize.toNat
  wl     : cfg.writeLimit.toNat ≤ cfg.coreSize.toNat
  code1  : ∀ x ∈ w1.code.toList, x.a < cfg.coreSize ∧ x.b < cfg.coreSize
  start1 : w1.StartOK
  code2  : ∀ x ∈ w2.code.toList, x.a < cfg.coreSize ∧ x.b < cfg.coreSize
  start2 : w2.StartOK

/-- what `Config.quick` (the command line without a preset) provides -/
theorem RoundPre.quick {mode : SimMode} {core procs cycles len : UInt64} {w1 w2 : WarriorData}
    (h32 : core.toNat ≤ 2 ^ 32)
    (code1 : ∀ x ∈ w1.code.toList, x.a < core ∧ x.b < core) (start1 : w1.StartOK)
    (code2 : ∀ x ∈ w2.code.toList, x.a < core ∧ x.b < core) (start2 : w2.StartOK) :
    RoundPre (Config.quick mode core procs cycles len) w1 w2 :=
  ⟨h32, Nat.le_refl _, Nat.le_refl _, code1, start1, code2, start2⟩

theorem Cli.round_two_eq (cfg : Config) (w1 w2 : WarriorData) (place : UInt64)
    (s0 s1 s2 s3 : Sim) (b : Bool) (hnew : Sim.new cfg = some s0)
    (h1 : (s0.addWarrior w1).spawn 0 0 = .ok (s1, true))
    (h2 : (s1.addWarrior w2).spawn 1 place = .ok (s2, true))
    (h3 : s2.runLoop (s2.maxCycles.toNat + 2) = .ok (s3, b)) :
    Cli.round cfg [w1, w2] place = some s3.results := by
  simp [Cli.round, hnew, h1, h2, h3, Except.toOption]

theorem Cli.round_invalid (cfg : Config) (ws : List WarriorData) (place : UInt64)
    (h : cfg.validate = false) : Cli.round cfg ws place = none := by
  simp [Cli.round, Sim.new, h]

/-- the two-warrior round, step by step, next to the reference battle -/
theorem round_refines {cfg : Config} {w1 w2 : WarriorData} {place : UInt64} {s0 : Sim}
    (hnew : Sim.new cfg = some s0) (hpre : RoundPre cfg w1 w2) :
    ∃ (s3 : Sim) (a1 a2 : Api),
      ((Api.new cfg.coreSize.toNat cfg.readLimit.toNat cfg.writeLimit.toNat cfg.processes.toNat
          cfg.cycles.toNat).add (w1.code.toList.map Instr.abs) w1.start.toNat).spawn 0 0
        = some a1 ∧
      (a1.add (w2.code.toList.map Instr.abs) w2.start.toNat).spawn 1 place.toNat = some a2 ∧
      Cli.round cfg [w1, w2] place = some s3.results ∧
      refBattle cfg w1 w2 place.toNat = some (a2.run (a2.C + 2)).1 ∧
      Rel s3 (a2.run (a2.C + 2)).1 ∧
      s3.results = (a2.run (a2.C + 2)).1.ws.map (fun w => w.st == .alive) ∧
      s3.results.length = 2 ∧ s3.results.any id = true := by
  obtain ⟨hinv0, hm0⟩ := new_inv hnew hpre.core32 hpre.rl hpre.wl
  have hsz0 : s0.warriors.size = 0 := by rw [← hinv0.rel.len]; rfl
  obtain ⟨s1, a1, e1, f1, hinv1, hm1, hsz1, _⟩ :=
    add_spawn_refines hinv0 w1 (by rw [hm0]; exact hpre.code1) hpre.start1 0 (Int.le_refl _)
      (by rw [hsz0]; rfl) 0
  obtain ⟨s2, a2, e2, f2, hinv2, _, hsz2, hl2⟩ :=
    add_spawn_refines hinv1 w2 (by rw [hm1, hm0]; exact hpre.code2) hpre.start2 1 (by decide)
      (by rw [hsz1, hsz0]; rfl) place
  have hlen2 : a2.ws.length = 2 := by rw [hinv2.rel.len, hsz2, hsz1, hsz0]
  obtain ⟨s3, h3, hrel3, _, hres, hlen, hany⟩ :=
    runLoop_survivor_of_rel ⟨hinv2.wf, hinv2.m32, hinv2.rl, hinv2.wl⟩ hinv2.rel
      (by omega) (by omega)
  have f1' : ((Api.new cfg.coreSize.toNat cfg.readLimit.toNat cfg.writeLimit.toNat
      cfg.processes.toNat cfg.cycles.toNat).add (w1.code.toList.map Instr.abs)
      w1.start.toNat).spawn 0 0 = some a1 := f1
  refine ⟨s3, a1, a2, f1', f2, Cli.round_two_eq cfg w1 w2 place s0 s1 s2 s3 true hnew e1 e2 h3, ?_,
    hrel3, hres, by rw [hlen, hlen2], hany⟩
  simp only [refBattle, f1', f2, Option.bind_eq_bind, Option.bind_some]

/-- **`fixed_output`.** The survivors the command-line tool reports for a round are those of the
    reference battle: never a fault, for ANY placement (any 64-bit offset). -/
theorem fixed_output {cfg : Config} {w1 w2 : WarriorData} {place : UInt64}
    (hv : cfg.validate = true) (hpre : RoundPre cfg w1 w2) :
    Cli.round cfg [w1, w2] place =
      (refBattle cfg w1 w2 place.toNat).map (fun a => a.ws.map (fun w => w.st == .alive)) ∧
    (refBattle cfg w1 w2 place.toNat).isSome = true := by
  have hnew : ∃ s0, Sim.new cfg = some s0 := by
    unfold Sim.new; rw [if_pos hv]; exact ⟨_, rfl⟩
  obtain ⟨s0, hnew⟩ := hnew
  obtain ⟨s3, _, a2, _, _, h1, h2, _, h4, _, _⟩ := round_refines (place := place) hnew hpre
  rw [h1, h2, h4]
  exact ⟨rfl, rfl⟩

/-- `fixed_output`, spelled out: the two reference spawns are accepted, and the round reports the
    survivors of the reference `Run` -/
theorem fixed_output_explicit {cfg : Config} {w1 w2 : WarriorData} {place : UInt64}
    (hv : cfg.validate = true) (hpre : RoundPre cfg w1 w2) :
    ∃ a1 a2 : Api,
      ((Api.new cfg.coreSize.toNat cfg.readLimit.toNat cfg.writeLimit.toNat cfg.processes.toNat
          cfg.cycles.toNat).add (w1.code.toList.map Instr.abs) w1.start.toNat).spawn 0 0
        = some a1 ∧
      (a1.add (w2.code.toList.map Instr.abs) w2.start.toNat).spawn 1 place.toNat = some a2 ∧
      Cli.round cfg [w1, w2] place =
        some ((a2.run (a2.C + 2)).1.ws.map (fun w => w.st == .alive)) := by
  have hnew : ∃ s0, Sim.new cfg = some s0 := by
    unfold Sim.new; rw [if_pos hv]; exact ⟨_, rfl⟩
  obtain ⟨s0, hnew⟩ := hnew
  obtain ⟨s3, a1, a2, f1, f2, h1, _, _, h4, _, _⟩ := round_refines (place := place) hnew hpre
  exact ⟨a1, a2, f1, f2, by rw [h1, h4]⟩

/-- **`cli_round_ok`.** A two-warrior round reports on both warriors, and at least one of them
    has survived. -/
theorem cli_round_ok {cfg : Config} {w1 w2 : WarriorData} {place : UInt64} {alive : List Bool}
    (hpre : RoundPre cfg w1 w2)
    (h : Cli.round cfg [w1, w2] place = some alive) :
    alive.length = 2 ∧ alive ≠ [false, false] := by
  cases hv : cfg.validate
  · rw [Cli.round_invalid cfg _ place hv] at h; cases h
  · have hnew : ∃ s0, Sim.new cfg = some s0 := by
      unfold Sim.new; rw [if_pos hv]; exact ⟨_, rfl⟩
    obtain ⟨s0, hnew⟩ := hnew
    obtain ⟨s3, _, a2, _, _, h1, _, _, _, hlen, hany⟩ := round_refines (place := place) hnew hpre
    rw [h1] at h
    cases h
    refine ⟨hlen, ?_⟩
    intro hc
    rw [hc] at hany
    simp at hany

/-! ## 4. the tallies -/

/-- tallying a two-warrior round with a survivor: exactly one of "warrior 1 wins", "warrior 2
    wins", "tie" is counted, and a tie is counted for both -/
theorem Cli.Tally.add_two (t : Cli.Tally) (a1 a2 : Bool) (h : [a1, a2] ≠ [false, false]) :
    (t.add [a1, a2]).w1win + (t.add [a1, a2]).w2win + (t.add [a1, a2]).w1tie
        = t.w1win + t.w2win + t.w1tie + 1 ∧
    ((t.add [a1, a2]).w1tie : Int) - (t.add [a1, a2]).w2tie = (t.w1tie : Int) - t.w2tie := by
  cases a1 <;> cases a2 <;> simp_all [Cli.Tally.add] <;> omega

/-- the generic tally lemma (as `Props.C17.tally_partition_from`, for the battle loop): if every
    round that is played reports on two warriors, not both dead, then every round is counted
    exactly once -/
theorem Cli.tally_foldlM (round : UInt64 → Option (List Bool)) (places : List UInt64)
    (hround : ∀ p ∈ places, ∀ alive, round p = some alive →
      alive.length = 2 ∧ alive ≠ [false, false])
    (t t' : Cli.Tally)
    (h : places.foldlM (fun t p => (round p).map t.add) t = some t') :
    t'.w1win + t'.w2win + t'.w1tie = t.w1win + t.w2win + t.w1tie + places.length ∧
    (t'.w1tie : Int) - t'.w2tie = (t.w1tie : Int) - t.w2tie := by
  induction places generalizing t with
  | nil =>
    simp only [List.foldlM_nil, pure, Option.some.injEq] at h
    subst h
    exact ⟨rfl, rfl⟩
  | cons p ps ih =>
    rw [List.foldlM_cons] at h
    cases hr : round p with
    | none => rw [hr] at h; cases h
    | some alive =>
      rw [hr] at h
      simp only [Option.map_some, Option.bind_eq_bind, Option.bind_some] at h
      obtain ⟨hlen, hne⟩ := hround p List.mem_cons_self alive hr
      obtain ⟨k1, k2⟩ := ih (fun q hq => hround q (List.mem_cons_of_mem _ hq)) _ h
      match alive, hlen, hne with
      | [a1, a2], _, hne =>
        obtain ⟨g1, g2⟩ := t.add_two a1 a2 hne
        rw [k1, k2, g1, g2, List.length_cons]
        exact ⟨by omega, rfl⟩

/-- **`cli_tally_partition`.** Whatever the placements, the tallies the command-line tool prints
    for a two-warrior battle add up: every round is a win for warrior 1, a win for warrior 2 or
    a tie, and both warriors are credited with the same number of ties. -/
theorem cli_tally_partition {cfg : Config} {w1 w2 : WarriorData} {places : List UInt64}
    {t : Cli.Tally} (hpre : RoundPre cfg w1 w2)
    (h : Cli.battles cfg [w1, w2] places = some t) :
    t.w1win + t.w2win + t.w1tie = places.length ∧ t.w1tie = t.w2tie := by
  obtain ⟨h1, h2⟩ := Cli.tally_foldlM (fun p => Cli.round cfg [w1, w2] p) places
    (fun p _ alive hr => cli_round_ok hpre hr) {} t h
  constructor
  · simpa using h1
  · have h3 : (t.w1tie : Int) - t.w2tie = 0 := by simpa using h2
    omega

/-- under the same hypotheses the battle loop never faults (for a valid configuration) -/
theorem cli_battles_some {cfg : Config} {w1 w2 : WarriorData} {places : List UInt64}
    (hv : cfg.validate = true) (hpre : RoundPre cfg w1 w2) :
    ∃ t, Cli.battles cfg [w1, w2] places = some t := by
  unfold Cli.battles
  generalize ({} : Cli.Tally) = t0
  induction places generalizing t0 with
  | nil => exact ⟨t0, rfl⟩
  | cons p ps ih =>
    have hsome := (fixed_output (place := p) hv hpre)
    obtain ⟨a, ha⟩ := Option.isSome_iff_exists.mp hsome.2
    rw [List.foldlM_cons, hsome.1, ha]
    exact ih _

end Gmars
