/-
  Transport of reference-level theorems to the model through `exec_refines`.
-/
import Gmars.Proofs.Refine
import Gmars.Proofs.SpecLocal

namespace Gmars

theorem Instr.abs_injective {i j : Instr} (h : i.abs = j.abs) : i = j := by
  cases i; cases j
  simp only [Instr.abs, SInstr.mk.injEq] at h
  obtain ⟨h1, h2, h3, h4, h5, h6⟩ := h
  simp only [Instr.mk.injEq]
  exact ⟨h1, h2, UInt64.toNat_inj.mp h3, h4, UInt64.toNat_inj.mp h5, h6⟩

theorem Sim.absCore_at (s : Sim) (a : Nat) (h : a < s.mem.size) : s.absCore.at a = s.mem[a].abs := by
  unfold Sim.absCore Spec.Core.at
  simp [List.getD, h]

/-- C11 on the model: with limits not larger than the core, one executed task alters only cells
    within ⌊W/2⌋ of the executing instruction -/
theorem model_write_locality (s : Sim) (pc : UInt64) (wi : Nat) (q : PQ) (h : StepPre s pc wi q)
    (s' : Sim) (he : s.exec pc wi = .ok s') :
    ∀ a (h1 : a < s.mem.size) (h2 : a < s'.mem.size), s'.mem[a] ≠ s.mem[a] →
      Spec.circDist s.m.toNat a pc.toNat ≤ s.writeLimit.toNat / 2 := by
  obtain ⟨s'', q', he', hcore, _⟩ := exec_refines s pc wi q h
  rw [he] at he'
  cases he'
  intro a h1 h2 hne
  have hW := h.wf.wl
  have hpc : pc.toNat < s.m.toNat := UInt64.lt_iff_toNat_lt.mp h.pc
  apply Spec.write_locality s.m.toNat s.readLimit.toNat s.writeLimit.toNat s.absCore pc.toNat
    (by omega) h.wl hpc a
  rw [← hcore, Sim.absCore_at _ _ h2, Sim.absCore_at _ _ h1]
  intro hab
  exact hne (Instr.abs_injective hab)

/-- C11 on the model: every program counter queued by one executed task is PC+1, PC+2, or lies
    within ⌊R/2⌋ of the executing instruction -/
theorem model_read_locality (s : Sim) (pc : UInt64) (wi : Nat) (q : PQ) (h : StepPre s pc wi q)
    (s' : Sim) (he : s.exec pc wi = .ok s') :
    ∃ q', s'.pqOf wi = some q' ∧ ∀ x ∈ q'.toList, x ∈ q.toList ∨
      (x.toNat = (pc.toNat + 1) % s.m.toNat ∨ x.toNat = (pc.toNat + 2) % s.m.toNat ∨
        Spec.circDist s.m.toNat x.toNat pc.toNat ≤ s.readLimit.toNat / 2) := by
  obtain ⟨s'', q', he', _, hq', _, _, hlist, _⟩ := exec_refines s pc wi q h
  rw [he] at he'
  cases he'
  refine ⟨q', hq', ?_⟩
  intro x hx
  have hpc : pc.toNat < s.m.toNat := UInt64.lt_iff_toNat_lt.mp h.pc
  have hmem : x.toNat ∈ q'.toList.map (·.toNat) := List.mem_map.mpr ⟨x, hx, rfl⟩
  rw [hlist] at hmem
  rcases Spec.enqueue_mem _ _ _ _ hmem with hm | hm
  · left
    obtain ⟨y, hy, hxy⟩ := List.mem_map.mp hm
    have : y = x := UInt64.toNat_inj.mp hxy
    exact this ▸ hy
  · right
    have hR := h.wf.rl
    exact Spec.succ_near s.m.toNat s.readLimit.toNat s.writeLimit.toNat s.absCore pc.toNat
      (by omega) h.rl hpc _ hm

end Gmars
