/-
  C04, central theorem: executing one task never panics and preserves the
  simulator invariant (for all core sizes and all limits ≥ 1).
-/
import Gmars.Proofs.RefineStmt
import Gmars.Proofs.QueuePush

namespace Gmars

/-! ## A small Hoare-style vocabulary for `Except Panic` -/

/-- `x` returns normally with a value satisfying `P` -/
def Ok {α : Type} (x : Except Panic α) (P : α → Prop) : Prop := ∃ a, x = .ok a ∧ P a

theorem Ok.intro {α : Type} {P : α → Prop} {a : α} (h : P a) : Ok (.ok a) P := ⟨a, rfl, h⟩

theorem Ok.pure {α : Type} {P : α → Prop} {a : α} (h : P a) : Ok (Pure.pure a) P := ⟨a, rfl, h⟩

theorem Ok.bind {α β : Type} {x : Except Panic α} {f : α → Except Panic β}
    {P : α → Prop} {Q : β → Prop} (hx : Ok x P) (hf : ∀ a, P a → Ok (f a) Q) :
    Ok (x >>= f) Q := by
  obtain ⟨a, rfl, ha⟩ := hx
  exact hf a ha

theorem Ok.mono {α : Type} {x : Except Panic α} {P Q : α → Prop} (hx : Ok x P)
    (h : ∀ a, P a → Q a) : Ok x Q := by
  obtain ⟨a, rfl, ha⟩ := hx
  exact ⟨a, rfl, h a ha⟩

theorem Ok.ite {α : Type} {c : Prop} [Decidable c] {x y : Except Panic α} {P : α → Prop}
    (hx : c → Ok x P) (hy : ¬ c → Ok y P) : Ok (if c then x else y) P := by
  split
  · exact hx ‹_›
  · exact hy ‹_›

/-! ## The intermediate invariant -/

/-- `s` is a state reached from `s0` in the middle of executing a task of warrior `wi`
    whose queue was `q` at the start; at most `n` addresses have been pushed since. -/
structure Mid (s0 s : Sim) (wi : Nat) (q : PQ) (n : Nat) : Prop where
  frame  : Frame s0 s wi
  mpos   : 0 < s0.m.toNat
  msize  : s.mem.size = s0.m.toNat
  fields : ∀ i (h : i < s.mem.size), s.mem[i].a < s0.m ∧ s.mem[i].b < s0.m
  queue  : ∃ q', s.pqOf wi = some q' ∧ q'.Inv ∧ q'.size = q.size ∧ (∀ a ∈ q'.toList, a < s0.m) ∧
             q'.toList.length ≤ q.toList.length + n
  log    : ∃ new : List Report, s.log.toList = s0.log.toList ++ new ∧
             ∀ r ∈ new, r.addr < s0.m ∧ r.wi = Int.ofNat wi

theorem Frame.refl (s : Sim) (wi : Nat) : Frame s s wi where
  m := rfl
  maxProcs := rfl
  maxCycles := rfl
  readLimit := rfl
  writeLimit := rfl
  legacy := rfl
  size := rfl
  wsize := rfl
  others := fun _ _ => rfl
  same := fun w w' h h' => by
    rw [h] at h'; cases h'; exact ⟨rfl, rfl, rfl⟩
  widx := rfl
  count := rfl
  living := rfl
  cycle := rfl
  log := ⟨[], by simp⟩

theorem Sim.pqOf_warriorOK {s : Sim} {wi : Nat} {q : PQ} (hwf : s.WF) (hq : s.pqOf wi = some q) :
    q.Inv ∧ q.size = s.maxProcs ∧ (∀ a ∈ q.toList, a < s.m) := by
  unfold Sim.pqOf at hq
  cases hw : s.warriors[wi]? with
  | none => simp [hw] at hq
  | some w =>
    rw [hw] at hq
    simp only [Option.bind_some] at hq
    obtain ⟨hlt, hget⟩ := Array.getElem?_eq_some_iff.mp hw
    have h := (hwf.warriors wi hlt).2
    rw [hget, hq] at h
    exact ⟨h.1, h.2.1, h.2.2.1⟩

theorem Mid.refl {s : Sim} {wi : Nat} {q : PQ} (hwf : s.WF) (hq : s.pqOf wi = some q) :
    Mid s s wi q 0 where
  frame := Frame.refl s wi
  mpos := by have := hwf.m3; omega
  msize := hwf.size
  fields := hwf.fields
  queue := by
    obtain ⟨h1, _, h3⟩ := Sim.pqOf_warriorOK hwf hq
    exact ⟨q, hq, h1, rfl, h3, by omega⟩
  log := ⟨[], by simp⟩

theorem Mid.mono {s0 s : Sim} {wi : Nat} {q : PQ} {n n' : Nat} (h : Mid s0 s wi q n)
    (hn : n ≤ n') : Mid s0 s wi q n' := by
  refine ⟨h.frame, h.mpos, h.msize, h.fields, ?_, h.log⟩
  obtain ⟨q', h1, h2, h3, h4, h5⟩ := h.queue
  exact ⟨q', h1, h2, h3, h4, by omega⟩

theorem Mid.m_eq {s0 s : Sim} {wi : Nat} {q : PQ} {n : Nat} (h : Mid s0 s wi q n) : s.m = s0.m :=
  h.frame.m

theorem UInt64.mod_lt' (x m : UInt64) (h : 0 < m.toNat) : x % m < m := by
  rw [UInt64.lt_iff_toNat_lt, UInt64.toNat_mod]
  exact Nat.mod_lt _ h

theorem Mid.mod_lt {s0 s : Sim} {wi : Nat} {q : PQ} {n : Nat} (h : Mid s0 s wi q n) (x : UInt64) :
    x % s.m < s0.m := by
  rw [h.m_eq]; exact UInt64.mod_lt' _ _ h.mpos

theorem Mid.zero_lt {s0 s : Sim} {wi : Nat} {q : PQ} {n : Nat} (h : Mid s0 s wi q n) :
    (0 : UInt64) < s0.m := by
  rw [UInt64.lt_iff_toNat_lt]; exact h.mpos

/-! ## Building blocks -/

theorem Mid.rd {s0 s : Sim} {wi : Nat} {q : PQ} {n : Nat} (h : Mid s0 s wi q n) {i : UInt64}
    (hi : i < s0.m) : Ok (s.rd i) (fun c => c.a < s0.m ∧ c.b < s0.m) := by
  have hlt : i.toNat < s.mem.size := by
    rw [h.msize]; exact UInt64.lt_iff_toNat_lt.mp hi
  unfold Sim.rd
  rw [Array.getElem?_eq_getElem hlt]
  exact ⟨_, rfl, h.fields _ hlt⟩

theorem Mid.upd {s0 s : Sim} {wi : Nat} {q : PQ} {n : Nat} (h : Mid s0 s wi q n) {i : UInt64}
    (hi : i < s0.m) {f : Instr → Instr}
    (hf : ∀ c : Instr, c.a < s0.m → c.b < s0.m → (f c).a < s0.m ∧ (f c).b < s0.m) :
    Ok (s.upd i f) (fun s' => Mid s0 s' wi q n) := by
  have hlt : i.toNat < s.mem.size := by
    rw [h.msize]; exact UInt64.lt_iff_toNat_lt.mp hi
  unfold Sim.upd
  rw [dif_pos hlt]
  refine ⟨_, rfl, ?_⟩
  refine ⟨?_, h.mpos, ?_, ?_, h.queue, h.log⟩
  · have hf := h.frame
    exact ⟨hf.m, hf.maxProcs, hf.maxCycles, hf.readLimit, hf.writeLimit, hf.legacy,
      by simpa using hf.size, hf.wsize, hf.others, hf.same, hf.widx, hf.count, hf.living,
      hf.cycle, hf.log⟩
  · simpa using h.msize
  · intro j hj
    simp only [Array.size_set] at hj
    simp only [Array.getElem_set]
    split
    · exact hf _ (h.fields _ hlt).1 (h.fields _ hlt).2
    · exact h.fields j hj

theorem Mid.report {s0 s : Sim} {wi : Nat} {q : PQ} {n : Nat} (h : Mid s0 s wi q n) {r : Report}
    (ha : r.addr < s0.m) (hw : r.wi = Int.ofNat wi) : Mid s0 (s.report r) wi q n := by
  refine ⟨?_, h.mpos, h.msize, h.fields, h.queue, ?_⟩
  · have hf := h.frame
    refine ⟨hf.m, hf.maxProcs, hf.maxCycles, hf.readLimit, hf.writeLimit, hf.legacy,
      hf.size, hf.wsize, hf.others, hf.same, hf.widx, hf.count, hf.living,
      hf.cycle, ?_⟩
    obtain ⟨new, hnew⟩ := hf.log
    exact ⟨new ++ [r], by simp [Sim.report, hnew]⟩
  · obtain ⟨new, hnew, hall⟩ := h.log
    refine ⟨new ++ [r], by simp [Sim.report, hnew], ?_⟩
    intro r' hr'
    rcases List.mem_append.mp hr' with h1 | h1
    · exact hall r' h1
    · simp only [List.mem_singleton] at h1
      subst h1; exact ⟨ha, hw⟩

theorem Mid.addRep {s0 s : Sim} {wi : Nat} {q : PQ} {n : Nat} (h : Mid s0 s wi q n) (t : RType)
    {a : UInt64} (ha : a < s0.m) : Mid s0 (s.report (rep t wi a)) wi q n :=
  h.report ha rfl

theorem Sim.pqOf_eq_some {s : Sim} {wi : Nat} {q : PQ} (h : s.pqOf wi = some q) :
    ∃ hlt : wi < s.warriors.size, s.warriors[wi].pq = some q := by
  unfold Sim.pqOf at h
  cases hw : s.warriors[wi]? with
  | none => simp [hw] at h
  | some w =>
    rw [hw] at h
    simp only [Option.bind_some] at h
    obtain ⟨hlt, hget⟩ := Array.getElem?_eq_some_iff.mp hw
    exact ⟨hlt, by rw [hget, h]⟩

theorem Mid.push {s0 s : Sim} {wi : Nat} {q : PQ} {n : Nat} (h : Mid s0 s wi q n) {a : UInt64}
    (ha : a < s0.m) : Ok (s.push wi a) (fun s' => Mid s0 s' wi q (n + 1)) := by
  obtain ⟨q1, hq1, hinv, hsz, hent, hlen⟩ := h.queue
  obtain ⟨hlt, hpq⟩ := Sim.pqOf_eq_some hq1
  obtain ⟨q2, hpush, hinv2, hsz2, hl2⟩ := PQ.push_ok' q1 a hinv
  have hent2 := PQ.push_entries_lt' q1 q2 a s0.m hinv hpush hent ha
  unfold Sim.push
  rw [dif_pos hlt]
  simp only [hpq, hpush]
  refine ⟨_, rfl, ?_⟩
  refine ⟨?_, h.mpos, h.msize, h.fields, ?_, h.log⟩
  · have hf := h.frame
    refine ⟨hf.m, hf.maxProcs, hf.maxCycles, hf.readLimit, hf.writeLimit, hf.legacy,
      hf.size, by simpa using hf.wsize, ?_, ?_, hf.widx, hf.count, hf.living,
      hf.cycle, hf.log⟩
    · intro j hj
      rw [← hf.others j hj]
      simp only
      rw [Array.getElem?_set_ne hlt (Ne.symm hj)]
    · intro w w' hw hw'
      simp only [Array.getElem?_set_self] at hw'
      cases hw'
      have := hf.same w s.warriors[wi] hw (Array.getElem?_eq_getElem hlt)
      exact this
  · refine ⟨q2, ?_, hinv2, hsz2.trans hsz, hent2, ?_⟩
    · simp [Sim.pqOf]
    · rw [hl2]
      split
      · simp only [List.length_append, List.length_singleton]; omega
      · omega

theorem Mid.pushNext {s0 s : Sim} {wi : Nat} {q : PQ} {n : Nat} (h : Mid s0 s wi q n) {a : UInt64}
    (ha : a < s0.m) : Ok (s.pushNext wi a) (fun s' => Mid s0 s' wi q (n + 1)) := by
  unfold Sim.pushNext
  exact (h.addRep .taskPush ha).push ha

theorem Mid.terminate {s0 s : Sim} {wi : Nat} {q : PQ} {n : Nat} (h : Mid s0 s wi q n) {a : UInt64}
    (ha : a < s0.m) : Mid s0 (s.terminate wi a) wi q n :=
  h.addRep .taskTerminate ha

/-! ## field setters keep fields below `m` -/

section setters
variable {s0 s : Sim} {wi : Nat} {q : PQ} {n : Nat}

theorem Mid.decA_ok (h : Mid s0 s wi q n) (c : Instr) (_ : c.a < s0.m) (hb : c.b < s0.m) :
    (decA s.m c).a < s0.m ∧ (decA s.m c).b < s0.m := ⟨h.mod_lt _, hb⟩
theorem Mid.decB_ok (h : Mid s0 s wi q n) (c : Instr) (ha : c.a < s0.m) (_ : c.b < s0.m) :
    (decB s.m c).a < s0.m ∧ (decB s.m c).b < s0.m := ⟨ha, h.mod_lt _⟩
theorem Mid.incA_ok (h : Mid s0 s wi q n) (c : Instr) (_ : c.a < s0.m) (hb : c.b < s0.m) :
    (incA s.m c).a < s0.m ∧ (incA s.m c).b < s0.m := ⟨h.mod_lt _, hb⟩
theorem Mid.incB_ok (h : Mid s0 s wi q n) (c : Instr) (ha : c.a < s0.m) (_ : c.b < s0.m) :
    (incB s.m c).a < s0.m ∧ (incB s.m c).b < s0.m := ⟨ha, h.mod_lt _⟩

/-- `s.mem[i] = f(s.mem[i])` followed by a report about cell `i` -/
theorem Mid.updRep (h : Mid s0 s wi q n) {i : UInt64} (hi : i < s0.m) {f : Instr → Instr}
    (hf : ∀ c : Instr, c.a < s0.m → c.b < s0.m → (f c).a < s0.m ∧ (f c).b < s0.m) (t : RType) :
    Ok (do let s' ← s.upd i f; pure (s'.report (rep t wi i))) (fun s' => Mid s0 s' wi q n) :=
  Ok.bind (h.upd hi hf) (fun _ h1 => Ok.pure (h1.addRep t hi))

end setters

/-! ## operand evaluation -/

section operands
variable {s0 s : Sim} {wi : Nat} {q : PQ} {n : Nat}

theorem Mid.aOperand (h : Mid s0 s wi q n) (pc : UInt64) (ir : Instr) :
    Ok (s.aOperand pc ir wi) (fun r => Mid s0 r.1 wi q n ∧ r.2.2 < s0.m) := by
  unfold Sim.aOperand
  apply Ok.ite
  · intro _; exact Ok.intro ⟨h, h.zero_lt⟩
  · intro _
    dsimp only
    apply Ok.bind (P := fun r => Mid s0 r.1 wi q n ∧ r.2.2 < s0.m)
    · apply Ok.ite
      · intro _
        apply Ok.bind (P := fun s' => Mid s0 s' wi q n)
        · apply Ok.ite
          · intro _; exact h.updRep (h.mod_lt _) h.decA_ok _
          · intro _; exact Ok.pure h
        · intro s1 h1
          apply Ok.bind (h1.rd (h1.mod_lt _))
          intro c _
          refine Ok.pure ⟨h1, ?_⟩
          split
          · exact h1.mod_lt _
          · exact h1.zero_lt
      · intro _; exact Ok.pure ⟨h, h.zero_lt⟩
    · rintro ⟨s1, rpa, pip⟩ ⟨h1, hpip⟩
      dsimp only at h1 hpip ⊢
      apply Ok.ite
      · intro _
        apply Ok.bind (P := fun s' => Mid s0 s' wi q n)
        · apply Ok.ite
          · intro _; exact h1.updRep (h1.mod_lt _) h1.decB_ok _
          · intro _; exact Ok.pure h1
        · intro s2 h2
          apply Ok.bind (h2.rd (h2.mod_lt _))
          intro c _
          refine Ok.pure ⟨h2, ?_⟩
          split
          · exact h2.mod_lt _
          · exact hpip
      · intro _; exact Ok.pure ⟨h1, hpip⟩

theorem Mid.aPost (h : Mid s0 s wi q n) (ir : Instr) {pip : UInt64} (hpip : pip < s0.m) :
    Ok (s.aPost ir pip wi) (fun s' => Mid s0 s' wi q n) := by
  unfold Sim.aPost
  apply Ok.bind (P := fun s' => Mid s0 s' wi q n)
  · apply Ok.ite
    · intro _; exact h.updRep hpip h.incA_ok _
    · intro _; exact Ok.pure h
  · intro s1 h1
    apply Ok.ite
    · intro _; exact h1.updRep hpip h1.incB_ok _
    · intro _; exact Ok.pure h1

theorem Mid.bOperand (h : Mid s0 s wi q n) (pc : UInt64) (ir : Instr) {pip0 : UInt64}
    (hpip0 : pip0 < s0.m) :
    Ok (s.bOperand pc ir wi pip0) (fun r => Mid s0 r.1 wi q n ∧ r.2.2.2 < s0.m) := by
  unfold Sim.bOperand
  apply Ok.ite
  · intro _; exact Ok.intro ⟨h, hpip0⟩
  · intro _
    dsimp only
    apply Ok.bind (P := fun r => Mid s0 r.1 wi q n ∧ r.2.2.2 < s0.m)
    · apply Ok.ite
      · intro _
        apply Ok.bind (P := fun s' => Mid s0 s' wi q n)
        · apply Ok.ite
          · intro _; exact h.updRep (h.mod_lt _) h.decA_ok _
          · intro _; exact Ok.pure h
        · intro s1 h1
          apply Ok.bind (h1.rd (h1.mod_lt _))
          intro c _
          apply Ok.bind (h1.rd (h1.mod_lt _))
          intro d _
          refine Ok.pure ⟨h1, ?_⟩
          split
          · exact h1.mod_lt _
          · exact hpip0
      · intro _; exact Ok.pure ⟨h, hpip0⟩
    · rintro ⟨s1, rpb, wpb, pip⟩ ⟨h1, hpip⟩
      dsimp only at h1 hpip ⊢
      apply Ok.ite
      · intro _
        apply Ok.bind (P := fun s' => Mid s0 s' wi q n)
        · apply Ok.ite
          · intro _; exact h1.updRep (h1.mod_lt _) h1.decB_ok _
          · intro _; exact Ok.pure h1
        · intro s2 h2
          apply Ok.bind (h2.rd (h2.mod_lt _))
          intro c _
          apply Ok.bind (h2.rd (h2.mod_lt _))
          intro d _
          refine Ok.pure ⟨h2, ?_⟩
          split
          · exact h2.mod_lt _
          · exact hpip
      · intro _; exact Ok.pure ⟨h1, hpip⟩

theorem Mid.bPost (h : Mid s0 s wi q n) (ir : Instr) {pip : UInt64} (hpip : pip < s0.m) :
    Ok (s.bPost ir pip wi) (fun s' => Mid s0 s' wi q n) := by
  unfold Sim.bPost
  apply Ok.ite
  · intro _; exact h.updRep hpip h.incA_ok _
  · intro _
    apply Ok.ite
    · intro _; exact h.updRep hpip h.incB_ok _
    · intro _; exact Ok.pure h

end operands

/-! ## simops.go -/

section ops
variable {s0 s : Sim} {wi : Nat} {q : PQ} {n : Nat}

theorem Mid.mov (h : Mid s0 s wi q n) (ir : Instr) {ira : Instr}
    (hira : ira.a < s0.m ∧ ira.b < s0.m) {wab : UInt64} (hw : wab < s0.m) (pc : UInt64) :
    Ok (s.mov ir ira wab pc wi) (fun s' => Mid s0 s' wi q (n + 1)) := by
  unfold Sim.mov
  apply Ok.bind (P := fun s' => Mid s0 s' wi q n)
  · split
    · exact h.upd hw (fun c _ hb => ⟨hira.1, hb⟩)
    · exact h.upd hw (fun c ha _ => ⟨ha, hira.2⟩)
    · exact h.upd hw (fun c ha _ => ⟨ha, hira.1⟩)
    · exact h.upd hw (fun c _ hb => ⟨hira.2, hb⟩)
    · exact Ok.bind (h.upd hw (fun c _ hb => ⟨hira.1, hb⟩))
        (fun _ h1 => h1.upd hw (fun c ha _ => ⟨ha, hira.2⟩))
    · exact Ok.bind (h.upd hw (fun c ha _ => ⟨ha, hira.1⟩))
        (fun _ h1 => h1.upd hw (fun c _ hb => ⟨hira.2, hb⟩))
    · exact h.upd hw (fun _ _ _ => hira)
  · intro s1 h1
    exact h1.pushNext (h1.mod_lt _)

theorem Mid.arith (h : Mid s0 s wi q n) {g : UInt64 → UInt64 → UInt64}
    (hg : ∀ x y, g x y < s0.m) (ir ira irb : Instr) {wab : UInt64} (hw : wab < s0.m)
    (pc : UInt64) :
    Ok (s.arith g ir ira irb wab pc wi) (fun s' => Mid s0 s' wi q (n + 1)) := by
  unfold Sim.arith
  apply Ok.bind (P := fun s' => Mid s0 s' wi q n)
  · split
    · exact h.upd hw (fun c _ hb => ⟨hg _ _, hb⟩)
    · exact h.upd hw (fun c ha _ => ⟨ha, hg _ _⟩)
    · exact h.upd hw (fun c ha _ => ⟨ha, hg _ _⟩)
    · exact h.upd hw (fun c _ hb => ⟨hg _ _, hb⟩)
    · exact Ok.bind (h.upd hw (fun c _ hb => ⟨hg _ _, hb⟩))
        (fun _ h1 => h1.upd hw (fun c ha _ => ⟨ha, hg _ _⟩))
    · exact Ok.bind (h.upd hw (fun c _ hb => ⟨hg _ _, hb⟩))
        (fun _ h1 => h1.upd hw (fun c ha _ => ⟨ha, hg _ _⟩))
    · exact Ok.bind (h.upd hw (fun c _ hb => ⟨hg _ _, hb⟩))
        (fun _ h1 => h1.upd hw (fun c ha _ => ⟨ha, hg _ _⟩))
  · intro s1 h1
    exact h1.pushNext (h1.mod_lt _)

theorem Mid.addF_lt (h : Mid s0 s wi q n) (x y : UInt64) : s.addF x y < s0.m := h.mod_lt _
theorem Mid.subF_lt (h : Mid s0 s wi q n) (x y : UInt64) : s.subF x y < s0.m := h.mod_lt _
theorem Mid.mulF_lt (h : Mid s0 s wi q n) (x y : UInt64) : s.mulF x y < s0.m := h.mod_lt _

end ops

theorem UInt64.div_lt_of_lt {x y m : UInt64} (h : x < m) : x / y < m := by
  rw [UInt64.lt_iff_toNat_lt] at *
  rw [UInt64.toNat_div]
  exact Nat.lt_of_le_of_lt (Nat.div_le_self _ _) h

theorem UInt64.mod_lt_of_lt {x y m : UInt64} (h : x < m) : x % y < m := by
  rw [UInt64.lt_iff_toNat_lt] at *
  rw [UInt64.toNat_mod]
  exact Nat.lt_of_le_of_lt (Nat.mod_le _ _) h

theorem UInt64.ite_lt {c : Prop} [Decidable c] {x y m : UInt64} (hx : x < m) (hy : y < m) :
    (if c then x else y) < m := by
  split
  · exact hx
  · exact hy

section ops2
variable {s0 s : Sim} {wi : Nat} {q : PQ} {n : Nat}

/-- the `if y != 0 then upd … else pure s` step of `divmod` -/
theorem Mid.updIf (h : Mid s0 s wi q n) (c : Prop) [Decidable c] {i : UInt64} (hi : i < s0.m)
    {f : Instr → Instr}
    (hf : ∀ c : Instr, c.a < s0.m → c.b < s0.m → (f c).a < s0.m ∧ (f c).b < s0.m) :
    Ok (if c then s.upd i f else pure s) (fun s' => Mid s0 s' wi q n) :=
  Ok.ite (fun _ => h.upd hi hf) (fun _ => Ok.pure h)

theorem Mid.termOrNext (h : Mid s0 s wi q n) (c : Prop) [Decidable c] {pc : UInt64}
    (hpc : pc < s0.m) :
    Ok (if c then pure (s.terminate wi pc) else s.pushNext wi ((pc + 1) % s.m))
      (fun s' => Mid s0 s' wi q (n + 1)) :=
  Ok.ite (fun _ => Ok.pure ((h.terminate hpc).mono (Nat.le_succ n)))
    (fun _ => h.pushNext (h.mod_lt _))

theorem Mid.updNext (h : Mid s0 s wi q n) {i : UInt64} (hi : i < s0.m) {f : Instr → Instr}
    (hf : ∀ c : Instr, c.a < s0.m → c.b < s0.m → (f c).a < s0.m ∧ (f c).b < s0.m)
    (pc : UInt64) :
    Ok (do let s ← s.upd i f; s.pushNext wi ((pc + 1) % s.m))
      (fun s' => Mid s0 s' wi q (n + 1)) :=
  Ok.bind (h.upd hi hf) (fun _ h1 => h1.pushNext (h1.mod_lt _))

theorem Mid.divmod (h : Mid s0 s wi q n) {g : UInt64 → UInt64 → UInt64}
    (hg : ∀ x y, x < s0.m → g x y < s0.m) (ir ira : Instr) {irb : Instr}
    (hirb : irb.a < s0.m ∧ irb.b < s0.m) {wab : UInt64} (hw : wab < s0.m)
    {pc : UInt64} (hpc : pc < s0.m) :
    Ok (s.divmod g ir ira irb wab pc wi) (fun s' => Mid s0 s' wi q (n + 1)) := by
  have hT : Mid s0 (s.terminate wi pc) wi q (n + 1) := (h.terminate hpc).mono (Nat.le_succ n)
  have fa : ∀ y, ∀ c : Instr, c.a < s0.m → c.b < s0.m →
      ({ c with a := g irb.a y } : Instr).a < s0.m ∧ ({ c with a := g irb.a y } : Instr).b < s0.m :=
    fun y c _ hb => ⟨hg _ _ hirb.1, hb⟩
  have fb : ∀ y, ∀ c : Instr, c.a < s0.m → c.b < s0.m →
      ({ c with b := g irb.b y } : Instr).a < s0.m ∧ ({ c with b := g irb.b y } : Instr).b < s0.m :=
    fun y c ha _ => ⟨ha, hg _ _ hirb.2⟩
  unfold Sim.divmod
  dsimp only
  split
  · exact Ok.ite (fun _ => h.updNext hw (fa _) pc) (fun _ => Ok.pure hT)
  · exact Ok.ite (fun _ => h.updNext hw (fb _) pc) (fun _ => Ok.pure hT)
  · exact Ok.ite (fun _ => h.updNext hw (fb _) pc) (fun _ => Ok.pure hT)
  · exact Ok.ite (fun _ => h.updNext hw (fa _) pc) (fun _ => Ok.pure hT)
  · exact Ok.bind (h.updIf _ hw (fa _)) (fun _ h1 =>
      Ok.bind (h1.updIf _ hw (fb _)) (fun _ h2 => h2.termOrNext _ hpc))
  · exact Ok.bind (h.updIf _ hw (fa _)) (fun _ h1 =>
      Ok.bind (h1.updIf _ hw (fb _)) (fun _ h2 => h2.termOrNext _ hpc))
  · exact Ok.bind (h.updIf _ hw (fb _)) (fun _ h1 =>
      Ok.bind (h1.updIf _ hw (fa _)) (fun _ h2 => h2.termOrNext _ hpc))

theorem Mid.jmz (h : Mid s0 s wi q n) (ir irb : Instr) {rab : UInt64} (hr : rab < s0.m)
    (pc : UInt64) : Ok (s.jmz ir irb rab pc wi) (fun s' => Mid s0 s' wi q (n + 1)) := by
  unfold Sim.jmz
  dsimp only
  exact Ok.ite (fun _ => h.push hr) (fun _ => h.push (h.mod_lt _))

theorem Mid.jmn (h : Mid s0 s wi q n) (ir irb : Instr) {rab : UInt64} (hr : rab < s0.m)
    (pc : UInt64) : Ok (s.jmn ir irb rab pc wi) (fun s' => Mid s0 s' wi q (n + 1)) := by
  unfold Sim.jmn
  dsimp only
  exact h.pushNext (UInt64.ite_lt hr (h.mod_lt _))

theorem Mid.djn (h : Mid s0 s wi q n) (ir irb : Instr) {rab wab : UInt64} (hr : rab < s0.m)
    (hw : wab < s0.m) (pc : UInt64) :
    Ok (s.djn ir irb rab wab pc wi) (fun s' => Mid s0 s' wi q (n + 1)) := by
  unfold Sim.djn
  apply Ok.bind (P := fun r => Mid s0 r.1 wi q n)
  · split
    · exact Ok.bind (h.upd hw h.decA_ok) (fun _ h1 => Ok.pure h1)
    · exact Ok.bind (h.upd hw h.decA_ok) (fun _ h1 => Ok.pure h1)
    · exact Ok.bind (h.upd hw h.decB_ok) (fun _ h1 => Ok.pure h1)
    · exact Ok.bind (h.upd hw h.decB_ok) (fun _ h1 => Ok.pure h1)
    · exact Ok.bind (h.upd hw h.decA_ok) (fun _ h1 =>
        Ok.bind (h1.upd hw h1.decB_ok) (fun _ h2 => Ok.pure h2))
    · exact Ok.bind (h.upd hw h.decA_ok) (fun _ h1 =>
        Ok.bind (h1.upd hw h1.decB_ok) (fun _ h2 => Ok.pure h2))
    · exact Ok.bind (h.upd hw h.decA_ok) (fun _ h1 =>
        Ok.bind (h1.upd hw h1.decB_ok) (fun _ h2 => Ok.pure h2))
  · rintro ⟨s1, nz⟩ h1
    dsimp only at h1 ⊢
    exact h1.pushNext (UInt64.ite_lt hr (h1.mod_lt _))

theorem Mid.skipIf (h : Mid s0 s wi q n) (c : Bool) (pc : UInt64) :
    Ok (s.skipIf c pc wi) (fun s' => Mid s0 s' wi q (n + 1)) := by
  unfold Sim.skipIf
  exact h.pushNext (UInt64.ite_lt (h.mod_lt _) (h.mod_lt _))

theorem Mid.reads (h : Mid s0 s wi q n) (pc rpa rpb : UInt64) :
    Mid s0 (s.reads pc rpa rpb wi) wi q n := by
  unfold Sim.reads
  exact (h.addRep .read (h.mod_lt _)).addRep .read (h.mod_lt _)

end ops2

/-! ## exec -/

theorem Sim.WF.guard_false {s : Sim} (hwf : s.WF) :
    (s.m == 0 || s.readLimit == 0 || s.writeLimit == 0) = false := by
  have h1 : s.m ≠ 0 := by
    intro h0; have := hwf.m3; rw [h0] at this; simp at this
  have h2 : s.readLimit ≠ 0 := by
    intro h0; have := hwf.rl; rw [h0] at this; simp at this
  have h3 : s.writeLimit ≠ 0 := by
    intro h0; have := hwf.wl; rw [h0] at this; simp at this
  simp [h1, h2, h3]

/-- the instruction dispatch at the end of `exec` -/
theorem Mid.dispatch {s0 s : Sim} {wi : Nat} {q : PQ} (h : Mid s0 s wi q 0)
    (ir : Instr) {ira irb : Instr} (hira : ira.a < s0.m ∧ ira.b < s0.m)
    (hirb : irb.a < s0.m ∧ irb.b < s0.m) {pc : UInt64} (hpc : pc < s0.m)
    (rpa rpb wpb : UInt64) :
    Ok (match ir.op with
        | .dat => pure (s.terminate wi pc)
        | .mov => do let s' ← s.mov ir ira ((pc + wpb) % s.m) pc wi
                     pure (s'.report (rep .write wi ((pc + wpb) % s.m)))
        | .add => do let s' ← s.arith s.addF ir ira irb ((pc + wpb) % s.m) pc wi
                     pure (s'.report (rep .write wi ((pc + wpb) % s.m)))
        | .sub => do let s' ← s.arith s.subF ir ira irb ((pc + wpb) % s.m) pc wi
                     pure (s'.report (rep .write wi ((pc + wpb) % s.m)))
        | .mul => do let s' ← s.arith s.mulF ir ira irb ((pc + wpb) % s.m) pc wi
                     pure (s'.report (rep .write wi ((pc + wpb) % s.m)))
        | .div => do let s' ← s.divmod (· / ·) ir ira irb ((pc + wpb) % s.m) pc wi
                     pure (s'.report (rep .write wi ((pc + wpb) % s.m)))
        | .mod => do let s' ← s.divmod (· % ·) ir ira irb ((pc + wpb) % s.m) pc wi
                     pure (s'.report (rep .write wi ((pc + wpb) % s.m)))
        | .jmp => s.push wi ((pc + rpa) % s.m)
        | .jmz => s.jmz ir irb ((pc + rpa) % s.m) pc wi
        | .jmn => s.jmn ir irb ((pc + rpa) % s.m) pc wi
        | .djn => do let s' ← s.djn ir irb ((pc + rpa) % s.m) ((pc + wpb) % s.m) pc wi
                     pure (s'.report (rep .decrement wi ((pc + wpb) % s.m)))
        | .cmp | .seq => do
            let s' ← s.skipIf (cmpCond ir ira irb) pc wi; pure (s'.reads pc rpa rpb wi)
        | .slt => do
            let s' ← s.skipIf (sltCond ir ira irb) pc wi; pure (s'.reads pc rpa rpb wi)
        | .sne => do
            let s' ← s.skipIf (sneCond ir ira irb) pc wi; pure (s'.reads pc rpa rpb wi)
        | .spl => do let s' ← s.push wi ((pc + 1) % s.m); s'.push wi ((pc + rpa) % s.m)
        | .nop => s.push wi ((pc + 1) % s.m))
      (fun s' => Mid s0 s' wi q 2) := by
  have hw : (pc + wpb) % s.m < s0.m := h.mod_lt _
  have hr : (pc + rpa) % s.m < s0.m := h.mod_lt _
  have wr : ∀ {x : Except Panic Sim}, Ok x (fun s' => Mid s0 s' wi q 1) →
      Ok (do let s' ← x; pure (s'.report (rep .write wi ((pc + wpb) % s.m))))
        (fun s' => Mid s0 s' wi q 2) :=
    fun hx => Ok.bind hx (fun _ h1 => Ok.pure ((h1.addRep .write hw).mono (by omega)))
  have rds : ∀ {x : Except Panic Sim}, Ok x (fun s' => Mid s0 s' wi q 1) →
      Ok (do let s' ← x; pure (s'.reads pc rpa rpb wi))
        (fun s' => Mid s0 s' wi q 2) :=
    fun hx => Ok.bind hx (fun _ h1 => Ok.pure ((h1.reads pc rpa rpb).mono (by omega)))
  have up : ∀ {x : Except Panic Sim}, Ok x (fun s' => Mid s0 s' wi q 1) →
      Ok x (fun s' => Mid s0 s' wi q 2) :=
    fun hx => hx.mono (fun _ h1 => h1.mono (by omega))
  split
  · exact Ok.pure ((h.terminate hpc).mono (by omega))
  · exact wr (h.mov ir hira hw pc)
  · exact wr (h.arith h.addF_lt ir ira irb hw pc)
  · exact wr (h.arith h.subF_lt ir ira irb hw pc)
  · exact wr (h.arith h.mulF_lt ir ira irb hw pc)
  · exact wr (h.divmod (fun _ _ hx => UInt64.div_lt_of_lt hx) ir ira hirb hw hpc)
  · exact wr (h.divmod (fun _ _ hx => UInt64.mod_lt_of_lt hx) ir ira hirb hw hpc)
  · exact up (h.push hr)
  · exact up (h.jmz ir irb hr pc)
  · exact up (h.jmn ir irb hr pc)
  · exact Ok.bind (h.djn ir irb hr hw pc)
      (fun _ h1 => Ok.pure ((h1.addRep .decrement hw).mono (by omega)))
  · exact rds (h.skipIf _ pc)
  · exact rds (h.skipIf _ pc)
  · exact rds (h.skipIf _ pc)
  · exact rds (h.skipIf _ pc)
  · exact Ok.bind (h.push (h.mod_lt _)) (fun _ h1 => h1.push hr)
  · exact up (h.push (h.mod_lt _))

theorem exec_mid (s : Sim) (pc : UInt64) (wi : Nat) (q : PQ) (hwf : s.WF) (hpc : pc < s.m)
    (hq : s.pqOf wi = some q) : Ok (s.exec pc wi) (fun s' => Mid s s' wi q 2) := by
  have h := Mid.refl hwf hq
  unfold Sim.exec
  dsimp only
  rw [hwf.guard_false]
  simp only [Bool.false_eq_true, if_false]
  apply Ok.bind (h.rd hpc); intro ir _
  apply Ok.bind (h.aOperand pc ir); rintro ⟨s1, rpa, pip⟩ ⟨h1, hpip⟩
  dsimp only at h1 hpip ⊢
  apply Ok.bind (h1.rd (h1.mod_lt _)); intro ira hira
  apply Ok.bind (h1.aPost ir hpip); intro s2 h2
  apply Ok.bind (h2.bOperand pc ir hpip); rintro ⟨s3, rpb, wpb, pip2⟩ ⟨h3, hpip2⟩
  dsimp only at h3 hpip2 ⊢
  apply Ok.bind (h3.rd (h3.mod_lt _)); intro irb hirb
  apply Ok.bind (h3.bPost ir hpip2); intro s4 h4
  exact h4.dispatch ir hira hirb hpc rpa rpb wpb

/-- C04, one task: `exec` never panics on a well-formed state and re-establishes every
    part of the invariant it can touch. -/
theorem exec_wf (s : Sim) (pc : UInt64) (wi : Nat) (q : PQ) (hwf : s.WF) (hpc : pc < s.m)
    (hq : s.pqOf wi = some q) :
    ∃ s' q', s.exec pc wi = .ok s' ∧ Frame s s' wi ∧ s'.FieldsOK ∧
      s'.pqOf wi = some q' ∧ q'.Inv ∧ q'.size = q.size ∧ (∀ a ∈ q'.toList, a < s.m) ∧
      q'.toList.length ≤ q.toList.length + 2 ∧
      (∀ r, r ∈ s'.log.toList.drop s.log.size → r.addr < s.m ∧ r.wi = Int.ofNat wi) := by
  obtain ⟨s', hex, h⟩ := exec_mid s pc wi q hwf hpc hq
  obtain ⟨q', h1, h2, h3, h4, h5⟩ := h.queue
  refine ⟨s', q', hex, h.frame, ?_, h1, h2, h3, h4, h5, ?_⟩
  · intro i hi
    rw [h.m_eq]
    exact h.fields i hi
  · obtain ⟨new, hnew, hall⟩ := h.log
    intro r hr
    rw [hnew, ← Array.length_toList, List.drop_left] at hr
    exact hall r hr

theorem exec_no_panic (s : Sim) (pc : UInt64) (wi : Nat) (q : PQ) (hwf : s.WF) (hpc : pc < s.m)
    (hq : s.pqOf wi = some q) : ∃ s', s.exec pc wi = .ok s' := by
  obtain ⟨s', _, h, _⟩ := exec_wf s pc wi q hwf hpc hq
  exact ⟨s', h⟩


end Gmars
