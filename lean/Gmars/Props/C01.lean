/-
  C01 — every instruction step follows ICWS'94 semantics (property theorems).
-/
import Gmars.Proofs.Fold

namespace Gmars.Props.C01
open Gmars Gmars.Spec

/-- read/write-limit folding of every pointer: model = reference (limits 1..M) -/
theorem fold_refines (s : Sim) (p : UInt64)
    (hR : 0 < s.readLimit.toNat ∧ s.readLimit.toNat ≤ s.m.toNat)
    (hW : 0 < s.writeLimit.toNat ∧ s.writeLimit.toNat ≤ s.m.toNat) :
    (s.readFold p).toNat = fold p.toNat s.readLimit.toNat s.m.toNat ∧
    (s.writeFold p).toNat = fold p.toNat s.writeLimit.toNat s.m.toNat :=
  ⟨foldU_toNat _ _ _ hR.1 hR.2, foldU_toNat _ _ _ hW.1 hW.2⟩

end Gmars.Props.C01
