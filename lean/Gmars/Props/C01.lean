/-
  C01 — every instruction step follows ICWS'94 semantics, including read/write limits
  (property theorems; helper lemmas live in Gmars/Proofs/Refine*.lean).
-/
import Gmars.Proofs.Refine

namespace Gmars.Props.C01
open Gmars Gmars.Spec

/-- read/write-limit folding of every pointer: model = reference (limits 1..M, any core size) -/
theorem fold_refines (s : Sim) (p : UInt64)
    (hR : 0 < s.readLimit.toNat ∧ s.readLimit.toNat ≤ s.m.toNat)
    (hW : 0 < s.writeLimit.toNat ∧ s.writeLimit.toNat ≤ s.m.toNat) :
    (s.readFold p).toNat = fold p.toNat s.readLimit.toNat s.m.toNat ∧
    (s.writeFold p).toNat = fold p.toNat s.writeLimit.toNat s.m.toNat :=
  ⟨foldU_toNat _ _ _ hR.1 hR.2, foldU_toNat _ _ _ hW.1 hW.2⟩

/-- `step_refines` — THE theorem of C01. In every state satisfying the simulator invariant, with
    core size 3 ≤ M ≤ 2^32 and read/write limits 1 ≤ R, W ≤ M (`StepPre`), for every program
    counter, every core content (all 17×7×8×8 instruction forms, all field values) and every
    process limit: executing one task in the model of sim.go/simops.go/queue.go never panics,
    and changes the core exactly as one step of the ICWS'94 reference interpreter `Spec.step`
    prescribes (cell for cell), and the executing warrior's process queue exactly as the
    reference's bounded FIFO `Spec.enqueue` does (element for element); everything else
    (other warriors, counters, configuration) is untouched. -/
theorem step_refines (s : Sim) (pc : UInt64) (wi : Nat) (q : PQ) (h : StepPre s pc wi q) :
    ∃ s' q', s.exec pc wi = .ok s' ∧
      s'.absCore = (step s.m.toNat s.readLimit.toNat s.writeLimit.toNat s.absCore pc.toNat).core ∧
      s'.pqOf wi = some q' ∧ q'.Inv ∧ q'.size = q.size ∧
      q'.toList.map (·.toNat) =
        enqueue q.size.toNat (q.toList.map (·.toNat))
          (step s.m.toNat s.readLimit.toNat s.writeLimit.toNat s.absCore pc.toNat).succ ∧
      Frame s s' wi ∧ s'.FieldsOK :=
  exec_refines s pc wi q h

/-- the bound M ≤ 2^32 of `step_refines` is tight: one cell above it the uint64 product of `mul`
    wraps before the reduction (x = y = 2^32 < M = 2^32 + 1: Go computes 0, arithmetic modulo M
    gives 1) -/
theorem mul_wraps_above_2_32 :
    let s : Sim := { m := 4294967297, maxProcs := 1, maxCycles := 1, readLimit := 1, writeLimit := 1,
                     mem := #[], legacy := false }
    (4294967296 : UInt64) < s.m ∧ (s.mulF 4294967296 4294967296).toNat = 0 ∧
    (4294967296 * 4294967296) % s.m.toNat = 1 := by
  decide

/-
  Bound. `StepPre` requires M ≤ 2^32. Above that the Go expression `(IRB.A * IRA.A) % s.m`
  of `mul` wraps in uint64 before the reduction, so MUL differs from the reference; such a
  core needs more than 160 GB and cannot be built through the public API in this sandbox
  (DESIGN.md F18). Every other opcode is wrap-free up to M ≤ 2^63.
-/

end Gmars.Props.C01
