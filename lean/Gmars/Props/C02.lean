/-
  C02 — battles are scheduled and decided by the standard rules (property theorems).
-/
import Gmars.Proofs.Queue
import Gmars.Proofs.Sched

namespace Gmars.Props.C02
open Gmars Gmars.Spec

/-- new tasks go to the back; a warrior never holds more tasks than the process limit
    (or than it already held) -/
theorem enqueue_bounded (P : Nat) (q succ : List Nat) :
    (enqueue P q succ).length ≤ max q.length P := by
  unfold enqueue
  induction succ generalizing q with
  | nil => simp; omega
  | cons a as ih =>
    simp only [List.foldl_cons]
    split
    · have := ih (q ++ [a]); simp at this ⊢; omega
    · exact ih q

/-- a split queues the fall-through task before the new one, and the new one is dropped
    exactly when the warrior already holds the process limit -/
theorem split_order (P : Nat) (q : List Nat) (nxt jt : Nat) :
    enqueue P q [nxt, jt] =
      if q.length + 1 < P then q ++ [nxt, jt]
      else if q.length < P then q ++ [nxt] else q := by
  unfold enqueue
  simp only [List.foldl_cons, List.foldl_nil]
  by_cases h1 : q.length < P
  · by_cases h2 : q.length + 1 < P <;> simp [h1, h2]
  · have : ¬ q.length + 1 < P := by omega
    simp [h1, this]

/-- `queue_refines` (push): the ring buffer of queue.go behaves as a bounded FIFO list — pushing
    never panics, appends at the back, and drops the new task exactly when the queue is full -/
theorem queue_push_refines (q : PQ) (a : UInt64) (h : q.Inv) :
    ∃ q', q.push a = .ok q' ∧ q'.Inv ∧ q'.size = q.size ∧
      q'.toList = (if q.toList.length < q.size.toNat then q.toList ++ [a] else q.toList) :=
  PQ.push_ok q a h

/-- `queue_refines` (pop): tasks are taken from the front, in first-in-first-out order -/
theorem queue_pop_refines (q : PQ) (h : q.Inv) :
    ∃ q', q.pop = .ok (q.toList.head?, q') ∧ q'.Inv ∧ q'.size = q.size ∧ q'.toList = q.toList.tail :=
  PQ.pop_ok q h

/-- a fresh queue is empty and well formed for every process limit ≥ 1 -/
theorem queue_new (size : UInt64) (h : 0 < size.toNat) :
    (PQ.new size).Inv ∧ (PQ.new size).toList = [] ∧ (PQ.new size).size = size :=
  PQ.new_inv size h

/-- `Warrior.Queue()` returns the FIFO contents (process limits up to 2^63) -/
theorem queue_values_refines (q : PQ) (h : q.Inv) (hs : q.size.toNat ≤ 2 ^ 63) : q.values = .ok q.toList :=
  PQ.values_ok_of_size_le q h hs

/-- the bound of `queue_values_refines` is tight: above 2^63 slots the index arithmetic of
    `Values()` wraps (not reachable: such a queue needs 64 EiB) -/
theorem queue_values_wraps_above_2_63 :
    PQ.wrapExample.Inv ∧ 2 ^ 63 < PQ.wrapExample.size.toNat ∧
    PQ.wrapExample.values ≠ .ok PQ.wrapExample.toList :=
  ⟨PQ.values_wraps_above_2_63.1, PQ.values_wraps_above_2_63.2.1, PQ.values_wraps_above_2_63.2.2.2.2⟩

/-- `runCycle_refines` — one `RunCycle` of the model of sim.go is one cycle of the reference
    scheduler `Spec.Api.cycle`: every living warrior, in loading order, executes exactly one task
    taken from the front of its own FIFO queue (through `Spec.step`), a warrior dies exactly when its
    queue becomes empty, the cycle stops early when a single survivor remains among several, the
    completed-cycle count and the returned living count agree — for every state satisfying the
    invariant (M ≤ 2^32, limits ≤ M) and every reference state related to it by `Rel` (same
    configuration, core, counters, warrior states and queues). -/
theorem runCycle_refines {s : Sim} {a : Api} (hwf : s.WF) (hm : s.m.toNat ≤ 2 ^ 32)
    (hr : s.readLimit.toNat ≤ s.m.toNat) (hw : s.writeLimit.toNat ≤ s.m.toNat) (hrel : Rel s a) :
    ∃ s' n, s.runCycle = .ok (s', n) ∧ Rel s' a.cycle.1 ∧ n = Int.ofNat a.cycle.2.2 ∧ s'.WF :=
  Gmars.runCycle_refines hwf hm hr hw hrel

/-- the `WarriorTaskPop` reports of a cycle list exactly the (warrior, pc) pairs the reference
    scheduler executes, in the same order -/
theorem runCycle_trace {s : Sim} {a : Api} (hwf : s.WF) (hm : s.m.toNat ≤ 2 ^ 32)
    (hr : s.readLimit.toNat ≤ s.m.toNat) (hw : s.writeLimit.toNat ≤ s.m.toNat) (hrel : Rel s a) :
    ∃ s' n new, s.runCycle = .ok (s', n) ∧ s'.log.toList = s.log.toList ++ new ∧
      pops new = execs a.cycle.2.1 :=
  Gmars.runCycle_trace hwf hm hr hw hrel

/-- `run_result` — `Run()` always returns, ends in the final state of the reference battle
    (iterated reference cycles until a lone warrior died, a single survivor remains among several,
    or the cycle limit is reached) and reports exactly its survivors -/
theorem run_refines {s : Sim} {a : Api} (hwf : s.WF) (hm : s.m.toNat ≤ 2 ^ 32)
    (hr : s.readLimit.toNat ≤ s.m.toNat) (hw : s.writeLimit.toNat ≤ s.m.toNat) (hrel : Rel s a) :
    ∃ s', s.runLoop (s.maxCycles.toNat + 2) = .ok (s', true) ∧ Rel s' (a.run (a.C + 2)).1 ∧
      s'.results = (a.run (a.C + 2)).1.ws.map (fun w => w.st == .alive) :=
  Gmars.run_refines hwf hm hr hw hrel

/-- `run_eq_iterate` — one run-to-completion call is the cycle-by-cycle loop -/
theorem run_eq_iterate {s : Sim} {a : Api} (hwf : s.WF) (hm : s.m.toNat ≤ 2 ^ 32)
    (hr : s.readLimit.toNat ≤ s.m.toNat) (hw : s.writeLimit.toNat ≤ s.m.toNat) (hrel : Rel s a) :
    s.runLoop (s.maxCycles.toNat + 2) = s.iterCycles (s.maxCycles.toNat + 2) :=
  Gmars.run_eq_iterate hwf hm hr hw hrel

example : enqueue 3 [7] [8, 9] = [7, 8, 9] ∧ enqueue 2 [7] [8, 9] = [7, 8] ∧ enqueue 1 [7] [8, 9] = [7] := by decide

end Gmars.Props.C02
