/-
  C02 — battles are scheduled and decided by the standard rules (property theorems).
-/
import Gmars.Proofs.Abs

namespace Gmars.Props.C02
open Gmars Gmars.Spec

/-- new tasks go to the back; a warrior never holds more tasks than the process limit
    (or than it already held) -/
theorem enqueue_bounded (P : Nat) (q succ : List Nat) :
    (enqueue P q succ).length ≤ max q.length P := by
  unfold enqueue
  induction succ generalizing q with
  | nil => simp; omega
  | cons a as ih =>
    simp only [List.foldl_cons]
    split
    · have := ih (q ++ [a]); simp at this ⊢; omega
    · exact ih q

/-- a split queues the fall-through task before the new one, and the new one is dropped
    exactly when the warrior already holds the process limit -/
theorem split_order (P : Nat) (q : List Nat) (nxt jt : Nat) :
    enqueue P q [nxt, jt] =
      if q.length + 1 < P then q ++ [nxt, jt]
      else if q.length < P then q ++ [nxt] else q := by
  unfold enqueue
  simp only [List.foldl_cons, List.foldl_nil]
  by_cases h1 : q.length < P
  · by_cases h2 : q.length + 1 < P <;> simp [h1, h2]
  · have : ¬ q.length + 1 < P := by omega
    simp [h1, this]

example : enqueue 3 [7] [8, 9] = [7, 8, 9] ∧ enqueue 2 [7] [8, 9] = [7, 8] ∧ enqueue 1 [7] [8, 9] = [7] := by decide

end Gmars.Props.C02
