/-
  C03 — Redcode source assembles to the instructions it denotes (property theorems).
-/
import Gmars.Model.Compile
import Gmars.Spec.Program
import Gmars.Proofs.LoadOK
import Gmars.Proofs.AsmLabels
import Gmars.Proofs.Render

namespace Gmars.Props.C03
open Gmars

/-- omitted modifiers take the ICWS'94 defaults: the assembler's table (getOpMode94) is the
    independently written default table of the reference, for every opcode and every pair of
    addressing modes -/
theorem default_modifier_94 (op : Op) (am bm : Mode) : getOpMode94 op am bm = Spec.defaultMod94 op am bm := by
  cases op <;> cases am <;> cases bm <;> rfl

/-- under ICWS'88 the assembler accepts exactly the operand combinations of the independently
    written '88 table and supplies the modifier the standard implies -/
theorem default_modifier_88 (op : Op) (am bm : Mode) (ha : Spec.mode88 am = true) (hb : Spec.mode88 bm = true) :
    getOpModeAndValidate88 op am bm = Spec.implied88 op am bm :=
  validate88_eq op am bm ha hb

/-- mnemonics are recognised in any letter case (all 17 opcodes, upper and lower) -/
theorem opcode_any_case (op : Op) :
    getOpCode op.name.toList = some op ∧ getOpCode (GoStr.toLower op.name.toList) = some op := by
  cases op <;> decide

/-- `compile_meaning` (stage 3, with labels) — for every program of labelled instructions whose
    operands are precedence-well-formed expressions over numbers and label names (plus ORG / END),
    every accepted configuration with a core below 2^63 and both dialects: the compiler stage on
    the program's source lines returns exactly the reference meaning `Spec.meaningFlat` — labels
    as offsets relative to the referring instruction, dialect default modes and modifiers, the
    lone-operand rule, reduction modulo the core size, the entry point, the length limit — or
    rejects exactly when the reference does. -/
theorem compile_meaning_labels (lexTokens : String → List Token) (cfg : Config) (sc : Spec.Cfg)
    (prog : List AsmLine.LItem) (ameta : AsmMeta)
    (hv : cfg.validate = true) (h63 : cfg.coreSize.toNat < 2 ^ 63) (hr : AsmLine.CfgRel cfg sc)
    (hnd : ((AsmLine.labelsFrom 0 prog).map (·.1) ++ AsmLine.constNames).Nodup)
    (hsmall : AsmLine.linstrCount prog < 2 ^ 63)
    (hw : AsmLine.ProgWF sc.M (AsmLine.labelsFrom 0 prog) 0 prog) :
    compile lexTokens cfg (AsmLine.lrender 0 prog) ameta =
      .ok ((Spec.meaningFlat sc (prog.map AsmLine.LItem.toItem)).map (AsmLine.toWD ameta)) :=
  AsmLine.compile_meaning_labels lexTokens cfg sc prog ameta hv h63 hr hnd hsmall hw

/-- per line: `assembleLine` = the reference's `instrMeaning` whenever the operand evaluations
    agree (defaults, lone operand, '88 legality, reduction: all opcodes, both dialects) -/
theorem line_meaning (c : Spec.Cfg) (t : Spec.Tables) (line : Nat) (opS : String)
    (mdS : Option String) (a : Spec.POperand) (b : Option Spec.POperand) (av bv : Int)
    (hM0 : 0 < c.M) (hM : c.M < 2 ^ 63)
    (hop : AsmLine.Ascii opS) (hdot : '.' ∉ opS.toList) (hmd : ∀ s, mdS = some s → AsmLine.Ascii s)
    (hA : Spec.evalAt c t line a.expr = some av)
    (hB : ∀ bo, b = some bo → Spec.evalAt c t line bo.expr = some bv) :
    AsmLine.lineShape c.legacy (c.M : Int) (AsmLine.opString opS mdS) (AsmLine.modeString a.mode)
        (AsmLine.modeString (b.bind (·.mode))) b.isSome av bv =
      Spec.instrMeaning c t line opS mdS a b :=
  AsmLine.lineShape_meaning c t line opS mdS a b av bv hM0 hM hop hdot hmd hA hB

/-- `parse_render` ∘ `lex_render` (stages 1 and 2) — a program written as words (labels with
    optional colons, op[.modifier], mode symbols, expression tokens, commas, comments) renders to
    characters with ANY runs of blanks and tabs between the words, blank lines and comment lines
    between statements; lexing and parsing that text yields exactly the program's source lines and
    metadata: the result does not depend on spacing, blank or comment lines, or colon suffixes. -/
theorem parse_lex_any_spacing (p : Render.WProg) (hlex : ∀ it ∈ p.items, it.ok = true) (hp : p.toProg.OK)
    (ls : List Render.SrcLine) (hls : ∀ l ∈ ls, l.ok (some '\n') = true)
    (hsame : Render.SameLines ls p.srcLines) :
    parse (Lex.tokens (Render.renderLines ls)) = .ok (some (p.toProg.lines, p.toProg.metadata)) :=
  Render.parse_lex_any_spacing p hlex hp ls hls hsame

/-
  Still open as a single composed theorem: `assemble (render p) = meaning p` for programs with
  EQUs and FOR blocks (the three stage theorems above and C08's pass theorems are its parts; the
  source-line lists of `parse_lex_any_spacing` and `compile_meaning_labels` are not yet
  identified with each other). The whole statement is checked by the asm94/asm88 domains on
  15 000 renderings per run.
-/

end Gmars.Props.C03
