/-
  C03 — Redcode source assembles to the instructions it denotes (property theorems).
-/
import Gmars.Model.Compile
import Gmars.Spec.Program
import Gmars.Proofs.LoadOK
import Gmars.Proofs.AsmLabels
import Gmars.Proofs.Render
import Gmars.Proofs.AsmCompose
import Gmars.Proofs.AsmEqu
import Gmars.Proofs.AsmComposeForBytes
import Gmars.Proofs.AsmComposeEquCase
import Gmars.Proofs.AsmTailCompose
import Gmars.Proofs.AsmComposeAll
import Gmars.Proofs.AsmComposeAllExample
import Gmars.Proofs.AsmTailExample
import Gmars.Proofs.AsmComposeEquExample
import Gmars.Proofs.AsmComposeForExample

namespace Gmars.Props.C03
open Gmars

/-- omitted modifiers take the ICWS'94 defaults: the assembler's table (getOpMode94) is the
    independently written default table of the reference, for every opcode and every pair of
    addressing modes -/
theorem default_modifier_94 (op : Op) (am bm : Mode) : getOpMode94 op am bm = Spec.defaultMod94 op am bm := by
  cases op <;> cases am <;> cases bm <;> rfl

/-- under ICWS'88 the assembler accepts exactly the operand combinations of the independently
    written '88 table and supplies the modifier the standard implies -/
theorem default_modifier_88 (op : Op) (am bm : Mode) (ha : Spec.mode88 am = true) (hb : Spec.mode88 bm = true) :
    getOpModeAndValidate88 op am bm = Spec.implied88 op am bm :=
  validate88_eq op am bm ha hb

/-- mnemonics are recognised in any letter case (all 17 opcodes, upper and lower) -/
theorem opcode_any_case (op : Op) :
    getOpCode op.name.toList = some op ∧ getOpCode (GoStr.toLower op.name.toList) = some op := by
  cases op <;> decide

/-- `compile_meaning` (stage 3, with labels) — for every program of labelled instructions whose
    operands are precedence-well-formed expressions over numbers and label names (plus ORG / END),
    every accepted configuration with a core below 2^63 and both dialects: the compiler stage on
    the program's source lines returns exactly the reference meaning `Spec.meaningFlat` — labels
    as offsets relative to the referring instruction, dialect default modes and modifiers, the
    lone-operand rule, reduction modulo the core size, the entry point, the length limit — or
    rejects exactly when the reference does. -/
theorem compile_meaning_labels (lexTokens : String → List Token) (cfg : Config) (sc : Spec.Cfg)
    (prog : List AsmLine.LItem) (ameta : AsmMeta)
    (hv : cfg.validate = true) (h63 : cfg.coreSize.toNat < 2 ^ 63) (hr : AsmLine.CfgRel cfg sc)
    (hnd : ((AsmLine.labelsFrom 0 prog).map (·.1) ++ AsmLine.constNames).Nodup)
    (hsmall : AsmLine.linstrCount prog < 2 ^ 63)
    (hw : AsmLine.ProgWF sc.M (AsmLine.labelsFrom 0 prog) 0 prog) :
    compile lexTokens cfg (AsmLine.lrender 0 prog) ameta =
      .ok ((Spec.meaningFlat sc (prog.map AsmLine.LItem.toItem)).map (AsmLine.toWD ameta)) :=
  AsmLine.compile_meaning_labels lexTokens cfg sc prog ameta hv h63 hr hnd hsmall hw

/-- per line: `assembleLine` = the reference's `instrMeaning` whenever the operand evaluations
    agree (defaults, lone operand, '88 legality, reduction: all opcodes, both dialects) -/
theorem line_meaning (c : Spec.Cfg) (t : Spec.Tables) (line : Nat) (opS : String)
    (mdS : Option String) (a : Spec.POperand) (b : Option Spec.POperand) (av bv : Int)
    (hM0 : 0 < c.M) (hM : c.M < 2 ^ 63)
    (hop : AsmLine.Ascii opS) (hdot : '.' ∉ opS.toList) (hmd : ∀ s, mdS = some s → AsmLine.Ascii s)
    (hA : Spec.evalAt c t line a.expr = some av)
    (hB : ∀ bo, b = some bo → Spec.evalAt c t line bo.expr = some bv) :
    AsmLine.lineShape c.legacy (c.M : Int) (AsmLine.opString opS mdS) (AsmLine.modeString a.mode)
        (AsmLine.modeString (b.bind (·.mode))) b.isSome av bv =
      Spec.instrMeaning c t line opS mdS a b :=
  AsmLine.lineShape_meaning c t line opS mdS a b av bv hM0 hM hop hdot hmd hA hB

/-- `parse_render` ∘ `lex_render` (stages 1 and 2) — a program written as words (labels with
    optional colons, op[.modifier], mode symbols, expression tokens, commas, comments) renders to
    characters with ANY runs of blanks and tabs between the words, blank lines and comment lines
    between statements; lexing and parsing that text yields exactly the program's source lines and
    metadata: the result does not depend on spacing, blank or comment lines, or colon suffixes. -/
theorem parse_lex_any_spacing (p : Render.WProg) (hlex : ∀ it ∈ p.items, it.ok = true) (hp : p.toProg.OK)
    (ls : List Render.SrcLine) (hls : ∀ l ∈ ls, l.ok (some '\n') = true)
    (hsame : Render.SameLines ls p.srcLines) :
    parse (Lex.tokens (Render.renderLines ls)) = .ok (some (p.toProg.lines, p.toProg.metadata)) :=
  Render.parse_lex_any_spacing p hlex hp ls hls hsame

open AsmCompose AsmLine Render in
/-- `assemble_meaning_partial` — the composed theorem for programs with labels (no EQU, no FOR):
    for every such program `p` (labels with or without colons, blank lines, comment lines, ORG lines,
    a final END), EVERY spacing `ls` of its words (any runs of blanks and tabs) and every byte
    string that decodes to that text, under every accepted configuration with a core below 2^63 and
    both dialects: the whole assembler — lexer, FOR pass loop, parser, compiler — returns exactly
    the reference meaning of the abstract program, or rejects exactly when the reference does. -/
theorem assemble_meaning_partial (cfg : Config) (sc : Spec.Cfg) (p : SProg)
    (hv : cfg.validate = true) (h63 : cfg.coreSize.toNat < 2 ^ 63) (hr : CfgRel cfg sc)
    (hlex : p.LexOK) (hnames : p.NamesOK) (hplain : ∀ it ∈ p.items, it.Plain)
    (hnd : (p.labels ++ constNames).Nodup) (hcl : ∀ x ∈ p.names, x ∈ p.labels)
    (hsmall : linstrCount p.litems < 2 ^ 63)
    (hw : ProgWF sc.M (labelsFrom 0 p.litems) 0 p.litems)
    (ls : List SrcLine) (hls : ∀ l ∈ ls, l.ok (some '\n') = true) (hsame : SameLines ls p.srcLines)
    (src : List UInt8) (hsrc : decodeRunes src = renderLines ls) :
    assemble cfg src =
      match Spec.meaningFlat sc (p.litems.map LItem.toItem) with
      | some m => .ok (toWD p.meta m)
      | none => .err :=
  AsmCompose.assemble_meaning_labels cfg sc p hv h63 hr hlex hnames hplain hnd hcl hsmall hw ls hls hsame src hsrc

open AsmLine in
/-- `compile_meaning` with EQUs — the compiler stage computes the reference meaning for programs
    with labels AND EQU definitions placed anywhere (forward uses, EQU-in-EQU chains up to depth
    62, predefined constants, `;assert` lines): EQU names are substituted TEXTUALLY (`x equ 1+2`,
    `x*3` = 7), labels become offsets relative to the referring instruction -/
theorem compile_meaning_equ (lexTokens : String → List Token) (cfg : Config) (sc : Spec.Cfg)
    (prog : List XItem) (ameta : AsmMeta) (d : String → Nat)
    (hv : cfg.validate = true) (h63 : cfg.coreSize.toNat < 2 ^ 63) (hr : CfgRel cfg sc)
    (hnd : ((xlabelsFrom 0 prog).map (·.1) ++ (xequs prog).map (·.1) ++ constNames).Nodup)
    (hsmall : xinstrCount prog < 2 ^ 63)
    (hrk : ERanked (xequs prog ++ Spec.predefined sc) d) (hlt : ∀ s, d s < 63)
    (hw : XProgWF lexTokens sc (xtables sc prog) 0 prog) :
    compile lexTokens cfg (xrender 0 prog) ameta =
      .ok ((Spec.meaningFlat sc (prog.map XItem.toItem)).map (toWD ameta)) :=
  AsmLine.compile_meaning_equ lexTokens cfg sc prog ameta d hv h63 hr hnd hsmall hrk hlt hw

open AsmComposeEqu AsmCompose AsmLine Render in
/-- `assemble_meaning_equ` — the whole assembler FROM BYTES on programs with labels AND EQU
    definitions (placed anywhere, forward uses, EQU-in-EQU chains up to depth 62, predefined
    constants, `;assert` lines, comments, ORG, a final END): for EVERY spacing of the program's
    words and every byte string decoding to that text, `CompileWarrior` returns exactly the
    reference meaning (EQUs substituted textually, labels as relative offsets, defaults,
    reduction modulo the core size), or rejects exactly when the reference does. -/
theorem assemble_meaning_equ (cfg : Config) (sc : Spec.Cfg) (p : EProg) (d : String → Nat)
    (hv : cfg.validate = true) (h63 : cfg.coreSize.toNat < 2 ^ 63) (hr : CfgRel cfg sc)
    (hlex : p.LexOK) (hnames : p.NamesOK)
    (hplain : ∀ cs k, EItem.comment cs k ∈ p.items → plainComment cs)
    (hnd : (p.labels ++ p.equNames ++ constNames).Nodup)
    (hcl : ∀ x ∈ p.names, x ∈ p.labels ∨ x ∈ p.equNames ∨ x ∈ constNames)
    (hsmall : xinstrCount p.xitems < 2 ^ 63)
    (hrk : ERanked (xequs p.xitems ++ Spec.predefined sc) d) (hlt : ∀ s, d s < 63)
    (hw : XProgWF lexString sc (xtables sc p.xitems) 0 p.xitems)
    (ls : List SrcLine) (hls : ∀ l ∈ ls, l.ok (some '\n') = true) (hsame : SameLines ls p.srcLines)
    (src : List UInt8) (hsrc : decodeRunes src = renderLines ls) :
    assemble cfg src =
      match Spec.meaningFlat sc (p.xitems.map AsmLine.XItem.toItem) with
      | some m => .ok (toWD p.meta m)
      | none => .err :=
  AsmComposeEqu.assemble_meaning_equ cfg sc p d hv h63 hr hlex hnames hplain hnd hcl hsmall hrk hlt hw
    ls hls hsame src hsrc

open AsmComposeEqu AsmCompose AsmLine Render in
/-- `assemble_meaning_anycase` — letter case of mnemonics is immaterial: if `q` is `p` with every
    opcode, modifier and `equ`/`org`/`end` word written in ANY mixture of upper and lower case
    (labels and names stay as they are: they are case-sensitive), every spacing of `q` assembles
    to the reference meaning of `p`. -/
theorem assemble_meaning_anycase (cfg : Config) (sc : Spec.Cfg) (p q : EProg) (d : String → Nat)
    (hpq : p.CaseVar q)
    (hv : cfg.validate = true) (h63 : cfg.coreSize.toNat < 2 ^ 63) (hr : CfgRel cfg sc)
    (hlex : p.LexOK) (hnames : p.NamesOK)
    (hplain : ∀ cs k, EItem.comment cs k ∈ p.items → plainComment cs)
    (hnd : (p.labels ++ p.equNames ++ constNames).Nodup)
    (hcl : ∀ x ∈ p.names, x ∈ p.labels ∨ x ∈ p.equNames ∨ x ∈ constNames)
    (hsmall : xinstrCount p.xitems < 2 ^ 63)
    (hrk : ERanked (xequs p.xitems ++ Spec.predefined sc) d) (hlt : ∀ s, d s < 63)
    (hw : XProgWF lexString sc (xtables sc p.xitems) 0 p.xitems)
    (ls : List SrcLine) (hls : ∀ l ∈ ls, l.ok (some '\n') = true) (hsame : SameLines ls q.srcLines)
    (src : List UInt8) (hsrc : decodeRunes src = renderLines ls) :
    assemble cfg src =
      match Spec.meaningFlat sc (p.xitems.map AsmLine.XItem.toItem) with
      | some m => .ok (toWD p.meta m)
      | none => .err :=
  AsmComposeEqu.assemble_meaning_anycase cfg sc p q d hpq hv h63 hr hlex hnames hplain hnd hcl hsmall hrk hlt hw
    ls hls hsame src hsrc

open AsmTail AsmComposeEqu AsmCompose AsmLine Render in
/-- `assemble_meaning_equ_tail` — as `assemble_meaning_equ`, for programs whose END line carries
    labels (`last end first`): such a label denotes the address just after the code; the whole
    assembler, from bytes and for every spacing, returns the reference meaning
    `Spec.meaningFlatT` (which is `meaningFlat` with those labels added to the label table:
    `Spec.meaningFlatT_nil`). -/
theorem assemble_meaning_equ_tail (cfg : Config) (sc : Spec.Cfg) (p : TProg) (d : String → Nat)
    (hv : cfg.validate = true) (h63 : cfg.coreSize.toNat < 2 ^ 63) (hr : CfgRel cfg sc)
    (hlex : p.LexOK) (hnames : p.base.NamesOK) (htn : ∀ l ∈ p.tail, IsLabelName l)
    (hplain : ∀ cs k, EItem.comment cs k ∈ p.items → plainComment cs)
    (hnd : (p.labels ++ p.tail ++ p.equNames ++ constNames).Nodup)
    (hcl : ∀ x ∈ p.names, x ∈ p.labels ∨ x ∈ p.tail ∨ x ∈ p.equNames ∨ x ∈ constNames)
    (hsmall : xinstrCount p.body < 2 ^ 63)
    (hrk : ERanked (xequs p.body ++ Spec.predefined sc) d) (hlt : ∀ s, d s < 63)
    (hw : XProgWF lexString sc (xtablesT sc p.body p.kw p.e p.tail) 0 p.xitems)
    (ls : List SrcLine) (hls : ∀ l ∈ ls, l.ok (some '\n') = true) (hsame : SameLines ls p.srcLines)
    (src : List UInt8) (hsrc : decodeRunes src = renderLines ls) :
    assemble cfg src =
      match Spec.meaningFlatT sc (p.xitems.map AsmLine.XItem.toItem) p.tail with
      | some m => .ok (toWD p.meta m)
      | none => .err :=
  AsmTail.assemble_meaning_equ_tail cfg sc p d hv h63 hr hlex hnames htn hplain hnd hcl hsmall hrk hlt hw
    ls hls hsame src hsrc

open AsmComposeFor AsmCompose AsmLine Render in
/-- `assemble_meaning_for` — the whole assembler FROM BYTES on programs with FOR/ROF blocks:
    `fp` is any program of label-free instructions and FOR blocks, sequential and nested to any
    depth, counts literal or an enclosing counter, counters used in operand expressions; `ls` any
    spacing of its words; `src` any byte string decoding to that text. When the manual unrolling
    `U` takes `k ≤ 12` expansions, `CompileWarrior` returns exactly the reference meaning
    `Spec.meaning` (FOR blocks unrolled by the reference itself), or rejects exactly when the
    reference does. (No shadowed counters; every name is an enclosing counter.) -/
theorem assemble_meaning_for (cfg : Config) (sc : Spec.Cfg) (fp : FProg)
    (U : List FInstr) (k : Nat) (hu : FUnroll fp U k) (hk : k ≤ 12) (hok : fp.OK) (hlex : fp.LexOK)
    (hfuel : U.length + k < 100000)
    (hv : cfg.validate = true) (h63 : cfg.coreSize.toNat < 2 ^ 63) (hr : CfgRel cfg sc)
    (hclosed : fp.Closed [])
    (hw : ProgWF sc.M [] 0 (U.map FInstr.toL))
    (ls : List SrcLine) (hls : ∀ l ∈ ls, l.ok (some '\n') = true) (hsame : SameLines ls fp.srcLines)
    (src : List UInt8) (hsrc : decodeRunes src = renderLines ls) :
    assemble cfg src =
      match Spec.meaning sc fp.toItems with
      | some m => .ok (toWD {} m)
      | none => .err :=
  AsmComposeFor.assemble_meaning_for cfg sc fp U k hu hk hok hlex hfuel hv h63 hr hclosed hw ls hls hsame src hsrc

open AsmComposeAll AsmComposeFor AsmComposeEqu AsmCompose AsmLine Render ExprProofs in
/-- `assemble_meaning_all` — labels, EQUs AND FOR blocks in one program, from bytes: `p` has
    labelled instructions, EQU lines, ORG/END, `;assert`, comment and blank lines at top level
    (labels with or without a colon) and FOR blocks (sequential and nested, label-free bodies
    whose operands may use counters, top-level labels and EQU names; counts literal, an
    enclosing counter, or an EQU defined in front with a literal value; at most 12 expansions);
    `ls` is any spacing of its words. `CompileWarrior` returns the reference meaning
    `Spec.meaning` — FOR blocks unrolled by the reference, labels positioned after the unrolling,
    EQUs substituted textually — or rejects exactly when the reference does. -/
theorem assemble_meaning_all (cfg : Config) (sc : Spec.Cfg) (p : AProg) (U : List EItem) (k : Nat)
    (d : String → Nat)
    (hu : AUnroll [] p.items U k) (hk : k ≤ 12) (hblocks : BlocksOK p.items)
    (hblex : ∀ c n body, AItem.block c n body ∈ p.items → (FProg.block c n body .nil).LexOK)
    (hfuel : U.length + k + 2 < 100000)
    (hv : cfg.validate = true) (h63 : cfg.coreSize.toNat < 2 ^ 63) (hr : CfgRel cfg sc)
    (hlex : (p.unrolled U).LexOK) (hnames : (p.unrolled U).NamesOK)
    (hplain : ∀ cs j, EItem.comment cs j ∈ (p.unrolled U).items → plainComment cs)
    (hnd : ((p.unrolled U).labels ++ (p.unrolled U).equNames ++ constNames).Nodup)
    (hcl : ∀ x ∈ (p.unrolled U).names,
      x ∈ (p.unrolled U).labels ∨ x ∈ (p.unrolled U).equNames ∨ x ∈ constNames)
    (hsmall : xinstrCount (p.unrolled U).xitems < 2 ^ 63)
    (hrk : ERanked (xequs (p.unrolled U).xitems ++ Spec.predefined sc) d) (hlt : ∀ s, d s < 63)
    (hw : XProgWF lexString sc (xtables sc (p.unrolled U).xitems) 0 (p.unrolled U).xitems)
    (ls : List SrcLine) (hls : ∀ l ∈ ls, l.ok (some '\n') = true) (hsame : SameLines ls p.srcLines)
    (src : List UInt8) (hsrc : decodeRunes src = renderLines ls) :
    assemble cfg src =
      match Spec.meaning sc p.toItems with
      | some m => .ok (toWD (p.unrolled U).meta m)
      | none => .err :=
  AsmComposeAll.assemble_meaning_all cfg sc p U k d hu hk hblocks hblex hfuel hv h63 hr hlex hnames hplain
    hnd hcl hsmall hrk hlt hw ls hls hsame src hsrc

/-
  Still open: block labels (the statement is FALSE there: finding F13) and labels / EQU / comment
  lines INSIDE FOR bodies; comparison operators inside operands; EQU names and END-line labels with a
  colon; upper-case `FOR`/`ROF` in the composed theorem (the stage theorems allow them). The whole
  statement is checked by the asm94/asm88/for domains on 18 000 renderings per run.
-/

end Gmars.Props.C03
