/-
  C03 — Redcode source assembles to the instructions it denotes (property theorems).
-/
import Gmars.Model.Compile
import Gmars.Spec.Program
import Gmars.Proofs.LoadOK

namespace Gmars.Props.C03
open Gmars

/-- omitted modifiers take the ICWS'94 defaults: the assembler's table (getOpMode94) is the
    independently written default table of the reference, for every opcode and every pair of
    addressing modes -/
theorem default_modifier_94 (op : Op) (am bm : Mode) : getOpMode94 op am bm = Spec.defaultMod94 op am bm := by
  cases op <;> cases am <;> cases bm <;> rfl

/-- under ICWS'88 the assembler accepts exactly the operand combinations of the independently
    written '88 table and supplies the modifier the standard implies -/
theorem default_modifier_88 (op : Op) (am bm : Mode) (ha : Spec.mode88 am = true) (hb : Spec.mode88 bm = true) :
    getOpModeAndValidate88 op am bm = Spec.implied88 op am bm :=
  validate88_eq op am bm ha hb

/-- mnemonics are recognised in any letter case (all 17 opcodes, upper and lower) -/
theorem opcode_any_case (op : Op) :
    getOpCode op.name.toList = some op ∧ getOpCode (GoStr.toLower op.name.toList) = some op := by
  cases op <;> decide

end Gmars.Props.C03
