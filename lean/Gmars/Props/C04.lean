/-
  C04 — no program can corrupt or crash the simulator (property theorems).
-/
import Gmars.Model.Sim
import Gmars.Proofs.WFExec
import Gmars.Proofs.SpecLocal
import Gmars.Proofs.ApiWF

namespace Gmars.Props.C04
open Gmars

/-- the structural part of the simulator invariant that creation establishes -/
def Created (c : Config) (s : Sim) : Prop :=
  s.mem.size = s.m.toNat ∧ 3 ≤ s.m.toNat ∧ 1 ≤ s.maxProcs.toNat ∧ 1 ≤ s.maxCycles.toNat ∧
  1 ≤ s.readLimit.toNat ∧ 1 ≤ s.writeLimit.toNat ∧ s.readLimit.toNat ≤ s.m.toNat ∧
  s.writeLimit.toNat ≤ s.m.toNat ∧ s.m = c.coreSize ∧
  s.warriors.size = 0 ∧ s.living = 0 ∧ s.cycleCount = 0 ∧ (∀ i ∈ s.mem, i.a = 0 ∧ i.b = 0)

/-- A configuration is either refused, or the simulator it creates is sound: no third outcome
    (in particular no panic) for ANY field values. -/
theorem validate_total (c : Config) :
    (c.validate = false ∧ Sim.new c = none) ∨ (c.validate = true ∧ ∃ s, Sim.new c = some s ∧ Created c s) := by
  unfold Sim.new
  cases h : c.validate
  · left; simp
  · right
    refine ⟨rfl, _, rfl, ?_⟩
    unfold Config.validate at h
    simp only [Created, Array.size_replicate, Array.size_empty, true_and]
    have h3 : (3 : UInt64).toNat = 3 := rfl
    have h1 : (1 : UInt64).toNat = 1 := rfl
    repeat' (split at h; · simp at h)
    simp only [UInt64.lt_iff_toNat_lt, h3, h1, Nat.not_lt] at *
    refine ⟨by omega, by omega, by omega, clampLimit_pos _ _ (by omega) (by omega),
      clampLimit_pos _ _ (by omega) (by omega), clampLimit_le _ _, clampLimit_le _ _, ?_⟩
    intro i hi
    simp [Array.mem_replicate] at hi
    rw [hi.2]; exact ⟨rfl, rfl⟩

/-- `wf_preserved` for one executed task: whatever instruction is at `pc` and whatever the core
    holds, executing it never panics, keeps the core size, keeps every instruction field below the
    core size, keeps the executing warrior's queue a well-formed ring of the same capacity whose
    entries are all below the core size, leaves every other warrior and all counters untouched, and
    only emits reports with addresses inside the core. No bound on the core size and none on the
    read/write limits beyond ≥ 1 (`Validate` accepts limits above the core size). -/
theorem exec_preserves_invariant (s : Sim) (pc : UInt64) (wi : Nat) (q : PQ) (hwf : s.WF)
    (hpc : pc < s.m) (hq : s.pqOf wi = some q) :
    ∃ s' q', s.exec pc wi = .ok s' ∧ Frame s s' wi ∧ s'.FieldsOK ∧
      s'.pqOf wi = some q' ∧ q'.Inv ∧ q'.size = q.size ∧ (∀ a ∈ q'.toList, a < s.m) ∧
      q'.toList.length ≤ q.toList.length + 2 ∧
      (∀ r, r ∈ s'.log.toList.drop s.log.size → r.addr < s.m ∧ r.wi = Int.ofNat wi) :=
  exec_wf s pc wi q hwf hpc hq

/-- the host never panics while executing a task -/
theorem exec_never_panics (s : Sim) (pc : UInt64) (wi : Nat) (q : PQ) (hwf : s.WF) (hpc : pc < s.m)
    (hq : s.pqOf wi = some q) : ∃ s', s.exec pc wi = .ok s' :=
  exec_no_panic s pc wi q hwf hpc hq

/-- reference semantics: every field of every instruction stays below the core size -/
theorem reference_fields_bounded (M R W : Nat) (c : Spec.Core) (pc : Nat)
    (h : ∀ a, (c.at a).a < M ∧ (c.at a).b < M) :
    ∀ a, ((Spec.step M R W c pc).core.at a).a < M ∧ ((Spec.step M R W c pc).core.at a).b < M :=
  Spec.step_fields M R W c pc h

/-- `wf_reachable` — the invariant holds in EVERY state reached during a battle, for every accepted
    configuration and every sequence of API operations (add any warrior whose instruction fields
    are below the core size, spawn with any index and offset, RunCycle, Run, Reset): no operation
    panics, and afterwards every instruction field and queued program counter is below the core
    size, no warrior holds more tasks than the process limit (`PQ.Inv`), the completed-cycle count
    does not exceed the cycle limit, the living count equals the number of warriors reporting
    alive, and an alive warrior has tasks while a dead one has none (`Sim.WF`). -/
theorem wf_reachable {c : Config} {s0 : Sim} {ops : List ApiOp} (hv : c.validate = true)
    (hnew : Sim.new c = some s0)
    (hops : ∀ op ∈ ops, match op with
      | .add d => ∀ x ∈ d.code.toList, x.a < c.coreSize ∧ x.b < c.coreSize
      | _ => True) :
    ∃ s, s0.applyOps ops = .ok s ∧ s.WF ∧ s.CodeOK :=
  Gmars.wf_reachable hv hnew hops

/-- one cycle never panics and preserves the invariant -/
theorem runCycle_preserves_invariant {s : Sim} (hwf : s.WF) (hc : s.CodeOK) :
    ∃ s' n, s.runCycle = .ok (s', n) ∧ s'.WF ∧ s'.CodeOK :=
  runCycle_wf hwf hc

/-- the "zombie" branch of RunCycle (a warrior alive without tasks) is unreachable -/
theorem zombie_unreachable {s : Sim} (hwf : s.WF) {i : Nat} (hi : i < s.warriors.size)
    (halive : s.warriors[i].state = .alive) {q : PQ} (hq : s.warriors[i].pq = some q) :
    ∃ pc q', q.pop = .ok (some pc, q') :=
  Gmars.zombie_unreachable hwf hi halive hq

-- non-vacuity: the KOTH '94 configuration is accepted, a two-cell core is refused
example : (Sim.new (Config.quick .icws94 8000 8000 80000 100)).isSome = true := by decide
example : Sim.new { coreSize := 2, processes := 1, cycles := 1, readLimit := 1, writeLimit := 1 } = none := by decide

end Gmars.Props.C04
