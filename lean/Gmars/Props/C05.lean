/-
  C05 — assembling any input terminates cleanly (property theorems).
-/
import Gmars.Model.Lex

namespace Gmars.Props.C05
open Gmars

/-- `lexer_terminal_last` — for EVERY rune sequence the lexer goroutine sends exactly one
    terminating token (tokEOF or tokError) and it is the last token it sends: after the consumer
    `Tokens()` has stopped at that token the producer has nothing left to send, so it cannot be
    left blocked on its unbuffered channel. (The lexer model is a total function: termination of
    the state machine for every input is part of its definition's well-founded recursion.) -/
theorem lexer_terminal_last (input : List Char) :
    ∃ pre t, Lex.sends input = pre ++ [t] ∧ Lex.isTerminator t = true ∧
      ∀ x ∈ pre, Lex.isTerminator x = false :=
  Lex.sends_shape input

/-- `Tokens()` returns everything the goroutine sends: no send is left pending -/
theorem no_blocked_lexer (input : List Char) : Lex.tokens input = Lex.sends input :=
  Lex.tokens_eq_sends input

/-- the same for raw bytes, invalid UTF-8 included -/
theorem lexer_bytes_terminal (src : List UInt8) :
    ∃ pre t, lexBytes src = pre ++ [t] ∧ Lex.isTerminator t = true := by
  obtain ⟨pre, t, h, ht, _⟩ := Lex.sends_shape (decodeRunes src)
  exact ⟨pre, t, by rw [lexBytes, Lex.tokens_eq_sends, h], ht⟩

end Gmars.Props.C05
