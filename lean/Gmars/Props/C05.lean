/-
  C05 — assembling any input terminates cleanly (property theorems).
-/
import Gmars.Model.Lex
import Gmars.Proofs.CompileWF
import Gmars.Proofs.AsmTerm
import Gmars.Proofs.AsmCost

namespace Gmars.Props.C05
open Gmars

/-- `lexer_terminal_last` — for EVERY rune sequence the lexer goroutine sends exactly one
    terminating token (tokEOF or tokError) and it is the last token it sends: after the consumer
    `Tokens()` has stopped at that token the producer has nothing left to send, so it cannot be
    left blocked on its unbuffered channel. (The lexer model is a total function: termination of
    the state machine for every input is part of its definition's well-founded recursion.) -/
theorem lexer_terminal_last (input : List Char) :
    ∃ pre t, Lex.sends input = pre ++ [t] ∧ Lex.isTerminator t = true ∧
      ∀ x ∈ pre, Lex.isTerminator x = false :=
  Lex.sends_shape input

/-- `Tokens()` returns everything the goroutine sends: no send is left pending -/
theorem no_blocked_lexer (input : List Char) : Lex.tokens input = Lex.sends input :=
  Lex.tokens_eq_sends input

/-- the same for raw bytes, invalid UTF-8 included -/
theorem lexer_bytes_terminal (src : List UInt8) :
    ∃ pre t, lexBytes src = pre ++ [t] ∧ Lex.isTerminator t = true := by
  obtain ⟨pre, t, h, ht, _⟩ := Lex.sends_shape (decodeRunes src)
  exact ⟨pre, t, by rw [lexBytes, Lex.tokens_eq_sends, h], ht⟩

/-- the compiler stage (symbol tables, EQU cycle check, assertions, substitution fixpoint, line
    assembly, start expression) neither panics nor loops forever, for every list of source lines and
    every configuration: the fixpoint of `expandExpression` ends within its fuel once the cycle
    check has passed (defects F9 and F24 were exactly the two ways it did not) -/
theorem compile_stage_no_fault {cfg : Config} {lines : List SourceLine} {ameta : AsmMeta}
    {lexTokens : String → List Token} (hlex : ∀ s, lexTokens s ≠ []) :
    ∀ f, compile lexTokens cfg lines ameta ≠ .error f :=
  Compile.compile_no_fault' hlex

/-- the compiler stage returns an error or a warrior, never both or neither -/
theorem compile_stage_err_xor {cfg : Config} {lines : List SourceLine} {ameta : AsmMeta}
    {lexTokens : String → List Token} (hlex : ∀ s, lexTokens s ≠ []) :
    compile lexTokens cfg lines ameta = .ok none ∨
    ∃ w, compile lexTokens cfg lines ameta = .ok (some w) := by
  rcases Compile.compile_total (cfg := cfg) (lines := lines) (ameta := ameta) hlex with h | ⟨w, _, h, _⟩
  · exact Or.inl h
  · exact Or.inr ⟨w, h⟩

/-- `no_hang` + `no_panic` — THE theorem of C05. For EVERY byte string (valid programs, token
    soup, invalid UTF-8, NUL and ^Z bytes, unterminated last lines …) and EVERY configuration, the
    model of CompileWarrior — lexer, symbol scanner, FOR expander with its pass loop, parser,
    compiler — returns: it neither panics nor runs into any of the loops that can spin forever in
    the Go code (every stage receives a token stream that ends in exactly one EOF/error token). -/
theorem assemble_terminates_cleanly (cfg : Config) (src : List UInt8) (f : Fault) :
    assemble cfg src ≠ .fault f :=
  assemble_no_fault cfg src f

/-- `err_xor_result` — the outcome is exactly one of: a warrior, an error (`unmodelled` = the
    expression left the modelled subset of go/types.Eval, where the real code also returns one of
    the two) -/
theorem assemble_err_xor_result (cfg : Config) (src : List UInt8) :
    ((∃ w, assemble cfg src = .ok w) ∧ assemble cfg src ≠ .err ∧ assemble cfg src ≠ .unmodelled) ∨
    ((∀ w, assemble cfg src ≠ .ok w) ∧ assemble cfg src = .err ∧ assemble cfg src ≠ .unmodelled) ∨
    ((∀ w, assemble cfg src ≠ .ok w) ∧ assemble cfg src ≠ .err ∧ assemble cfg src = .unmodelled) :=
  assemble_err_xor cfg src

/-- `expander_terminal_last` — whatever it is given, the FOR expander's output ends with exactly one
    EOF/error token: after it the goroutine sends nothing, so it cannot block (defect F10) -/
theorem expander_terminal_last {eval : List Token → SymTab → EvalRes} {ts ts' : List Token}
    {syms : SymTab} {u : Bool} (h : forExpandWith eval ts syms = .ok (some ts', u)) : Terminated ts' :=
  expand_terminated h

/-- `passes_bounded` — the scan-and-expand loop performs at most 13 passes -/
theorem passes_bounded (ts : List Token) (fuel : Nat) (h : 13 ≤ fuel) : forLoop fuel 0 ts = forLoop 13 0 ts :=
  Gmars.passes_bounded ts fuel h

/-
  Partial: wall-clock time and resident memory are runtime behaviour the model cannot exhibit;
  "time proportional to the input after FOR expansion" is not provable as stated because textual
  EQU expansion is not linear (`a equ b+b`, `b equ c+c`, … doubles per line, as in pMARS). The
  correspondence domain `soup` runs every case under a deadline and counts goroutines.
-/

/-! ### sizes: what "time proportional to the size of the input after FOR expansion" rests on

Lean cannot observe time; it can bound every stage's output and every loop's trip count. `S src`
is the longest token list among the passes of the FOR loop ("the size after expansion"),
`Work cfg src` the sum of all of them (the tokens the loop moves). -/

/-- the lexer emits at most one token per byte, plus the closing EOF — every byte string -/
theorem lex_linear (src : List UInt8) : (lexBytes src).length ≤ src.length + 1 :=
  Gmars.lex_linear src

/-- the parser returns at most one source line per token and stores at most every token once -/
theorem parse_linear {toks : List Token} {lines : List SourceLine} {ameta : AsmMeta}
    (h : parse toks = .ok (some (lines, ameta))) :
    lines.length ≤ toks.length ∧ (lines.map Parser.tokCount).sum ≤ toks.length :=
  Gmars.parse_linear h

/-- one expansion pass multiplies the stream by at most (count + 1), for ANY token list -/
theorem expand_pass_size {eval : List Token → SymTab → EvalRes} {toks out : List Token}
    {syms : SymTab} {u : Bool} (h : forExpandWith eval toks syms = .ok (some out, u)) :
    ∃ n, IsCount eval syms toks n ∧ out.length ≤ toks.length + n * toks.length :=
  Gmars.expand_pass_size h

/-- the compiler emits one instruction per instruction line -/
theorem compile_linear {lexTokens : String → List Token} {cfg : Config} {lines : List SourceLine}
    {ameta : AsmMeta} {w : WarriorData} (h : compile lexTokens cfg lines ameta = .ok (some w)) :
    w.code.size = (lines.filter Compile.isInstr).length ∧ w.code.size ≤ lines.length :=
  Compile.compile_linear h

/-- the pass loop moves at most fourteen times the expanded size -/
theorem assemble_work_bound (cfg : Config) (src : List UInt8) : Work cfg src ≤ 14 * S src :=
  Gmars.assemble_work_bound cfg src

/-- with FOR counts of at most `n` the expanded size is at most `(bytes + 1)·(n + 1)^13`; without
    FOR blocks the work is linear in the input -/
theorem passes_growth {n : Nat} {src : List UInt8} (h : CountsLe n src) :
    S src ≤ (src.length + 1) * (n + 1) ^ 13 :=
  Gmars.passes_growth h

theorem work_linear_no_for (cfg : Config) {src : List UInt8} (h : CountsLe 0 src) :
    Work cfg src ≤ 14 * (src.length + 1) :=
  Gmars.work_linear_no_for cfg h

/-- the assembled warrior is no longer than the expanded input -/
theorem assemble_output_bound {cfg : Config} {src : List UInt8} {w : WarriorData}
    (h : assemble cfg src = .ok w) :
    ∃ toks lines ameta, toks ∈ passes 14 0 (lexBytes src) ∧
      parse toks = .ok (some (lines, ameta)) ∧
      lines.length ≤ toks.length ∧ (lines.map Parser.tokCount).sum ≤ toks.length ∧
      w.code.size ≤ lines.length ∧ w.code.size ≤ S src :=
  Gmars.assemble_output_bound h

end Gmars.Props.C05
