/-
  C06 — accepted programs are well-formed and obey the selected rule set (property theorems).
-/
import Gmars.Model.Compile
import Gmars.Proofs.AsmTailCor
import Gmars.Proofs.AsmTailReject
import Gmars.Spec.Legal88
import Gmars.Proofs.LoadOK
import Gmars.Proofs.CompileWF
import Gmars.Proofs.AsmWF

namespace Gmars.Props.C06
open Gmars

/-- every entry of the '88 table uses only '88 opcodes and the four '88 addressing modes -/
theorem table88_uses_88_only (op : Op) (am bm : Mode) (md : Modifier) (h : Spec.implied88 op am bm = some md) :
    Spec.mode88 am = true ∧ Spec.mode88 bm = true ∧
    op ∈ [Op.dat, .mov, .add, .sub, .jmp, .jmz, .jmn, .djn, .cmp, .slt, .spl] := by
  cases op <;> cases am <;> cases bm <;> cases md <;> revert h <;> decide

/-- the assembler's '88 validation is the table (so an accepted '88 line is a legal '88
    instruction with the implied modifier) -/
theorem validate88_is_table (op : Op) (am bm : Mode) (ha : Spec.mode88 am = true) (hb : Spec.mode88 bm = true) :
    getOpModeAndValidate88 op am bm = Spec.implied88 op am bm :=
  validate88_eq op am bm ha hb

/-- `compile_wf` — for EVERY list of source lines, every metadata and every configuration with a
    core below 2^63 cells: whenever the compiler stage succeeds, every field of every instruction
    is below the core size, the entry point lies inside the code (or is zero for an empty program)
    and the program is no longer than the configured maximum length. Because the statement
    quantifies over all source-line lists it needs no fact about lexer or parser. -/
theorem compile_wf {lexTokens : String → List Token} {cfg : Config} {lines : List SourceLine}
    {ameta : AsmMeta} {w : WarriorData}
    (h : compile lexTokens cfg lines ameta = .ok (some w)) (h63 : cfg.coreSize.toNat < 2 ^ 63) :
    (∀ i ∈ w.code.toList, i.a < cfg.coreSize ∧ i.b < cfg.coreSize) ∧
    ((w.code.size = 0 ∧ w.start = 0) ∨ (0 ≤ w.start ∧ w.start < w.code.size)) ∧
    w.code.size ≤ cfg.length.toNat :=
  Compile.compile_wf h h63

/-- `compile_88_legal` — under the ICWS'88 rule set every instruction of an accepted program is in
    the independently written table of legal '88 instructions, with the implied modifier
    (lone-operand DAT included) -/
theorem compile_88_legal {lexTokens : String → List Token} {cfg : Config} {lines : List SourceLine}
    {ameta : AsmMeta} {w : WarriorData}
    (h : compile lexTokens cfg lines ameta = .ok (some w)) (h88 : cfg.mode = .icws88) :
    ∀ i ∈ w.code.toList, Spec.Legal88 i = true :=
  Compile.compile_88_legal h h88

/-- the same for the whole assembler, for EVERY byte string: whenever `CompileWarrior` succeeds
    (valid programs, near-valid mutations, token soup — anything), every field is below the core
    size, the entry point lies inside the code (or is zero for an empty program), the program is
    no longer than the maximum length, and under ICWS'88 every instruction is a legal '88
    instruction with the implied modifier -/
theorem assemble_wf {cfg : Config} {src : List UInt8} {w : WarriorData}
    (h : assemble cfg src = .ok w) (h63 : cfg.coreSize.toNat < 2 ^ 63) :
    (∀ i ∈ w.code.toList, i.a < cfg.coreSize ∧ i.b < cfg.coreSize) ∧
    ((w.code.size = 0 ∧ w.start = 0) ∨ (0 ≤ w.start ∧ w.start < w.code.size)) ∧
    w.code.size ≤ cfg.length.toNat ∧
    (cfg.mode = .icws88 → ∀ i ∈ w.code.toList, Spec.Legal88 i = true) := by
  obtain ⟨lines, ameta, hc⟩ := assemble_ok_from_compile h
  obtain ⟨h1, h2, h3⟩ := Compile.compile_wf hc h63
  exact ⟨h1, h2, h3, fun h88 => Compile.compile_88_legal hc h88⟩

open AsmTail AsmLine in
/-- a label on the END line used as the operand of instruction `i` of an `n`-instruction
    program gives the field `(n - i) mod M` in the reference meaning (which the assembler
    computes: `C03.assemble_meaning_equ_tail`) — for `i = 0` and `n = M` that is 0, never `M` -/
theorem end_label_field (sc : Spec.Cfg) (body : List XItem) (kw : String)
    (e : Option (List Spec.ETok)) (tail : List String) (last : String) (i : Nat)
    (op : String) (md : Option String) (mode : Option Mode) (b : Spec.POperand) (ins : Instr)
    (hnd : ((xlabelsFrom 0 body).map (·.1) ++ tail ++ (xequs body).map (·.1) ++ constNames).Nodup)
    (hl : last ∈ tail) (hi : i ≤ xinstrCount body) (hM : 0 < sc.M) (h31 : sc.M ≤ 2 ^ 31)
    (h : Spec.instrMeaning sc (xtablesT sc body kw e tail) i op md ⟨mode, [.name last]⟩ (some b) =
      some ins) :
    ins.a = UInt64.ofNat ((xinstrCount body - i) % sc.M) :=
  AsmLine.instrMeaning_tail_a sc body kw e tail last i op md mode b ins hnd hl hi hM h31 h

open AsmTail AsmComposeEqu AsmCompose AsmLine Render in
/-- `org last` / `end last` with `last` written on the END line of a non-empty program shorter
    than the core is rejected, from bytes, for every spacing: the entry point would be one past
    the end of the code -/
theorem end_label_as_entry_rejected (cfg : Config) (sc : Spec.Cfg) (p : TProg) (d : String → Nat)
    (last : String)
    (hv : cfg.validate = true) (h63 : cfg.coreSize.toNat < 2 ^ 63) (hr : CfgRel cfg sc)
    (hlex : p.LexOK) (hnames : p.base.NamesOK) (htn : ∀ l ∈ p.tail, IsLabelName l)
    (hplain : ∀ cs k, EItem.comment cs k ∈ p.items → plainComment cs)
    (hnd : (p.labels ++ p.tail ++ p.equNames ++ constNames).Nodup)
    (hcl : ∀ x ∈ p.names, x ∈ p.labels ∨ x ∈ p.tail ∨ x ∈ p.equNames ∨ x ∈ constNames)
    (hsmall : xinstrCount p.body < 2 ^ 63)
    (hrk : ERanked (xequs p.body ++ Spec.predefined sc) d) (hlt : ∀ s, d s < 63)
    (hw : XProgWF lexString sc (xtablesT sc p.body p.kw p.e p.tail) 0 p.xitems)
    (ls : List SrcLine) (hls : ∀ l ∈ ls, l.ok (some '\n') = true) (hsame : SameLines ls p.srcLines)
    (src : List UInt8) (hsrc : decodeRunes src = renderLines ls)
    (hl : last ∈ p.tail) (hstart : xstart p.xitems = [.name last])
    (hn : 0 < xinstrCount p.body) (hnM : xinstrCount p.body < sc.M) (h31 : sc.M ≤ 2 ^ 31) :
    assemble cfg src = .err :=
  AsmTail.assemble_start_tail_rejected cfg sc p d last hv h63 hr hlex hnames htn hplain hnd hcl hsmall
    hrk hlt hw ls hls hsame src hsrc hl hstart hn hnM h31

/-
  The 2^63 bound of `compile_wf` is tight: with coreSize = 3·2^62 (accepted by Validate) `int(m)`
  is negative in Go and `dat -5` assembles to a field above the core size
  (`Compile.reduceMod_counterexample`). Such a core cannot be allocated.
-/

end Gmars.Props.C06
