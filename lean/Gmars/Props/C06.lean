/-
  C06 — accepted programs are well-formed and obey the selected rule set (property theorems).
-/
import Gmars.Model.Compile
import Gmars.Spec.Legal88
import Gmars.Proofs.LoadOK

namespace Gmars.Props.C06
open Gmars

/-- every entry of the '88 table uses only '88 opcodes and the four '88 addressing modes -/
theorem table88_uses_88_only (op : Op) (am bm : Mode) (md : Modifier) (h : Spec.implied88 op am bm = some md) :
    Spec.mode88 am = true ∧ Spec.mode88 bm = true ∧
    op ∈ [Op.dat, .mov, .add, .sub, .jmp, .jmz, .jmn, .djn, .cmp, .slt, .spl] := by
  cases op <;> cases am <;> cases bm <;> cases md <;> revert h <;> decide

/-- the assembler's '88 validation is the table (so an accepted '88 line is a legal '88
    instruction with the implied modifier) -/
theorem validate88_is_table (op : Op) (am bm : Mode) (ha : Spec.mode88 am = true) (hb : Spec.mode88 bm = true) :
    getOpModeAndValidate88 op am bm = Spec.implied88 op am bm :=
  validate88_eq op am bm ha hb

end Gmars.Props.C06
