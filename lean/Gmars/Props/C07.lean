/-
  C07 — operand expressions evaluate as integer arithmetic (property theorems).
-/
import Gmars.Model.Compile
import Gmars.Spec.Program
import Gmars.Proofs.ExprProofs

namespace Gmars.Props.C07
open Gmars

/-- the predefined names equal the configuration's values -/
theorem constants (c : Compile.Compiler) (hv : c.values = []) :
    let v := (Compile.loadConstants c).values
    v.get? "CORESIZE" = some [Compile.numTok c.cfg.coreSize.toNat] ∧
    v.get? "MAXLENGTH" = some [Compile.numTok c.cfg.length.toNat] ∧
    v.get? "MAXPROCESSES" = some [Compile.numTok c.cfg.processes.toNat] ∧
    v.get? "MINDISTANCE" = some [Compile.numTok c.cfg.distance.toNat] := by
  simp [Compile.loadConstants, hv, SymTab.set, SymTab.has, SymTab.get?]

open ExprProofs in
/-- `eval_render` — THE theorem of C07. For every concrete syntax tree that respects precedence
    and left associativity (`WFprec`: integers, + - * / %, sign runs of ANY length, redundant
    parentheses; literals and intermediate values below 2^500), the model of gmars's pipeline —
    token check, sign-run folding, double-negative rewriting, concatenation, Go's scanner and
    constant evaluator, 32-bit range check — applied to the tree's tokens yields exactly the
    tree's denotation: exact integer arithmetic, / and % truncating toward zero, an error exactly
    on a zero divisor or a value outside the 32-bit range. -/
theorem eval_render (c : CST) (hw : WFprec c) (hb : NoBigLit c) :
    evaluateExpression c.tokens =
      match denote c with
      | some v => if -2 ^ 31 ≤ v ∧ v < 2 ^ 31 then .ok v else .err
      | none => .err :=
  model_eval_cst c hw hb

open ExprProofs in
/-- the independent reference evaluator computes the same denotation on every such tree -/
theorem reference_eval (c : CST) (hw : WFprec c) :
    Spec.Expr.eval c.etoks = (denote c).map Spec.Expr.V.int :=
  reference_eval_cst c hw

open ExprProofs in
/-- hence model and reference agree on every rendering of every well-formed expression -/
theorem model_agrees_with_reference (c : CST) (hw : WFprec c) (hb : NoBigLit c) :
    evaluateExpression c.tokens =
      match Spec.Expr.evalInt c.etoks with
      | some v => .ok v
      | none => .err :=
  ExprProofs.model_agrees_with_reference c hw hb

/-
  Trusted here: `GoEval` is an executable MODEL of go/types.Eval (scanner with maximal munch,
  precedence climbing, exact constant arithmetic); it is validated against the real evaluator by
  the `evalraw` correspondence domain on every run, not verified.
-/

/-- division by zero is an error in the reference evaluator -/
theorem division_by_zero_is_error :
    Spec.Expr.evalInt [.num 7, .op "/", .num 0] = none ∧ Spec.Expr.evalInt [.num 7, .op "%", .num 0] = none := by
  constructor <;> rfl

/-- stacked unary signs evaluate by parity; division and remainder truncate toward zero
    (reference evaluator; the sign-folding witnesses of defect F8) -/
theorem reference_signs_and_truncation :
    Spec.Expr.evalInt [.num 2, .op "*", .op "-", .op "-", .num 3] = some 6 ∧
    Spec.Expr.evalInt [.op "-", .op "-", .op "-", .num 5] = some (-5) ∧
    Spec.Expr.evalInt [.num 7, .op "/", .op "-", .num 2] = some (-3) ∧
    Spec.Expr.evalInt [.op "-", .num 7, .op "%", .num 3] = some (-1) ∧
    Spec.Expr.evalInt [.num 1, .op "-", .num 2, .op "-", .num 3] = some (-4) ∧
    Spec.Expr.evalInt [.num 2, .op "+", .num 3, .op "*", .num 4] = some 14 := by
  refine ⟨?_, ?_, ?_, ?_, ?_, ?_⟩ <;> rfl

end Gmars.Props.C07
