/-
  C07 — operand expressions evaluate as integer arithmetic (property theorems).
-/
import Gmars.Model.Compile
import Gmars.Spec.Program
import Gmars.Proofs.ExprProofs
import Gmars.Proofs.AsmEqu

namespace Gmars.Props.C07
open Gmars

/-- the predefined names equal the configuration's values -/
theorem constants (c : Compile.Compiler) (hv : c.values = []) :
    let v := (Compile.loadConstants c).values
    v.get? "CORESIZE" = some [Compile.numTok c.cfg.coreSize.toNat] ∧
    v.get? "MAXLENGTH" = some [Compile.numTok c.cfg.length.toNat] ∧
    v.get? "MAXPROCESSES" = some [Compile.numTok c.cfg.processes.toNat] ∧
    v.get? "MINDISTANCE" = some [Compile.numTok c.cfg.distance.toNat] := by
  simp [Compile.loadConstants, hv, SymTab.set, SymTab.has, SymTab.get?]

open ExprProofs in
/-- `eval_render` — THE theorem of C07. For every concrete syntax tree that respects precedence
    and left associativity (`WFprec`: integers, + - * / %, sign runs of ANY length, redundant
    parentheses; literals and intermediate values below 2^500), the model of gmars's pipeline —
    token check, sign-run folding, double-negative rewriting, concatenation, Go's scanner and
    constant evaluator, 32-bit range check — applied to the tree's tokens yields exactly the
    tree's denotation: exact integer arithmetic, / and % truncating toward zero, an error exactly
    on a zero divisor or a value outside the 32-bit range. -/
theorem eval_render (c : CST) (hw : WFprec c) (hb : NoBigLit c) :
    evaluateExpression c.tokens =
      match denote c with
      | some v => if -2 ^ 31 ≤ v ∧ v < 2 ^ 31 then .ok v else .err
      | none => .err :=
  model_eval_cst c hw hb

open ExprProofs in
/-- the independent reference evaluator computes the same denotation on every such tree -/
theorem reference_eval (c : CST) (hw : WFprec c) :
    Spec.Expr.eval c.etoks = (denote c).map Spec.Expr.V.int :=
  reference_eval_cst c hw

open ExprProofs in
/-- hence model and reference agree on every rendering of every well-formed expression -/
theorem model_agrees_with_reference (c : CST) (hw : WFprec c) (hb : NoBigLit c) :
    evaluateExpression c.tokens =
      match Spec.Expr.evalInt c.etoks with
      | some v => .ok v
      | none => .err :=
  ExprProofs.model_agrees_with_reference c hw hb

open AsmLine in
/-- `assert_decision` — a program is rejected exactly when one of its ;assert conditions evaluates
    to zero (or cannot be evaluated): if every assert has a non-zero reference value the assert
    stage passes; if some assert is zero or undefined the assembler returns an error -/
theorem assert_decision (lexTokens : String → List Token) (cfg : Config) (sc : Spec.Cfg)
    (prog : List XItem) (ameta : AsmMeta) (d : String → Nat)
    (hv : cfg.validate = true) (h63 : cfg.coreSize.toNat < 2 ^ 63) (hr : CfgRel cfg sc)
    (hnd : ((xlabelsFrom 0 prog).map (·.1) ++ (xequs prog).map (·.1) ++ constNames).Nodup)
    (hsmall : xinstrCount prog < 2 ^ 63)
    (hrk : ERanked (xequs prog ++ Spec.predefined sc) d) (hlt : ∀ s, d s < 63)
    (hw : XProgWF lexTokens sc (xtables sc prog) 0 prog) :
    ((∀ cm e, XItem.assert cm e ∈ prog →
        ∃ v, Spec.evalAt sc (xtables sc prog) 0 e = some v ∧ v ≠ 0) →
      Compile.evaluateAssertions lexTokens (Compile.symC cfg (xrender 0 prog)) (xrender 0 prog) = .ok ()) ∧
    ((∃ cm e, XItem.assert cm e ∈ prog ∧
        (Spec.evalAt sc (xtables sc prog) 0 e = none ∨ Spec.evalAt sc (xtables sc prog) 0 e = some 0)) →
      Compile.evaluateAssertions lexTokens (Compile.symC cfg (xrender 0 prog)) (xrender 0 prog) = .error .goErr ∧
      compile lexTokens cfg (xrender 0 prog) ameta = .ok none) :=
  AsmLine.assert_decision lexTokens cfg sc prog ameta d hv h63 hr hnd hsmall hrk hlt hw

/-
  `field_mod` (the assembled field is the value reduced into [0, M)) is part of
  `Props.C03.compile_meaning_equ`: `Spec.instrMeaning` stores `Spec.reduce M v`.

  Trusted here: `GoEval` is an executable MODEL of go/types.Eval (scanner with maximal munch,
  precedence climbing, exact constant arithmetic); it is validated against the real evaluator by
  the `evalraw` correspondence domain on every run, not verified.
-/

/-- division by zero is an error in the reference evaluator -/
theorem division_by_zero_is_error :
    Spec.Expr.evalInt [.num 7, .op "/", .num 0] = none ∧ Spec.Expr.evalInt [.num 7, .op "%", .num 0] = none := by
  constructor <;> rfl

/-- stacked unary signs evaluate by parity; division and remainder truncate toward zero
    (reference evaluator; the sign-folding witnesses of defect F8) -/
theorem reference_signs_and_truncation :
    Spec.Expr.evalInt [.num 2, .op "*", .op "-", .op "-", .num 3] = some 6 ∧
    Spec.Expr.evalInt [.op "-", .op "-", .op "-", .num 5] = some (-5) ∧
    Spec.Expr.evalInt [.num 7, .op "/", .op "-", .num 2] = some (-3) ∧
    Spec.Expr.evalInt [.op "-", .num 7, .op "%", .num 3] = some (-1) ∧
    Spec.Expr.evalInt [.num 1, .op "-", .num 2, .op "-", .num 3] = some (-4) ∧
    Spec.Expr.evalInt [.num 2, .op "+", .num 3, .op "*", .num 4] = some 14 := by
  refine ⟨?_, ?_, ?_, ?_, ?_, ?_⟩ <;> rfl

end Gmars.Props.C07
