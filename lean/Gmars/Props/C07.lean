/-
  C07 — operand expressions evaluate as integer arithmetic (property theorems).
-/
import Gmars.Model.Compile
import Gmars.Spec.Program

namespace Gmars.Props.C07
open Gmars

/-- the predefined names equal the configuration's values -/
theorem constants (c : Compile.Compiler) (hv : c.values = []) :
    let v := (Compile.loadConstants c).values
    v.get? "CORESIZE" = some [Compile.numTok c.cfg.coreSize.toNat] ∧
    v.get? "MAXLENGTH" = some [Compile.numTok c.cfg.length.toNat] ∧
    v.get? "MAXPROCESSES" = some [Compile.numTok c.cfg.processes.toNat] ∧
    v.get? "MINDISTANCE" = some [Compile.numTok c.cfg.distance.toNat] := by
  simp [Compile.loadConstants, hv, SymTab.set, SymTab.has, SymTab.get?]

/-- division by zero is an error in the reference evaluator -/
theorem division_by_zero_is_error :
    Spec.Expr.evalInt [.num 7, .op "/", .num 0] = none ∧ Spec.Expr.evalInt [.num 7, .op "%", .num 0] = none := by
  constructor <;> rfl

/-- stacked unary signs evaluate by parity; division and remainder truncate toward zero
    (reference evaluator; the sign-folding witnesses of defect F8) -/
theorem reference_signs_and_truncation :
    Spec.Expr.evalInt [.num 2, .op "*", .op "-", .op "-", .num 3] = some 6 ∧
    Spec.Expr.evalInt [.op "-", .op "-", .op "-", .num 5] = some (-5) ∧
    Spec.Expr.evalInt [.num 7, .op "/", .op "-", .num 2] = some (-3) ∧
    Spec.Expr.evalInt [.op "-", .num 7, .op "%", .num 3] = some (-1) ∧
    Spec.Expr.evalInt [.num 1, .op "-", .num 2, .op "-", .num 3] = some (-4) ∧
    Spec.Expr.evalInt [.num 2, .op "+", .num 3, .op "*", .num 4] = some 14 := by
  refine ⟨?_, ?_, ?_, ?_, ?_, ?_⟩ <;> rfl

end Gmars.Props.C07
