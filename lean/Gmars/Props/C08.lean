/-
  C08 — FOR/ROF blocks assemble exactly like their manual unrolling (property theorems).
-/
import Gmars.Spec.Program
import Gmars.Proofs.ForUnroll
import Gmars.Proofs.AsmComposeForBytes

namespace Gmars.Props.C08
open Gmars Gmars.Spec

def forFree (items : List Item) : Prop := ∀ it ∈ items, match it with | .for_ .. => False | _ => True

/-- a program without FOR blocks is its own unrolling and needs no expansion pass -/
theorem unroll_for_free (fuel : Nat) (items before : List Item) (k : Nat) (h : forFree items)
    (hf : items.length < fuel) : unrollAux fuel items before k = some (before ++ items, k) := by
  induction items generalizing fuel before with
  | nil =>
    cases fuel with
    | zero => simp at hf
    | succ f => simp [unrollAux]
  | cons it rest ih =>
    cases fuel with
    | zero => simp at hf
    | succ f =>
      have hit := h it (by simp)
      have hrest : forFree rest := fun x hx => h x (by simp [hx])
      have := ih f (before ++ [it]) hrest (by simpa using hf)
      cases it <;> simp_all [unrollAux]

open ForPass in
/-- `expand_pass` — one pass of the FOR expander performs exactly the manual unrolling of the
    FIRST outermost block and streams everything else through: lines before the block unchanged,
    the block replaced by `count` copies of its body with the counter replaced by 1 … count (inner
    blocks copied verbatim for later passes, block labels renamed and emitted once), the rest of
    the stream unchanged up to its terminator. -/
theorem expand_pass (e : List Token → SymTab → EvalRes) (syms : SymTab)
    (pre : List Line) (b : Block) (q : List Token) (z : Token) (rest : List Token) (n : Int)
    (hpre : ∀ l ∈ pre, l.WF) (hpass : ∀ l ∈ pre, PassLine l.toks) (hb : b.WF)
    (hq : ∀ x ∈ q, x.isTerm = false) (hz : z.isTerm = true)
    (hev : e (exprToks b.count) syms = .ok n) :
    forExpandWith e (flat pre ++ b.flat ++ q ++ z :: rest) syms =
      .ok (some (flat pre ++ b.unrolled n ++ q ++ [endTok z]), false) :=
  ForPass.expand_pass e syms pre b q z rest n hpre hpass hb hq hz hev

open ForPass in
/-- `for_unroll_partial` — a program whose blocks need k ≤ 12 expansion passes leaves the pass
    loop of CompileWarrior as the token list of its complete manual unrolling -/
theorem for_unroll_partial {k : Nat} {ts out : List Token} (h : Unrolls k ts out)
    (fuel depth : Nat) (hk : depth + k ≤ 12) (hf : k < fuel) :
    forLoop fuel depth ts = .ok out :=
  ForPass.for_unroll_partial h fuel depth hk hf

open ForPass in
/-- the 13th expansion is refused ("for loop depth exceeded"): finding F12 as a theorem -/
theorem thirteenth_pass_refused {k : Nat} {ts mid ts' : List Token} (h : Steps k ts mid)
    (hlast : UnrollStep mid ts') (fuel depth : Nat) (hk : depth + k = 12) (hf : k < fuel) :
    forLoop fuel depth ts = .error .err :=
  ForPass.for_unroll_too_deep h hlast fuel depth hk hf

open ForPass in
/-- `for_unroll` for structured programs (sequential and nested blocks, counts literal or an
    outer counter, label-free blocks) needing at most 12 passes: the pass loop yields the tokens of
    the fully unrolled program -/
theorem for_unroll_full (p : Prog) (ls : List Line) (k : Nat) (h : FullUnroll p ls k) (hk : k ≤ 12) :
    forLoop 14 0 (flat p.render ++ [eofTok]) = .ok (flat ls ++ [eofTok]) :=
  ForPass.for_unroll_full p ls k h hk

open AsmComposeFor AsmLine in
/-- `for_unroll_meaning` — the property at the level of whole assemblies: the token stream of a
    FOR program (label-free blocks, sequential and nested, counts literal or an enclosing
    counter) assembles to the MEANING of its manual unrolling as the reference computes it
    (`Spec.meaning` = `Spec.unroll` then `meaningFlat`), when at most 12 expansions are needed -/
theorem for_unroll_meaning (cfg : Config) (sc : Spec.Cfg) (fp : FProg)
    (U : List FInstr) (k : Nat) (hu : FUnroll fp U k) (hk : k ≤ 12) (hok : fp.OK)
    (hfuel : U.length + k < 100000)
    (hv : cfg.validate = true) (h63 : cfg.coreSize.toNat < 2 ^ 63) (hr : CfgRel cfg sc)
    (hclosed : fp.Closed [])
    (hw : ProgWF sc.M [] 0 (U.map FInstr.toL)) :
    assembleTokens cfg (ForPass.flat fp.toProg.render ++ [ForPass.eofTok]) =
      match Spec.meaning sc fp.toItems with
      | some m => .ok (toWD {} m)
      | none => .err :=
  AsmComposeFor.assemble_meaning_for_tokens cfg sc fp U k hu hk hok hfuel hv h63 hr hclosed hw

open AsmComposeFor in
/-- the reference's own unrolling of such a program is `U`, with exactly `k` expansions -/
theorem reference_unroll (fp : FProg) (U : List FInstr) (k : Nat) (hu : FUnroll fp U k)
    (hfuel : U.length + k < 100000) :
    Spec.unroll fp.toItems = some (U.map FInstr.toItem) :=
  AsmComposeFor.spec_unroll hu hfuel

open AsmComposeFor Render in
/-- with 13 or more expansions the assembler gives up, from bytes (finding F12) -/
theorem too_deep_from_bytes (cfg : Config) (fp : FProg) (U : List FInstr) (k : Nat)
    (hu : FUnroll fp U k) (hk : 13 ≤ k) (hok : fp.OK) (hlex : fp.LexOK)
    (ls : List SrcLine) (hls : ∀ l ∈ ls, l.ok (some '\n') = true) (hsame : SameLines ls fp.srcLines)
    (src : List UInt8) (hsrc : decodeRunes src = renderLines ls) :
    assemble cfg src = .err :=
  AsmComposeFor.assemble_for_too_deep_bytes cfg fp U k hu hk hok hlex ls hls hsame src hsrc

/-
  The full statement of the property (any number of expansions, "up to 40") is false of the
  code: `thirteenth_pass_refused` / `too_deep_from_bytes` are the proof, the `for` domain shows
  it on the implementation (KNOWN_FINDINGS F12); block labels referenced from outside the block
  are F13. Shadowed counters (`i for 2 / i for 2 / dat i / rof / rof`) are rejected by the
  assembler while the reference unrolls them; they are outside the property's quantifier.
-/

/-- a zero-count block contributes nothing; a block with count n contributes n copies of its
    body (checked on a nested example by evaluation: 2 × 2 copies, then a zero-count block,
    five block expansions in all) -/
example : (unroll [.for_ [] "i" [.num 2] [.for_ [] "j" [.num 2]
      [.instr [] "dat" none ⟨none, [.name "i"]⟩ (some ⟨none, [.name "j"]⟩)]],
    .for_ [] "k" [.num 0] [.instr [] "nop" none ⟨none, [.num 0]⟩ none]]).map (·.length) = some 4 := by rfl

end Gmars.Props.C08
