/-
  C08 — FOR/ROF blocks assemble exactly like their manual unrolling (property theorems).
-/
import Gmars.Spec.Program

namespace Gmars.Props.C08
open Gmars Gmars.Spec

def forFree (items : List Item) : Prop := ∀ it ∈ items, match it with | .for_ .. => False | _ => True

/-- a program without FOR blocks is its own unrolling and needs no expansion pass -/
theorem unroll_for_free (fuel : Nat) (items before : List Item) (k : Nat) (h : forFree items)
    (hf : items.length < fuel) : unrollAux fuel items before k = some (before ++ items, k) := by
  induction items generalizing fuel before with
  | nil =>
    cases fuel with
    | zero => simp at hf
    | succ f => simp [unrollAux]
  | cons it rest ih =>
    cases fuel with
    | zero => simp at hf
    | succ f =>
      have hit := h it (by simp)
      have hrest : forFree rest := fun x hx => h x (by simp [hx])
      have := ih f (before ++ [it]) hrest (by simpa using hf)
      cases it <;> simp_all [unrollAux]

/-- a zero-count block contributes nothing; a block with count n contributes n copies of its
    body (checked on a nested example by evaluation: 2 × 2 copies, then a zero-count block,
    five block expansions in all) -/
example : (unroll [.for_ [] "i" [.num 2] [.for_ [] "j" [.num 2]
      [.instr [] "dat" none ⟨none, [.name "i"]⟩ (some ⟨none, [.name "j"]⟩)]],
    .for_ [] "k" [.num 0] [.instr [] "nop" none ⟨none, [.num 0]⟩ none]]).map (·.length) = some 4 := by rfl

end Gmars.Props.C08
