/-
  C09 — load-file text round-trips through the loader and the assembler (property theorems).
-/
import Gmars.Model.Load
import Gmars.Proofs.LoadLayout
import Gmars.Proofs.AsmLayout
import Gmars.Proofs.AsmLayoutExample
import Gmars.Spec.LoadText
import Gmars.Proofs.RoundTrip
import Gmars.Proofs.AsmPrint

namespace Gmars.Props.C09
open Gmars

/-- every `OP.MOD` the canonical printer writes is decoded to the same opcode and modifier,
    in upper, lower or mixed case of the first letter (all 17 × 7 combinations) -/
theorem op94_roundtrip (op : Op) (md : Modifier) :
    getOp94 (op.name.toList ++ '.' :: md.name.toList) = some (op, md) ∧
    getOp94 (GoStr.toLower (op.name.toList ++ '.' :: md.name.toList)) = some (op, md) := by
  cases op <;> cases md <;> decide

/-- every mode symbol is decoded to its mode -/
theorem mode_roundtrip (m : Mode) : getAddressMode [m.sym] = some m := by
  cases m <;> rfl

/-- '88 mnemonics are decoded without a modifier -/
theorem op88_roundtrip (op : Op)
    (ho : op ∈ [Op.dat, .mov, .add, .sub, .jmp, .jmz, .jmn, .djn, .cmp, .slt, .spl]) :
    getOpCode88 op.name.toList = some op := by
  cases op <;> simp at ho <;> decide

/-- `load_print` — for every well-formed warrior (any length ≥ 1, every instruction form legal
    in the dialect, fields in [0, M), every entry point), in both dialects and for every core
    size 0 < M < 2^63: writing it in the canonical load-file layout and reading it back with the
    load-file reader reproduces exactly the same instructions and entry point. (The entry point
    must be below 2^31: the reader parses the ORG/END argument as a 32-bit integer, see
    `load_print_large_start`; such a warrior has over two thousand million instructions.) -/
theorem load_print (cfg : Config) (code : List Instr) (start : Nat)
    (hM0 : 0 < cfg.coreSize.toNat) (hM : cfg.coreSize.toNat < 2 ^ 63)
    (hf : ∀ i ∈ code, i.a.toNat < cfg.coreSize.toNat ∧ i.b.toNat < cfg.coreSize.toNat)
    (hstart : start < code.length)
    (hl : (cfg.mode == .icws88) = true → ∀ i ∈ code, Spec.Legal88 i = true)
    (hs31 : start < 2 ^ 31) :
    parseLoadFile cfg (Spec.printLoad (cfg.mode == .icws88) code start) =
      .ok (some { name := "Unknown", author := "Anonymous", strategy := "",
                  code := code.toArray, start := (start : Int) }) :=
  RoundTrip.load_print cfg code start hM0 hM hf hstart hl hs31

/-- `load_print` under layout variation: the same result for every layout `printLoadG` with
    arbitrary runs of blanks / tabs / CR before the mnemonic, between all fields, around the comma
    and at the end of every line (only the gaps mnemonic–mode and mode–number must be non-empty) -/
theorem load_print_any_blanks (cfg : Config) (d : RoundTrip.DirGaps) (lines : List (RoundTrip.Gaps × Instr))
    (start : Nat) (hd : d.ok) (hM : cfg.coreSize.toNat < 2 ^ 63)
    (hl : ∀ p ∈ lines, RoundTrip.LineOK cfg.coreSize (cfg.mode == .icws88) p)
    (hstart : start < lines.length) (hs : start < 2 ^ 31) :
    parseLoadFile cfg (RoundTrip.printLoadG (cfg.mode == .icws88) d lines start) =
      .ok (some { name := "Unknown", author := "Anonymous", strategy := "",
                  code := (lines.map (·.2)).toArray, start := (start : Int) }) :=
  RoundTrip.load_printG cfg d lines start hd hM hl hstart hs

/-- the 2^31 bound of `load_print` is tight for the '94 reader -/
theorem load_print_large_start (cfg : Config) (code : List Instr) (start : Nat)
    (h94 : (cfg.mode == .icws88) = false) (hs : 2 ^ 31 ≤ start) :
    parseLoadFile cfg (Spec.printLoad false code start) = .ok none :=
  RoundTrip.load_print_large_start cfg code start h94 hs

/-- `asm_print` — the assembler half: for every well-formed warrior (every instruction form legal
    in the dialect, fields and entry point below 2^31 and below the core size, no longer than the
    maximum length), in both dialects, the canonical load-file text ASSEMBLES to exactly the same
    instructions and entry point (for every byte string that decodes to that text) -/
theorem asm_print (cfg : Config) (code : List Instr) (start : Nat)
    (hv : cfg.validate = true) (hM : cfg.coreSize.toNat < 2 ^ 63)
    (hf : ∀ i ∈ code, i.a.toNat < cfg.coreSize.toNat ∧ i.b.toNat < cfg.coreSize.toNat)
    (h31 : ∀ i ∈ code, i.a.toNat < 2 ^ 31 ∧ i.b.toNat < 2 ^ 31) (hs31 : start < 2 ^ 31)
    (hstart : start < code.length) (hlen : code.length ≤ cfg.length.toNat)
    (hl : (cfg.mode == .icws88) = true → ∀ i ∈ code, Spec.Legal88 i = true)
    (src : List UInt8) (hsrc : decodeRunes src = Spec.printLoad (cfg.mode == .icws88) code start) :
    assemble cfg src =
      .ok { name := "", author := "", strategy := "", code := code.toArray, start := (start : Int) } :=
  AsmPrint.asm_print cfg code start hv hM hf h31 hs31 hstart hlen hl src hsrc

/-
  The 2^31 bound on fields is tight for the assembler (operands are 32-bit expressions:
  `AsmPrint.asm_print_big`); the loader has no such bound on fields. Still tie only: letter case,
  comment and blank lines, metadata comments and a missing final newline as perturbations of the
  LOAD-FILE text (`load_print_any_blanks` covers blanks/tabs/CR for the loader;
  `Props.C03.assemble_meaning_partial` covers spacing, blank and comment lines for the assembler) —
  checked on every run by the `load` domain, which feeds each text to both readers.
-/

open LoadLayout in
/-- `load_print_any_layout` — layout-only variations do not change what the load-file reader
    reads: for every warrior printed in the canonical layout and EVERY layout perturbation `L` of
    that text — any mixture of upper and lower case in mnemonics, modifiers and `ORG`/`END`, any
    runs of blanks and tabs between the fields, a trailing `;comment` on any line, `\n` or
    `\r\n` line ends, any number of blank, white-space-only and full-line comment lines before,
    between and after the lines, with or without a newline after the last line — the reader
    returns exactly the same instructions and entry point (both dialects). -/
theorem load_print_any_layout (cfg : Config) (L : Layout) (start : Nat)
    (hok : L.ok cfg.coreSize (cfg.mode == .icws88)) (hplain : L.plain)
    (hM : cfg.coreSize.toNat < 2 ^ 63) (hstart : start < L.lines.length) (hs : start < 2 ^ 31) :
    parseLoadFile cfg (L.render (cfg.mode == .icws88) start) =
      .ok (some { name := "Unknown", author := "Anonymous", strategy := "",
                  code := (L.lines.map (·.instr)).toArray, start := (start : Int) }) :=
  LoadLayout.load_print_any_layout cfg L start hok hplain hM hstart hs

open LoadLayout in
/-- with metadata comment lines (`;name`, `;author`, `;strategy`) among the fillers: code and
    entry point are still those read from the unperturbed canonical text -/
theorem load_layout_agrees (cfg : Config) (L : Layout) (start : Nat)
    (hok : L.ok cfg.coreSize (cfg.mode == .icws88)) (hM : cfg.coreSize.toNat < 2 ^ 63)
    (hstart : start < L.lines.length) (hs : start < 2 ^ 31) :
    ∃ w w0, parseLoadFile cfg (L.render (cfg.mode == .icws88) start) = .ok (some w) ∧
      parseLoadFile cfg (Spec.printLoad (cfg.mode == .icws88) (L.lines.map (·.instr)) start) =
        .ok (some w0) ∧ w.code = w0.code ∧ w.start = w0.start :=
  LoadLayout.load_layout_agrees cfg L start hok hM hstart hs

/-- the unperturbed layout renders to the canonical text -/
theorem layout_canonical (legacy : Bool) (code : List Instr) (start : Nat) :
    (LoadLayout.Layout.canon code).render legacy start = Spec.printLoad legacy code start :=
  LoadLayout.render_canonical legacy code start


open AsmLayout LoadLayout in
/-- `asm_print_any_layout` — the ASSEMBLER half: every layout perturbation `L` of a printed load
    file (letter case, gaps of blanks / tabs / CR, trailing comments, LF or CR-LF, blank /
    white-space / comment lines anywhere, final newline present or not) assembles to exactly the
    printed warrior. `AsmPlain`: no filler line in front of END starts with `;name`, `;author`,
    `;strategy` or `;assert` (those are metadata / assertions for the assembler). -/
theorem asm_print_any_layout (cfg : Config) (L : Layout) (start : Nat)
    (hok : AsmOK L) (hplain : AsmPlain L (cfg.mode == .icws88))
    (hv : cfg.validate = true) (hM : cfg.coreSize.toNat < 2 ^ 63)
    (hf : ∀ p ∈ L.lines, p.instr.a.toNat < cfg.coreSize.toNat ∧ p.instr.b.toNat < cfg.coreSize.toNat)
    (h31 : ∀ p ∈ L.lines, p.instr.a.toNat < 2 ^ 31 ∧ p.instr.b.toNat < 2 ^ 31) (hs31 : start < 2 ^ 31)
    (hstart : start < L.lines.length) (hlen : L.lines.length ≤ cfg.length.toNat)
    (hl : (cfg.mode == .icws88) = true → ∀ p ∈ L.lines, Spec.Legal88 p.instr = true)
    (src : List UInt8) (hsrc : decodeRunes src = L.render (cfg.mode == .icws88) start) :
    assemble cfg src =
      .ok { name := "", author := "", strategy := "", code := (L.lines.map (·.instr)).toArray,
            start := (start : Int) } :=
  AsmLayout.asm_print_any_layout cfg L start hok hplain hv hM hf h31 hs31 hstart hlen hl src hsrc

open AsmLayout LoadLayout in
/-- `both_readers_agree_any_layout` — C09 in one statement: for every layout perturbation of a
    printed warrior the load-file reader and the assembler both return exactly that warrior's
    instructions and entry point -/
theorem both_readers_agree_any_layout (cfg : Config) (L : Layout) (start : Nat)
    (hok : L.ok cfg.coreSize (cfg.mode == .icws88)) (hplain : AsmPlain L (cfg.mode == .icws88))
    (hv : cfg.validate = true) (hM : cfg.coreSize.toNat < 2 ^ 63)
    (h31 : ∀ p ∈ L.lines, p.instr.a.toNat < 2 ^ 31 ∧ p.instr.b.toNat < 2 ^ 31) (hs31 : start < 2 ^ 31)
    (hstart : start < L.lines.length) (hlen : L.lines.length ≤ cfg.length.toNat)
    (src : List UInt8) (hsrc : decodeRunes src = L.render (cfg.mode == .icws88) start) :
    ∃ (w : WarriorData) (a : WarriorData),
      parseLoadFile cfg (L.render (cfg.mode == .icws88) start) = .ok (some w) ∧
      assemble cfg src = .ok a ∧ w.code = a.code ∧ w.start = a.start ∧
      a.code = (L.lines.map (·.instr)).toArray ∧ a.start = (start : Int) :=
  AsmLayout.both_readers_agree_any_layout cfg L start hok hplain hv hM h31 hs31 hstart hlen src hsrc

end Gmars.Props.C09
