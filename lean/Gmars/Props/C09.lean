/-
  C09 — load-file text round-trips through the loader and the assembler (property theorems).
-/
import Gmars.Model.Load
import Gmars.Spec.LoadText

namespace Gmars.Props.C09
open Gmars

/-- every `OP.MOD` the canonical printer writes is decoded to the same opcode and modifier,
    in upper, lower or mixed case of the first letter (all 17 × 7 combinations) -/
theorem op94_roundtrip (op : Op) (md : Modifier) :
    getOp94 (op.name.toList ++ '.' :: md.name.toList) = some (op, md) ∧
    getOp94 (GoStr.toLower (op.name.toList ++ '.' :: md.name.toList)) = some (op, md) := by
  cases op <;> cases md <;> decide

/-- every mode symbol is decoded to its mode -/
theorem mode_roundtrip (m : Mode) : getAddressMode [m.sym] = some m := by
  cases m <;> rfl

/-- '88 mnemonics are decoded without a modifier -/
theorem op88_roundtrip (op : Op)
    (ho : op ∈ [Op.dat, .mov, .add, .sub, .jmp, .jmz, .jmn, .djn, .cmp, .slt, .spl]) :
    getOpCode88 op.name.toList = some op := by
  cases op <;> simp at ho <;> decide

end Gmars.Props.C09
