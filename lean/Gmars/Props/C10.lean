/-
  C10 — the load-file reader rejects what it cannot represent (property theorems).
-/
import Gmars.Model.Load
import Gmars.Spec.Legal88

namespace Gmars.Props.C10
open Gmars

/-- final entry-point check of both readers: an accepted warrior's entry point lies inside its
    code, or is zero for an empty warrior (which only the '88 reader accepts) -/
theorem finish_start_ok (legacy : Bool) (st : LoadState) (w : WarriorData) (h0 : 0 ≤ st.start)
    (h : finish legacy st = some w) :
    (w.code.size = 0 ∧ w.start = 0) ∨ (0 ≤ w.start ∧ w.start < w.code.size) := by
  unfold finish at h
  cases legacy <;> simp only [Bool.false_eq_true, if_false, if_true] at h
  · split at h
    · cases h
    · rename_i hb
      cases h
      right
      simp only [decide_eq_true_eq, Int.not_le] at hb
      exact ⟨h0, by simpa using hb⟩
  · split at h
    · cases h
    · rename_i hb
      cases h
      simp only [Bool.and_eq_true, bne_iff_ne, ne_eq, decide_eq_true_eq, not_and, Int.not_le] at hb
      by_cases hs : st.start = 0
      · by_cases hc : st.code.size = 0
        · left; exact ⟨hc, hs⟩
        · right; simp [hs]; omega
      · right; exact ⟨h0, by simpa using hb hs⟩

/-- the Go validation of an '88 instruction accepts exactly the forms of the independently
    written ICWS'88 table, with the modifier the standard implies -/
theorem validate88_is_table (op : Op) (am bm : Mode) (md : Modifier)
    (ha : Spec.mode88 am = true) (hb : Spec.mode88 bm = true)
    (ho : op ∈ [Op.dat, .mov, .add, .sub, .jmp, .jmz, .jmn, .djn, .cmp, .slt, .spl]) :
    getOpModeAndValidate88 op am bm = some md ↔ Spec.implied88 op am bm = some md := by
  cases op <;> simp at ho <;> cases am <;> simp [Spec.mode88] at ha <;> cases bm <;> simp [Spec.mode88] at hb <;>
    cases md <;> decide

end Gmars.Props.C10
