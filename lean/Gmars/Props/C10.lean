/-
  C10 — the load-file reader rejects what it cannot represent (property theorems).
-/
import Gmars.Model.Load
import Gmars.Spec.Legal88
import Gmars.Proofs.LoadOK
import Gmars.Proofs.LoadU
import Gmars.Proofs.LoadUAscii

namespace Gmars.Props.C10
open Gmars

/-- final entry-point check of both readers: an accepted warrior's entry point lies inside its
    code, or is zero for an empty warrior (which only the '88 reader accepts) -/
theorem finish_start_ok (legacy : Bool) (st : LoadState) (w : WarriorData) (h0 : 0 ≤ st.start)
    (h : finish legacy st = some w) :
    (w.code.size = 0 ∧ w.start = 0) ∨ (0 ≤ w.start ∧ w.start < w.code.size) := by
  unfold finish at h
  cases legacy <;> simp only [Bool.false_eq_true, if_false, if_true] at h
  · split at h
    · cases h
    · rename_i hb
      cases h
      right
      simp only [decide_eq_true_eq, Int.not_le] at hb
      exact ⟨h0, by simpa using hb⟩
  · split at h
    · cases h
    · rename_i hb
      cases h
      simp only [Bool.and_eq_true, bne_iff_ne, ne_eq, decide_eq_true_eq, not_and, Int.not_le] at hb
      by_cases hs : st.start = 0
      · by_cases hc : st.code.size = 0
        · left; exact ⟨hc, hs⟩
        · right; simp [hs]; omega
      · right; exact ⟨h0, by simpa using hb hs⟩

/-- the Go validation of an '88 instruction accepts exactly the forms of the independently
    written ICWS'88 table, with the modifier the standard implies -/
theorem validate88_is_table (op : Op) (am bm : Mode) (md : Modifier)
    (ha : Spec.mode88 am = true) (hb : Spec.mode88 bm = true)
    (ho : op ∈ [Op.dat, .mov, .add, .sub, .jmp, .jmz, .jmn, .djn, .cmp, .slt, .spl]) :
    getOpModeAndValidate88 op am bm = some md ↔ Spec.implied88 op am bm = some md := by
  cases op <;> simp at ho <;> cases am <;> simp [Spec.mode88] at ha <;> cases bm <;> simp [Spec.mode88] at hb <;>
    cases md <;> decide

/-- `load_no_panic`: for EVERY text, reading a load file terminates (the model is a structural
    recursion over the lines) and never panics, under any configuration with a non-zero core size -/
theorem load_no_panic {cfg : Config} (h0 : cfg.coreSize ≠ 0) (text : GoStr.Str) :
    ∃ r, parseLoadFile cfg text = .ok r :=
  Gmars.load_no_panic h0 text

/-- `load_ok_wf`: whatever the text, an accepted warrior has its entry point inside its code (or
    zero when empty), all fields below the core size, and under ICWS'88 only legal '88
    instructions with the implied modifier -/
theorem load_ok_wf {cfg : Config} {text : GoStr.Str} {w : WarriorData}
    (h0 : cfg.coreSize ≠ 0) (h63 : cfg.coreSize.toNat < 2 ^ 63)
    (h : parseLoadFile cfg text = .ok (some w)) :
    ((w.code.size = 0 ∧ w.start = 0) ∨ (0 ≤ w.start ∧ w.start < w.code.size)) ∧
    (∀ i ∈ w.code.toList, i.a < cfg.coreSize ∧ i.b < cfg.coreSize) ∧
    (cfg.mode = .icws88 → ∀ i ∈ w.code.toList, Spec.Legal88 i = true) :=
  Gmars.load_ok_wf h0 h63 h

/-- `no_silent_skip`: an accepted read produced exactly one instruction for every non-blank,
    non-comment line before the end marker that is not an ORG/END directive — nothing is skipped -/
theorem no_silent_skip {cfg : Config} {text : GoStr.Str} {w : WarriorData}
    (h : parseLoadFile cfg text = .ok (some w)) :
    w.code.size = (Spec.significantInstrLines text).1 :=
  Gmars.no_silent_skip h

/-! ### the same three statements for EVERY byte string

`parseLoadFileU` is the byte-level model: text as `List UInt8`, Go's rune decoding (an invalid
byte is U+FFFD of width 1), `strings.Fields` / `TrimSpace` with `unicode.IsSpace`,
`strings.ToLower` (U+0130 and U+212A lower to ASCII), metadata as raw byte slices. It is the
model the correspondence check runs; `loadU_ascii` relates it to the ASCII model above. -/

/-- `load_no_panic` for every byte string (valid UTF-8 or not) -/
theorem loadU_no_panic {cfg : Config} (h0 : cfg.coreSize ≠ 0) (text : GoStrU.Bytes) :
    ∃ r, parseLoadFileU cfg text = .ok r :=
  Gmars.loadU_no_panic h0 text

/-- `load_ok_wf` for every byte string -/
theorem loadU_ok_wf {cfg : Config} {text : GoStrU.Bytes} {w : WarriorDataB}
    (h0 : cfg.coreSize ≠ 0) (h63 : cfg.coreSize.toNat < 2 ^ 63)
    (h : parseLoadFileU cfg text = .ok (some w)) :
    ((w.code.size = 0 ∧ w.start = 0) ∨ (0 ≤ w.start ∧ w.start < w.code.size)) ∧
    (∀ i ∈ w.code.toList, i.a < cfg.coreSize ∧ i.b < cfg.coreSize) ∧
    (cfg.mode = .icws88 → ∀ i ∈ w.code.toList, Spec.Legal88 i = true) :=
  Gmars.loadU_ok_wf h0 h63 h

/-- `no_silent_skip` for every byte string -/
theorem loadU_no_silent_skip {cfg : Config} {text : GoStrU.Bytes} {w : WarriorDataB}
    (h : parseLoadFileU cfg text = .ok (some w)) :
    w.code.size = (Spec.significantInstrLinesU text).1 :=
  Gmars.loadU_no_silent_skip h

/-- on ASCII text the byte-level reader is the ASCII reader -/
theorem loadU_ascii (cfg : Config) (text : GoStrU.Bytes) (h : ∀ b ∈ text, b < 0x80) :
    parseLoadFile cfg (embB text) = (parseLoadFileU cfg text).map (Option.map WarriorDataB.toW) :=
  Gmars.parseLoadFileU_ascii cfg text h

-- non-vacuity: a two-line '88 file is accepted, the comma-only line of F22 is refused
example : (parseLoadFile { mode := .icws88, coreSize := 8000 } "MOV $ 0, $ 1\nEND 0\n".toList).toOption.join.isSome = true := by decide
example : (parseLoadFile { mode := .icws94, coreSize := 8000 } "MOV.I $ 0, $ 1\n,\n".toList).toOption = some none := by decide

end Gmars.Props.C10
