/-
  C11 — no access reaches beyond the configured read and write distances.
  Property theorems only; helper lemmas live in Gmars/Proofs.
-/
import Gmars.Proofs.Circ
import Gmars.Proofs.SpecLocal
import Gmars.Proofs.Transport

namespace Gmars.Props.C11
open Gmars Gmars.Spec

/-- The folding the simulator performs on `uint64` is the reference folding on naturals
    (for every limit 1 ≤ L ≤ M; no bound on M). -/
theorem model_fold_is_reference_fold (s : Sim) (p : UInt64)
    (hR : 0 < s.readLimit.toNat ∧ s.readLimit.toNat ≤ s.m.toNat)
    (hW : 0 < s.writeLimit.toNat ∧ s.writeLimit.toNat ≤ s.m.toNat) :
    (s.readFold p).toNat = fold p.toNat s.readLimit.toNat s.m.toNat ∧
    (s.writeFold p).toNat = fold p.toNat s.writeLimit.toNat s.m.toNat :=
  ⟨foldU_toNat _ _ _ hR.1 hR.2, foldU_toNat _ _ _ hW.1 hW.2⟩

/-- Every cell designated by a folded pointer lies within ⌊L/2⌋ of the executing instruction,
    around the circular core. -/
theorem folded_pointer_is_near (p L M pc : Nat) (hL : 0 < L) (hLM : L ≤ M) (hpc : pc < M) :
    circDist M ((pc + fold p L M) % M) pc ≤ L / 2 :=
  fold_near p L M pc hL hLM hpc

/-- With a limit equal to the core size folding has no effect beyond reduction modulo M. -/
theorem full_limit_is_no_limit (p M : Nat) : fold p M M = p % M := fold_full p M

/-- `write_locality` (reference semantics): with a write limit W ≤ M, no task alters a cell
    farther than ⌊W/2⌋ (around the circular core) from the instruction being executed — for every
    instruction form, core content, core size and read limit. -/
theorem write_locality (M R W : Nat) (c : Core) (pc : Nat) (hW : 0 < W) (hWM : W ≤ M) (hpc : pc < M) :
    ∀ a, (step M R W c pc).core.at a ≠ c.at a → circDist M a pc ≤ W / 2 :=
  Spec.write_locality M R W c pc hW hWM hpc

/-- `read_locality` (reference semantics): every queued successor is PC+1, PC+2 or a jump/split
    target within ⌊R/2⌋ of the executing instruction -/
theorem read_locality (M R W : Nat) (c : Core) (pc : Nat) (hR : 0 < R) (hRM : R ≤ M) (hpc : pc < M) :
    ∀ q ∈ (step M R W c pc).succ, q = (pc + 1) % M ∨ q = (pc + 2) % M ∨ circDist M q pc ≤ R / 2 :=
  Spec.succ_near M R W c pc hR hRM hpc

/-- the only cells a task can alter are the pre-decremented / post-incremented pointer cells and
    the write target of a storing opcode, all reached through write-limit folds -/
theorem changed_cells_are_write_targets (M R W : Nat) (c : Core) (pc : Nat) :
    ∀ a, (step M R W c pc).core.at a ≠ c.at a → a ∈ mayTouch M R W c pc :=
  Spec.step_changed_subset M R W c pc

/-- `write_locality` on the model of the Go code: in every state satisfying the invariant, with
    M ≤ 2^32 and limits not larger than the core, a task alters only cells within ⌊W/2⌋ -/
theorem model_write_locality (s : Sim) (pc : UInt64) (wi : Nat) (q : PQ) (h : StepPre s pc wi q)
    (s' : Sim) (he : s.exec pc wi = .ok s') :
    ∀ a (h1 : a < s.mem.size) (h2 : a < s'.mem.size), s'.mem[a] ≠ s.mem[a] →
      circDist s.m.toNat a pc.toNat ≤ s.writeLimit.toNat / 2 :=
  Gmars.model_write_locality s pc wi q h s' he

/-- `read_locality` on the model: every newly queued program counter is PC+1, PC+2 or within
    ⌊R/2⌋ of the executing instruction -/
theorem model_read_locality (s : Sim) (pc : UInt64) (wi : Nat) (q : PQ) (h : StepPre s pc wi q)
    (s' : Sim) (he : s.exec pc wi = .ok s') :
    ∃ q', s'.pqOf wi = some q' ∧ ∀ x ∈ q'.toList, x ∈ q.toList ∨
      (x.toNat = (pc.toNat + 1) % s.m.toNat ∨ x.toNat = (pc.toNat + 2) % s.m.toNat ∨
        circDist s.m.toNat x.toNat pc.toNat ≤ s.readLimit.toNat / 2) :=
  Gmars.model_read_locality s pc wi q h s' he

-- non-vacuity: M = 8000, L = 300, a pointer that folds backwards
example : fold 250 300 8000 = 7950 ∧ circDist 8000 ((10 + fold 250 300 8000) % 8000) 10 = 50 := by decide

end Gmars.Props.C11
