/-
  C11 — no access reaches beyond the configured read and write distances.
  Property theorems only; helper lemmas live in Gmars/Proofs.
-/
import Gmars.Proofs.Circ

namespace Gmars.Props.C11
open Gmars Gmars.Spec

/-- The folding the simulator performs on `uint64` is the reference folding on naturals
    (for every limit 1 ≤ L ≤ M; no bound on M). -/
theorem model_fold_is_reference_fold (s : Sim) (p : UInt64)
    (hR : 0 < s.readLimit.toNat ∧ s.readLimit.toNat ≤ s.m.toNat)
    (hW : 0 < s.writeLimit.toNat ∧ s.writeLimit.toNat ≤ s.m.toNat) :
    (s.readFold p).toNat = fold p.toNat s.readLimit.toNat s.m.toNat ∧
    (s.writeFold p).toNat = fold p.toNat s.writeLimit.toNat s.m.toNat :=
  ⟨foldU_toNat _ _ _ hR.1 hR.2, foldU_toNat _ _ _ hW.1 hW.2⟩

/-- Every cell designated by a folded pointer lies within ⌊L/2⌋ of the executing instruction,
    around the circular core. -/
theorem folded_pointer_is_near (p L M pc : Nat) (hL : 0 < L) (hLM : L ≤ M) (hpc : pc < M) :
    circDist M ((pc + fold p L M) % M) pc ≤ L / 2 :=
  fold_near p L M pc hL hLM hpc

/-- With a limit equal to the core size folding has no effect beyond reduction modulo M. -/
theorem full_limit_is_no_limit (p M : Nat) : fold p M M = p % M := fold_full p M

-- non-vacuity: M = 8000, L = 300, a pointer that folds backwards
example : fold 250 300 8000 = 7950 ∧ circDist 8000 ((10 + fold 250 300 8000) % 8000) 10 = 50 := by decide

end Gmars.Props.C11
