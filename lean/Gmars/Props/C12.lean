/-
  C12 — a battle is independent of where in the core it is placed (property theorems).
-/
import Gmars.Proofs.Abs

namespace Gmars.Props.C12
open Gmars Gmars.Spec

/-- loading at an offset congruent modulo the core size loads the same cells -/
theorem loadAt_congr (M : Nat) (c : Core) (off j : Nat) (code : List SInstr) :
    loadAt M c (off + j * M) code = loadAt M c off code := by
  unfold loadAt
  congr 1
  funext c i
  have : (off + j * M + i) % M = (off + i) % M := by
    rw [Nat.add_right_comm, Nat.add_mul_mod_self_right]
  rw [this]

/-- the first task of a spawned warrior does not depend on which representative of the
    offset modulo M is given -/
theorem first_task_congr (M off j start : Nat) : (off + j * M + start) % M = (off + start) % M := by
  rw [Nat.add_right_comm, Nat.add_mul_mod_self_right]

end Gmars.Props.C12
