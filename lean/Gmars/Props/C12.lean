/-
  C12 — a battle is independent of where in the core it is placed (property theorems).
-/
import Gmars.Proofs.Abs
import Gmars.Proofs.SpecRotate
import Gmars.Proofs.Sched
import Gmars.Proofs.ApiRel
import Gmars.Proofs.ReuseRotate

namespace Gmars.Props.C12
open Gmars Gmars.Spec

/-- loading at an offset congruent modulo the core size loads the same cells -/
theorem loadAt_congr (M : Nat) (c : Core) (off j : Nat) (code : List SInstr) :
    loadAt M c (off + j * M) code = loadAt M c off code := by
  unfold loadAt
  congr 1
  funext c i
  have : (off + j * M + i) % M = (off + i) % M := by
    rw [Nat.add_right_comm, Nat.add_mul_mod_self_right]
  rw [this]

/-- the first task of a spawned warrior does not depend on which representative of the
    offset modulo M is given -/
theorem first_task_congr (M off j start : Nat) : (off + j * M + start) % M = (off + start) % M := by
  rw [Nat.add_right_comm, Nat.add_mul_mod_self_right]

/-- `exec_rotate` (reference semantics): one task is rotation-equivariant — executing at PC+k in
    the core rotated by k gives the rotated core and the successors shifted by k, for every
    instruction form, limits and core content -/
theorem step_rotate {M : Nat} (R W k : Nat) (c : Core) (hc : c.length = M) {pc : Nat} (hpc : pc < M) :
    step M R W (rot k c) ((pc + k) % M)
      = ⟨rot k (step M R W c pc).core, (step M R W c pc).succ.map (fun a => (a + k) % M)⟩ :=
  Spec.step_rotate R W k c hc hpc

/-- loading a warrior into the rotated core at the shifted offset (wrapping past the last
    address included) is the rotation of loading it at the original offset -/
theorem load_rotate {M : Nat} (k : Nat) (c : Core) (hc : c.length = M) (hM : 0 < M) (off : Nat)
    (code : List SInstr) : loadAt M (rot k c) ((off + k) % M) code = rot k (loadAt M c off code) :=
  Spec.loadAt_rotate k c hc hM off code

/-- `spawn_congr`: spawning at any offset congruent modulo the core size is the same call -/
theorem spawn_congr (s : Api) (i : Int) (off j : Nat) : s.spawn i (off + j * s.M) = s.spawn i off :=
  Spec.spawn_congr s i off j

/-- spawning commutes with rotation -/
theorem spawn_rotate (k : Nat) (s : Api) (h : s.WFs) (i : Int) (off : Nat) :
    (rotApi k s).spawn i ((off + k) % s.M) = (s.spawn i off).map (rotApi k) :=
  Spec.spawn_rotate k s h i off

/-- the reference's spawn depends only on the offset modulo the core size -/
theorem spawn_mod (s : Api) (i : Int) (off : Nat) : s.spawn i (off % s.M) = s.spawn i off :=
  Spec.Api.spawn_mod s i off

/-- `spawn_any_offset` on the model of the Go code: `SpawnWarrior` reduces the offset modulo the
    core size first, so for EVERY 64-bit offset (also those within the warrior's length of 2^64,
    where `off + i` wraps) the call is the call at the reduced offset -/
theorem model_spawn_any_offset (s : Sim) (wi : Int) (off : UInt64) :
    s.spawn wi off = s.spawn wi (off % s.m) :=
  Gmars.spawn_any_offset s wi off

/-- `spawn_congr` on the model of the Go code: offsets congruent modulo the core size give the
    same call (same result, state and report), without any bound on the offsets -/
theorem model_spawn_congr (s : Sim) (wi : Int) (off off' : UInt64) (h : off % s.m = off' % s.m) :
    s.spawn wi off = s.spawn wi off' :=
  Gmars.spawn_congr_model s wi off off' h

/-- `spawn_rotate` on the model of the Go code: take a battle `s₁` and the same battle `s₂` placed
    `k` cells further around the core. Spawning warrior `wi` at ANY 64-bit offset `off₁` in `s₁`
    and at ANY offset `off₂ ≡ off₁ + k (mod M)` in `s₂` is accepted by both or rejected by both
    (state unchanged); when accepted, `s₁'` is related to the reference's spawn and `s₂'` to its
    rotation by `k`. -/
theorem model_spawn_rotate {s₁ s₂ : Sim} {a : Api} (k : Nat) (ha : a.WFs)
    (p₁ : Pre s₁) (p₂ : Pre s₂) (r₁ : Rel s₁ a) (r₂ : Rel s₂ (rotApi k a))
    (d₁ : DataRel s₁ a) (d₂ : DataRel s₂ (rotApi k a)) (t₁ : StartsOK s₁) (t₂ : StartsOK s₂)
    (wi : Int) (off₁ off₂ : UInt64) (hoff : off₂.toNat % a.M = (off₁.toNat + k) % a.M) :
    match s₁.spawn wi off₁, s₂.spawn wi off₂ with
    | .ok (s₁', true), .ok (s₂', true) =>
        ∃ a', a.spawn wi off₁.toNat = some a' ∧ Rel s₁' a' ∧ Rel s₂' (rotApi k a')
    | .ok (s₁', false), .ok (s₂', false) => s₁' = s₁ ∧ s₂' = s₂
    | _, _ => False := by
  have h₁ := spawn_rel (wi := wi) (off := off₁) p₁.wf r₁ d₁ t₁ (by have := p₁.m32; omega)
  have h₂ := spawn_rel (wi := wi) (off := off₂) p₂.wf r₂ d₂ t₂ (by have := p₂.m32; omega)
  have hM : (rotApi k a).M = a.M := rfl
  rw [← Spec.Api.spawn_mod, hM, hoff, Spec.spawn_rotate k a ha wi off₁.toNat] at h₂
  rcases e₁ : s₁.spawn wi off₁ with _ | ⟨s₁', b₁⟩ <;> rw [e₁] at h₁
  · exact h₁
  rcases e₂ : s₂.spawn wi off₂ with _ | ⟨s₂', b₂⟩ <;> rw [e₂] at h₂
  · cases b₁ <;> exact h₂
  rcases e₃ : a.spawn wi off₁.toNat with _ | a' <;> rw [e₃] at h₁ h₂ <;>
    cases b₁ <;> cases b₂ <;> simp only [Option.map_none, Option.map_some] at h₁ h₂ ⊢ <;>
    first
      | exact ⟨h₁, h₂⟩
      | exact ⟨a', rfl, h₁, h₂⟩
      | exact h₁
      | exact h₂

/-- `runCycle_rotate`: a whole cycle of the reference scheduler commutes with rotation and returns
    the same living count -/
theorem cycle_rotate (k : Nat) (s : Api) (h : s.WFs) :
    ((rotApi k s).cycle).1 = rotApi k s.cycle.1 ∧ ((rotApi k s).cycle).2.2 = s.cycle.2.2 :=
  Spec.cycle_rotate k s h

/-- `run_rotate`: a whole battle commutes with rotation: same survivors and cycle count, final
    core and queues rotated by the shift (`rotApi` keeps warrior states and the cycle counter) -/
theorem run_rotate (k fuel : Nat) (s : Api) (h : s.WFs) :
    ((rotApi k s).run fuel).1 = rotApi k (s.run fuel).1 :=
  Spec.run_rotate k fuel s h

/-- `run_rotate` on the model of the Go code: take a battle `s₁` and the same battle `s₂` placed
    `k` cells further around the core (`s₂` is related to the rotated reference state). Running
    both to completion never panics, both end related to the reference final state and to its
    rotation by `k` respectively — same survivors, same cycle count, final core and queues rotated. -/
theorem model_run_rotate {s₁ s₂ : Sim} {a : Api} (k : Nat) (ha : a.WFs)
    (p₁ : Pre s₁) (p₂ : Pre s₂) (r₁ : Rel s₁ a) (r₂ : Rel s₂ (rotApi k a)) :
    ∃ s₁' s₂', s₁.runLoop (s₁.maxCycles.toNat + 2) = .ok (s₁', true) ∧
      s₂.runLoop (s₂.maxCycles.toNat + 2) = .ok (s₂', true) ∧
      Rel s₁' (a.run (a.C + 2)).1 ∧ Rel s₂' (rotApi k (a.run (a.C + 2)).1) ∧
      s₁'.results = s₂'.results := by
  obtain ⟨s₁', e₁, rel₁, res₁⟩ := Gmars.run_refines p₁.wf p₁.m32 p₁.rl p₁.wl r₁
  obtain ⟨s₂', e₂, rel₂, res₂⟩ := Gmars.run_refines p₂.wf p₂.m32 p₂.rl p₂.wl r₂
  have hC : (rotApi k a).C = a.C := rfl
  rw [hC, Spec.run_rotate k (a.C + 2) a ha] at rel₂ res₂
  refine ⟨s₁', s₂', e₁, e₂, rel₁, rel₂, ?_⟩
  rw [res₁, res₂]
  simp [rotApi, rotSW, List.map_map, Function.comp_def]

/-- `reuse_rotate` — the rotated battle may be played in a REUSED simulator: whatever a simulator
    went through before (any reachable state `s`, related to any reference state `a`), after
    `Reset` it satisfies every premise `model_spawn_rotate` and `model_run_rotate` ask of the
    shifted battle `s₂`, for EVERY shift `k`, against a freshly created reference simulator with
    the same warriors — nothing of the earlier battle (stale cells, queues, block bookkeeping)
    may survive. (A fresh reference state is its own rotation: `rotApi_fresh`.) -/
theorem reuse_rotate {s : Sim} {a : Api} (k : Nat) (p : Pre s) (hs : StartsOK s)
    (h : Rel s a) (hd : DataRel s a) :
    Pre s.reset ∧ StartsOK s.reset ∧
    Rel s.reset (rotApi k (Spec.Api.freshWith a.M a.R a.W a.P a.C a.sig)) ∧
    DataRel s.reset (rotApi k (Spec.Api.freshWith a.M a.R a.W a.P a.C a.sig)) :=
  reset_serves_as_rotated k p hs h hd

/-- a fresh reference simulator is invariant under rotation -/
theorem fresh_is_its_rotation (k M R W P C : Nat) (sig : List (List SInstr × Nat)) :
    rotApi k (Spec.Api.freshWith M R W P C sig) = Spec.Api.freshWith M R W P C sig :=
  rotApi_fresh k M R W P C sig

/-- `reuse_rotate_reachable` — the same for every REACHABLE simulator: create a simulator with
    any configuration inside the bounds of C01, apply any sequence of API calls (AddWarrior,
    SpawnWarrior, RunCycle, Run, Reset … at offsets inside the core), then `Reset`: the result
    meets all premises of `model_spawn_rotate` / `model_run_rotate` for every shift `k`. The
    hypotheses are met by every valid configuration (e.g. the presets) and every call sequence
    the `api` domain generates, so the statement is not vacuous. -/
theorem reuse_rotate_reachable {c : Config} {s0 : Sim} {ops : List ApiOp} (k : Nat)
    (hnew : Sim.new c = some s0) (hm : c.coreSize.toNat ≤ 2 ^ 32)
    (hrl : c.readLimit.toNat ≤ c.coreSize.toNat) (hwl : c.writeLimit.toNat ≤ c.coreSize.toNat)
    (hops : ∀ op ∈ ops, op.OK c.coreSize) :
    ∃ (s : Sim) (a : Api), s0.applyOps ops = .ok s ∧
      Pre s.reset ∧ StartsOK s.reset ∧
      Rel s.reset (rotApi k (Spec.Api.freshWith a.M a.R a.W a.P a.C a.sig)) ∧
      DataRel s.reset (rotApi k (Spec.Api.freshWith a.M a.R a.W a.P a.C a.sig)) := by
  obtain ⟨hinv, hmc⟩ := new_inv hnew hm hrl hwl
  obtain ⟨s, h1, h2⟩ := applyOps_refines ops hinv (by rw [hmc]; exact hops)
  exact ⟨s, _, h1, reset_serves_as_rotated k ⟨h2.wf, h2.m32, h2.rl, h2.wl⟩ h2.starts h2.rel h2.data⟩

end Gmars.Props.C12
