/-
  C13 — any sequence of API calls behaves like the documented state machine (property theorems).
-/
import Gmars.Proofs.Abs
import Gmars.Proofs.ApiWF
import Gmars.Proofs.ApiRel

namespace Gmars.Props.C13
open Gmars

/-- an unknown warrior index (negative, or at/after the count) is rejected by SpawnWarrior
    without touching the state and without panicking -/
theorem spawn_bad_index (s : Sim) (wi : Int) (off : UInt64) (h : wi < 0 ∨ wi ≥ s.warriorCount) :
    s.spawn wi off = .ok (s, false) := by
  unfold Sim.spawn
  rcases h with h | h <;> simp [h]

/-- GetWarrior never panics when the warrior count is the table size; it returns nil exactly
    for indices outside [0, count) -/
theorem getWarrior_total (s : Sim) (i : Int) (hc : s.warriorCount = Int.ofNat s.warriors.size) :
    s.getWarrior i = .ok (if i < 0 ∨ i ≥ s.warriorCount then none else some i.toNat) := by
  unfold Sim.getWarrior
  by_cases h : i < 0 ∨ i ≥ s.warriorCount
  · rcases h with h | h <;> simp [h]
  · have h1 : ¬ i < 0 := fun x => h (Or.inl x)
    have h2 : ¬ i ≥ s.warriorCount := fun x => h (Or.inr x)
    have : i.toNat < s.warriors.size := by
      rw [hc] at h2
      have h3 : i < (s.warriors.size : Int) := by simpa using h2
      omega
    simp [h1, h2, this]

/-- asking a never-spawned warrior for its next task is an error value, not a panic;
    its queue reads as empty -/
theorem never_spawned_queries (w : Warrior) (h : w.pq = none) :
    w.nextPC = .ok none ∧ w.queue = .ok [] := by
  simp [Warrior.nextPC, Warrior.queue, h]

/-- stepping a finished battle does nothing and returns 0 -/
theorem runCycle_finished (s : Sim) (h : s.finished = true) : s.runCycle = .ok (s, 0) := by
  simp [Sim.runCycle, h]

/-- running a finished, empty or never-started battle returns at once, state unchanged -/
theorem run_finished (s : Sim) (fuel : Nat) (h : s.finished = true) : s.runLoop (fuel + 1) = .ok (s, true) := by
  simp [Sim.runLoop, h]

/-- `api_no_panic`: no sequence of add / spawn (any index, any offset) / RunCycle / Run / Reset
    calls panics, from any accepted configuration; the invariant holds after every call -/
theorem api_no_panic {c : Config} {s0 : Sim} {ops : List ApiOp} (hv : c.validate = true)
    (hnew : Sim.new c = some s0)
    (hops : ∀ op ∈ ops, match op with
      | .add d => ∀ x ∈ d.code.toList, x.a < c.coreSize ∧ x.b < c.coreSize
      | _ => True) :
    ∃ s, s0.applyOps ops = .ok s ∧ s.WF :=
  let ⟨s, h, hwf, _⟩ := Gmars.wf_reachable hv hnew hops
  ⟨s, h, hwf⟩

/-- `Run()` always returns (the loop needs at most maxCycles+2 iterations) and ends in a
    finished battle — including on an empty, never-started or already finished one -/
theorem run_returns {s : Sim} (hwf : s.WF) (hc : s.CodeOK) :
    ∃ s', s.runLoop (s.maxCycles.toNat + 2) = .ok (s', true) ∧ s'.WF ∧ s'.finished = true :=
  let ⟨s', h, hwf', _, hf⟩ := run_terminates_wf hwf hc
  ⟨s', h, hwf', hf⟩

/-- SpawnWarrior never panics, whatever index and offset -/
theorem spawn_total {s : Sim} {wi : Int} {off : UInt64} (hwf : s.WF) (hc : s.CodeOK) :
    ∃ s' b, s.spawn wi off = .ok (s', b) ∧ s'.WF :=
  let ⟨s', b, h, hwf', _⟩ := spawn_wf (wi := wi) (off := off) hwf hc
  ⟨s', b, h, hwf'⟩

/-- Reset keeps the invariant: cleared core, zero counters, every warrior back to `added` -/
theorem reset_sound {s : Sim} (hwf : s.WF) (hc : s.CodeOK) : s.reset.WF ∧ s.reset.living = 0 ∧
    s.reset.cycleCount = 0 :=
  ⟨(reset_wf hwf hc).1, rfl, rfl⟩

/-- `api_refines` — THE theorem of C13. From any accepted configuration (core ≤ 2^32 cells,
    limits ≤ core) and for EVERY sequence of AddWarrior / SpawnWarrior(any index, ANY 64-bit
    offset) / RunCycle / Run / Reset calls: no call panics, Run always returns, and after the
    whole sequence the simulator is in the state the documented reference state machine `Spec.Api`
    reaches by the same calls (`Rel`: same core, cycle count, warrior states, queues of started
    warriors); calls the reference rejects (unknown index, already running warrior) leave the
    state unchanged, finished / empty / never-started battles are no-ops. -/
theorem api_refines {c : Config} {s0 : Sim} {ops : List ApiOp} (hnew : Sim.new c = some s0)
    (hm : c.coreSize.toNat ≤ 2 ^ 32) (hrl : c.readLimit.toNat ≤ c.coreSize.toNat)
    (hwl : c.writeLimit.toNat ≤ c.coreSize.toNat) (hops : ∀ op ∈ ops, op.OK c.coreSize) :
    ∃ s, s0.applyOps ops = .ok s ∧ s.WF ∧
      Rel s (ops.foldl Spec.Api.applyOp (Spec.Api.new c.coreSize.toNat c.readLimit.toNat
        c.writeLimit.toNat c.processes.toNat c.cycles.toNat)) :=
  Gmars.api_refines hnew hm hrl hwl hops

/-- SpawnWarrior is accepted by the model exactly when the reference accepts it (then the states
    stay related: code loaded with wrap-around, fresh queue holding (offset + start) mod M, warrior
    alive); a rejected call leaves the state unchanged. For EVERY 64-bit offset (the call reduces
    it modulo the core size first); the core has at most 2^63 cells (`StartsOK`: start offsets
    not negative, start offsets and code lengths below 2^63). -/
theorem spawn_refines {s : Sim} {a : Spec.Api} {wi : Int} {off : UInt64} (hwf : s.WF) (hr : Rel s a)
    (hd : DataRel s a) (hs : StartsOK s) (hm : s.m.toNat ≤ 2 ^ 63) :
    match s.spawn wi off, a.spawn wi off.toNat with
    | .ok (s', true), some a' => Rel s' a'
    | .ok (s', false), none => s' = s
    | _, _ => False :=
  spawn_rel hwf hr hd hs hm

/-- `spawn_any_offset` — SpawnWarrior depends only on the offset modulo the core size: for EVERY
    64-bit offset the call is the call at the reduced offset (same result, state and report; no
    hypothesis), ... -/
theorem spawn_any_offset (s : Sim) (wi : Int) (off : UInt64) :
    s.spawn wi off = s.spawn wi (off % s.m) :=
  Gmars.spawn_any_offset s wi off

/-- ... and hence it is the reference's spawn at `off mod M` -/
theorem spawn_any_offset_ref {s : Sim} {a : Spec.Api} {wi : Int} {off : UInt64} (hwf : s.WF)
    (hr : Rel s a) (hd : DataRel s a) (hs : StartsOK s) (hm : s.m.toNat ≤ 2 ^ 63) :
    match s.spawn wi off, a.spawn wi (off.toNat % a.M) with
    | .ok (s', true), some a' => Rel s' a'
    | .ok (s', false), none => s' = s
    | _, _ => False :=
  Gmars.spawn_any_offset_ref hwf hr hd hs hm

/-- the reference's spawn depends only on the offset modulo the core size -/
theorem ref_spawn_mod (a : Spec.Api) (wi : Int) (off : Nat) :
    a.spawn wi (off % a.M) = a.spawn wi off :=
  Spec.Api.spawn_mod a wi off

/-- `reset_fresh` — after Reset the simulator is related to a FRESHLY created reference simulator
    to which the same warriors have been added (none spawned, zero cycles, empty core); only the
    reference's bookkeeping of stale queues is forgotten (`erase`) -/
theorem reset_fresh {s : Sim} {a : Spec.Api} (h : Rel s a) (hd : DataRel s a) :
    ∃ a0, a0 = Spec.Api.freshWith a.M a.R a.W a.P a.C a.sig ∧ Rel s.reset a0 ∧ DataRel s.reset a0 ∧
      a.reset.erase = a0 :=
  Gmars.reset_fresh h hd

example : (Sim.new (Config.quick .icws94 8 2 5 1)).map (·.finished) = some true := by decide

end Gmars.Props.C13
