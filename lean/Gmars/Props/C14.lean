/-
  C14 — simulators and assemblies are isolated, repeatable and safe to use concurrently
  (property theorems).
-/
import Gmars.Gen.Facts
import Gmars.Proofs.Interleave
import Gmars.Proofs.MapOrder
import Gmars.Model.Sim
import Gmars.Proofs.Abs
import Gmars.Model.Expr

namespace Gmars.Props.C14
open Gmars

/-- `jobs_independent` — for jobs that only ever step their own state (no shared mutable state),
    EVERY interleaving of their steps, on any number of threads, leaves each job in exactly the
    state it reaches when run alone: the result depends only on the job's own steps -/
theorem jobs_independent {ι σ : Type} [DecidableEq ι] (step : ι → σ → σ) (init : ι → σ)
    (sched : List ι) (i : ι) :
    Interleave.runSched step init sched i = Interleave.iter (step i) (sched.count i) (init i) :=
  Interleave.jobs_independent step init sched i

/-- `facts_ok` — the premise of `jobs_independent` for THIS code base, re-extracted from the Go
    sources on every run: no package-level variable of package gmars is written after
    initialisation (the presets are read-only), the package imports none of sync / unsafe / time /
    os / math/rand, and the only goroutines it starts are the two token producers, each on its own
    per-instance channel -/
theorem facts_ok : Gen.allGood = true := Gen.facts_ok

/-! ### copy isolation (`WarriorData.Copy` in `addWarrior`) in a heap of code slices -/

/-- a heap of slices; a reference is an index -/
abbrev Heap := List (Array Instr)

/-- `data.Copy()`: allocate a fresh slice with the same contents -/
def copySlice (h : Heap) (ref : Nat) : Heap × Nat := (h ++ [h.getD ref #[]], h.length)

/-- a write through a reference -/
def writeSlice (h : Heap) (ref i : Nat) (v : Instr) : Heap :=
  h.set ref ((h.getD ref #[]).setIfInBounds i v)

/-- `copy_isolated` — after AddWarrior has copied the caller's code, no write through the caller's
    reference changes the simulator's copy, and no write to the copy changes the caller's data -/
theorem copy_isolated (h : Heap) (ref i : Nat) (v : Instr) (hr : ref < h.length) :
    let (h1, cp) := copySlice h ref
    (writeSlice h1 ref i v).getD cp #[] = h1.getD cp #[] ∧
    (writeSlice h1 cp i v).getD ref #[] = h1.getD ref #[] ∧
    h1.getD cp #[] = h.getD ref #[] := by
  simp only [copySlice, writeSlice]
  have hne : ref ≠ h.length := by omega
  refine ⟨?_, ?_, ?_⟩
  · simp [List.getD, List.getElem?_set, hne]
  · simp [List.getD, List.getElem?_set, List.getElem?_append_left hr]
  · simp [List.getD]

/-- `assemble_order_independent` (1): whether the EQU table is cyclic does not depend on the
    order in which Go happens to iterate over the symbol map -/
theorem cycle_check_order_independent {values values' : SymTab} (hp : values'.Perm values)
    (hnd : (values.map (·.1)).Nodup) :
    graphContainsCycle (buildReferenceGraph values') = graphContainsCycle (buildReferenceGraph values) :=
  MapOrder.cycle_perm hp hnd

/-- `assemble_order_independent` (2): on an acyclic table the resolved value of EVERY symbol is
    the same whatever the iteration order of the four map ranges of the assembler -/
theorem expansion_order_independent {values values' : SymTab} (hp : values'.Perm values)
    (hnd : (values.map (·.1)).Nodup)
    (hc : graphContainsCycle (buildReferenceGraph values) = false) :
    ∃ res res', expandExpressions values (buildReferenceGraph values) = some res ∧
      expandExpressions values' (buildReferenceGraph values') = some res' ∧
      ∀ k, res'.get? k = res.get? k :=
  MapOrder.expand_perm hp hnd hc

/-- `assemble_order_independent` (3): FOR counts evaluate to the same value in every order -/
theorem for_count_order_independent {values values' : SymTab} (hp : values'.Perm values)
    (hnd : (values.map (·.1)).Nodup) (expr : List Token) :
    expandAndEvaluate expr values' = expandAndEvaluate expr values :=
  MapOrder.expandAndEvaluate_perm hp hnd expr

/-- `assemble_order_independent` (4): the parser's undefined-symbol check gives the same verdict
    in every order (only the symbol named in the message differs) -/
theorem symbol_check_order_independent {p p' : Parser.PState} (hr : p'.references.Perm p.references)
    (hs : p'.symbols.Perm p.symbols) : Parser.symbolsValid p' = Parser.symbolsValid p :=
  MapOrder.symbolsValid_perm hr hs

/-
  Partial: data-race freedom under the Go memory model and the scheduler's interleavings are
  runtime behaviour no Lean model exhibits; the `conc` correspondence domain runs the jobs on
  1…32 goroutines under the race detector and compares every result with the sequential one.
-/

end Gmars.Props.C14
