/-
  C15 — reports tell listeners about every change, at valid addresses (property theorems).
-/
import Gmars.Proofs.Abs

namespace Gmars.Props.C15
open Gmars

/-- a fresh recorder (and a recorder after SimReset) shows every address as empty, owner -1 -/
theorem reset_shows_empty (r : Recorder) (len : Int → Option Nat) :
    ∃ r', r.report len { typ := .simReset } = .ok r' ∧
      (∀ a < r.coresize.toNat, r'.state.getD a .executed = .empty ∧ r'.color.getD a 0 = -1) := by
  refine ⟨_, rfl, ?_⟩
  intro a ha
  simp [Recorder.new, Array.getD, ha]

/-- cycle-boundary reports do not change the recorder -/
theorem cycle_reports_ignored (r : Recorder) (len : Int → Option Nat) (cy : Int) :
    r.report len { typ := .cycleStart, cycle := cy } = .ok r ∧
    r.report len { typ := .cycleEnd, cycle := cy } = .ok r := by
  constructor <;> rfl

end Gmars.Props.C15
