/-
  C15 — reports tell listeners about every change, at valid addresses (property theorems).
-/
import Gmars.Proofs.Abs
import Gmars.Proofs.RecorderProofs

namespace Gmars.Props.C15
open Gmars

/-- a fresh recorder (and a recorder after SimReset) shows every address as empty, owner -1 -/
theorem reset_shows_empty (r : Recorder) (len : Int → Option Nat) :
    ∃ r', r.report len { typ := .simReset } = .ok r' ∧
      (∀ a < r.coresize.toNat, r'.state.getD a .executed = .empty ∧ r'.color.getD a 0 = -1) := by
  refine ⟨_, rfl, ?_⟩
  intro a ha
  simp [Recorder.new, Array.getD, ha]

/-- cycle-boundary reports do not change the recorder -/
theorem cycle_reports_ignored (r : Recorder) (len : Int → Option Nat) (cy : Int) :
    r.report len { typ := .cycleStart, cycle := cy } = .ok r ∧
    r.report len { typ := .cycleEnd, cycle := cy } = .ok r := by
  constructor <;> rfl

/-- `recorder_last_writer` + `recorder_no_panic`: fed a stream of reports whose addresses are
    inside the core (and whose spawn reports name existing warriors), the bundled state recorder
    never panics and shows, for every address, the kind and owner of the LAST operation that
    touched it (the last-writer fold `lastOp` of the stream). -/
theorem recorder_last_writer (r : Recorder) (len : Int → Option Nat) (rps : List Report)
    (h : r.Inv) (hpos : 0 < r.coresize.toNat)
    (hall : ∀ rp ∈ rps, rp.addr < r.coresize ∧
      (rp.typ = .warriorSpawn → ∃ n, len rp.wi = some n ∧ rp.addr.toNat + n ≤ 2 ^ 64)) :
    ∃ r', rps.foldlM (fun r rp => Recorder.report r len rp) r = .ok r' ∧ r'.Inv ∧
      r'.coresize = r.coresize ∧ r'.recordReads = r.recordReads ∧
      ∀ a < r.coresize.toNat,
        (r'.state.getD a .empty, r'.color.getD a (-1)) =
          rps.foldl (lastOp r.coresize.toNat len r.recordReads)
            (fun a => (r.state.getD a .empty, r.color.getD a (-1))) a :=
  Recorder.reports_ok r len rps h hpos hall

/-- `recorder_reset`: after a SimReset report every address shows (CoreEmpty, -1) -/
theorem recorder_reset (r : Recorder) (len : Int → Option Nat) (rp : Report) (h : rp.typ = .simReset) :
    ∃ r', r.report len rp = .ok r' ∧ ∀ a, r'.view a = (.empty, -1) := by
  obtain ⟨r', e, _, _, _, v⟩ := Recorder.reset_empty r len rp h
  exact ⟨r', e, v⟩

/-- a fresh recorder satisfies the hypotheses of `recorder_last_writer` -/
theorem recorder_new_inv (coresize : UInt64) : (Recorder.new coresize).Inv := Recorder.new_inv coresize

end Gmars.Props.C15
