/-
  C15 — reports tell listeners about every change, at valid addresses (property theorems).
-/
import Gmars.Proofs.Abs
import Gmars.Proofs.RecorderProofs
import Gmars.Proofs.Reports
import Gmars.Proofs.DebugLine

namespace Gmars.Props.C15
open Gmars

/-- a fresh recorder (and a recorder after SimReset) shows every address as empty, owner -1 -/
theorem reset_shows_empty (r : Recorder) (len : Int → Option Nat) :
    ∃ r', r.report len { typ := .simReset } = .ok r' ∧
      (∀ a < r.coresize.toNat, r'.state.getD a .executed = .empty ∧ r'.color.getD a 0 = -1) := by
  refine ⟨_, rfl, ?_⟩
  intro a ha
  simp [Recorder.new, Array.getD, ha]

/-- cycle-boundary reports do not change the recorder -/
theorem cycle_reports_ignored (r : Recorder) (len : Int → Option Nat) (cy : Int) :
    r.report len { typ := .cycleStart, cycle := cy } = .ok r ∧
    r.report len { typ := .cycleEnd, cycle := cy } = .ok r := by
  constructor <;> rfl

/-- `changes_reported` — every cell whose content changes during a task is named in a write,
    increment or decrement report of that task (all instruction forms, all core contents, any core
    size and limits) -/
theorem changes_reported (s s' : Sim) (pc : UInt64) (wi : Nat) (hex : s.exec pc wi = .ok s') :
    ∀ a (h1 : a < s.mem.size) (h2 : a < s'.mem.size), s'.mem[a] ≠ s.mem[a] → a ∈ execNamed s s' :=
  changes_reported' s s' pc wi hex

/-- nothing is reported as written / incremented / decremented that the reference semantics could
    not touch (`Spec.mayTouch`), so {changed} ⊆ {reported} ⊆ {may touch} -/
theorem reported_subset_mayTouch (s s' : Sim) (pc : UInt64) (wi : Nat) (q : PQ)
    (h : StepPre s pc wi q) (hex : s.exec pc wi = .ok s') :
    ∀ a ∈ execNamed s s',
      a ∈ Spec.mayTouch s.m.toNat s.readLimit.toNat s.writeLimit.toNat s.absCore pc.toNat :=
  named_subset_mayTouch s s' pc wi q h hex

/-- `terminate_iff` — a task-termination report is emitted exactly when the task queues no
    successor, and it names the executed cell and the executing warrior -/
theorem terminate_iff (s s' : Sim) (pc : UInt64) (wi : Nat) (q : PQ)
    (h : StepPre s pc wi q) (hex : s.exec pc wi = .ok s') :
    ((∃ r ∈ execNew s s', r.typ = .taskTerminate) ↔
      (Spec.step s.m.toNat s.readLimit.toNat s.writeLimit.toNat s.absCore pc.toNat).succ = []) ∧
    (∀ r ∈ execNew s s', r.typ = .taskTerminate → r = rep .taskTerminate wi pc) :=
  Gmars.terminate_iff s s' pc wi q h hex

/-- `report_addresses_valid` — every report a task emits carries an address below the core size
    and the index of the executing warrior -/
theorem report_addresses_valid (s : Sim) (pc : UInt64) (wi : Nat) (q : PQ) (hwf : s.WF)
    (hpc : pc < s.m) (hq : s.pqOf wi = some q) :
    ∃ s', s.exec pc wi = .ok s' ∧
      ∀ r, r ∈ s'.log.toList.drop s.log.size → r.addr < s.m ∧ r.wi = Int.ofNat wi := by
  obtain ⟨s', _, he, _, _, _, _, _, _, _, hr⟩ := exec_wf s pc wi q hwf hpc hq
  exact ⟨s', he, hr⟩

/-- `recorder_last_writer` + `recorder_no_panic`: fed a stream of reports whose addresses are
    inside the core (and whose spawn reports name existing warriors), the bundled state recorder
    never panics and shows, for every address, the kind and owner of the LAST operation that
    touched it (the last-writer fold `lastOp` of the stream). -/
theorem recorder_last_writer (r : Recorder) (len : Int → Option Nat) (rps : List Report)
    (h : r.Inv) (hpos : 0 < r.coresize.toNat)
    (hall : ∀ rp ∈ rps, rp.addr < r.coresize ∧
      (rp.typ = .warriorSpawn → ∃ n, len rp.wi = some n ∧ rp.addr.toNat + n ≤ 2 ^ 64)) :
    ∃ r', rps.foldlM (fun r rp => Recorder.report r len rp) r = .ok r' ∧ r'.Inv ∧
      r'.coresize = r.coresize ∧ r'.recordReads = r.recordReads ∧
      ∀ a < r.coresize.toNat,
        (r'.state.getD a .empty, r'.color.getD a (-1)) =
          rps.foldl (lastOp r.coresize.toNat len r.recordReads)
            (fun a => (r.state.getD a .empty, r.color.getD a (-1))) a :=
  Recorder.reports_ok r len rps h hpos hall

/-- `recorder_reset`: after a SimReset report every address shows (CoreEmpty, -1) -/
theorem recorder_reset (r : Recorder) (len : Int → Option Nat) (rp : Report) (h : rp.typ = .simReset) :
    ∃ r', r.report len rp = .ok r' ∧ ∀ a, r'.view a = (.empty, -1) := by
  obtain ⟨r', e, _, _, _, v⟩ := Recorder.reset_empty r len rp h
  exact ⟨r', e, v⟩

/-- a fresh recorder satisfies the hypotheses of `recorder_last_writer` -/
theorem recorder_new_inv (coresize : UInt64) : (Recorder.new coresize).Inv := Recorder.new_inv coresize


/-- `debug_trace_faithful` — the listener shipped with the package (`NewDebugReporter`) loses
    nothing: for every report that names a warrior and an address, the line it prints (model
    `debugLine`, tied by the `debug` domain) determines the report's type, warrior index and
    address; the other report (`r'`) is arbitrary, so no two different such reports, under any
    cycle counts and cells, print alike. -/
theorem debug_trace_faithful (r r' : Report) (c c' : Nat) (m : UInt64) (cell cell' : Instr)
    (ht : r.typ ≠ .simReset ∧ r.typ ≠ .cycleStart ∧ r.typ ≠ .cycleEnd)
    (h : debugLine r c m cell = debugLine r' c' m cell') :
    r.typ = r'.typ ∧ r.wi = r'.wi ∧ r.addr = r'.addr :=
  DebugLine.debugLine_faithful r r' c c' m cell cell' ht h

/-- an `Exec` line also determines the instruction that was executed (fields inside the core) -/
theorem debug_exec_cell (r r' : Report) (c c' : Nat) (m : UInt64) (cell cell' : Instr)
    (hp : r.typ = .taskPop) (hi : cell.a < m ∧ cell.b < m) (hj : cell'.a < m ∧ cell'.b < m)
    (h : debugLine r c m cell = debugLine r' c' m cell') : cell = cell' :=
  DebugLine.debugLine_exec_cell r r' c c' m cell cell' hp hi hj h

-- a concrete line: warrior 1 increments cell 7
example : String.ofList (debugLine { typ := .increment, wi := 1, addr := 7 } 0 8000 default) =
    "W01 0007: Increment\n" := by decide

end Gmars.Props.C15
