/-
  C16 — the printed load listing denotes the warrior it was printed from (property theorems).
-/
import Gmars.Model.Listing
import Gmars.Proofs.CliList
import Gmars.Spec.LoadText
import Gmars.Proofs.RoundTrip
import Gmars.Proofs.ListingP
import Gmars.Proofs.InstrString

namespace Gmars.Props.C16
open Gmars

/-- the signed rendering of a field denotes the field modulo the core size
    (threshold m/2: `M/2` prints positive, `M/2+1` negative) -/
theorem addressSigned_congr (m a : UInt64) (ha : a < m) :
    (addressSigned m a) % (m.toNat : Int) = (a.toNat : Int) % (m.toNat : Int) := by
  unfold addressSigned
  have h : a.toNat < m.toNat := UInt64.lt_iff_toNat_lt.mp ha
  split
  · have : (-((m.toNat : Int) - (a.toNat : Int))) = (a.toNat : Int) + (-1) * (m.toNat : Int) := by omega
    rw [this, Int.add_mul_emod_self_right]
  · rfl

/-- the signed rendering stays within (-M/2, M/2] -/
theorem addressSigned_range (m a : UInt64) (ha : a < m) :
    -((m.toNat : Int)) < 2 * addressSigned m a ∧ 2 * addressSigned m a ≤ (m.toNat : Int) + 1 := by
  unfold addressSigned
  have h : a.toNat < m.toNat := UInt64.lt_iff_toNat_lt.mp ha
  have h2 : (2 : UInt64).toNat = 2 := rfl
  split
  · rename_i hgt
    simp only [GT.gt, UInt64.lt_iff_toNat_lt, UInt64.toNat_div, h2] at hgt
    omega
  · rename_i hgt
    simp only [GT.gt, UInt64.lt_iff_toNat_lt, UInt64.toNat_div, h2, Nat.not_lt] at hgt
    omega

/-- `listing_roundtrip` — THE theorem of C16. For every core size, every warrior with an entry
    point inside its code (every instruction form; in the '88 dialect every legal '88 instruction),
    the text `LoadCode()` prints — ORG START / END START, the START label, the Sprintf columns,
    signed fields — read back with the pMARS listing conventions (`Spec.readText`) denotes exactly
    the warrior's instructions and entry point, fields compared modulo the core size. -/
theorem listing_roundtrip (m : UInt64) (legacy : Bool) (w : WarriorData)
    (hs : 0 ≤ w.start) (hlt : w.start < w.code.size)
    (hl : legacy = true → ∀ i ∈ w.code.toList, Spec.Legal88 i = true) :
    ∃ t, Spec.readText (loadCode m legacy w) = some t ∧
      Spec.denotes m.toNat t w.code.toList w.start = true :=
  RoundTrip.listing_roundtrip_gen m legacy w hs hlt hl

-- boundary cases of the sign threshold
example : addressSigned 8000 4000 = 4000 ∧ addressSigned 8000 4001 = -3999 ∧ addressSigned 8000 7999 = -1 := by decide

open Cli in
/-- `cli_A_roundtrip` — the text behind the -A option, end to end: whenever the model of
    `gmars -A <flags> <files>` prints something, it is, for each file in order, the listing of the
    warrior the assembler produced under the configuration the flags describe (a preset overrides
    the other flags) followed by one newline, and each listing, read back with the pMARS listing
    conventions, denotes exactly that warrior — instructions and entry point. No hypothesis is left
    to the caller. (`cliAssembleOutput` is validated against the built command on 120 000 runs and
    tied on every run by the `clilist` domain.) -/
theorem cli_A_roundtrip {fl : Flags} {files : List (List UInt8)} {out : String}
    (h : cliAssembleOutput fl files = some out) :
    ∃ (cfg : Config) (ws : List WarriorData),
      config fl = some cfg ∧ cfg.validate = true ∧ cfg.coreSize.toNat < 2 ^ 63 ∧
      ws.length = files.length ∧ 1 ≤ files.length ∧ files.length ≤ 2 ∧
      (∀ p ∈ files.zip ws, assemble cfg p.1 = .ok p.2) ∧
      out = String.ofList ((ws.map (fun w => listingOf cfg w ++ ['\n'])).flatten) ∧
      ∀ w ∈ ws, ∃ t, Spec.readText (listingOf cfg w) = some t ∧
        Spec.denotes cfg.coreSize.toNat t w.code.toList w.start = true :=
  Cli.cli_A_roundtrip h

/-- `pmars_listing_roundtrip` — the second listing printer, `LoadCodePMARS()`: its text is the
    header line `Program "<name>" (length <n>) by "<author>"`, an empty line, the `LoadCode()`
    listing and one more newline (`ListingP.pmars_body`); with the header removed it reads back,
    by the same pMARS conventions, to exactly the warrior it was printed from — for every name
    and author, every core size, both dialects. -/
theorem pmars_listing_roundtrip (m : UInt64) (legacy : Bool) (name author : GoStr.Str) (w : WarriorData)
    (hs : 0 ≤ w.start) (hlt : w.start < w.code.size)
    (hl : legacy = true → ∀ i ∈ w.code.toList, Spec.Legal88 i = true) :
    ∃ t, Spec.readText ((loadCodePMARS m legacy name author w).drop
        (pmarsHeader name author w.code.size).length) = some t ∧
      Spec.denotes m.toNat t w.code.toList w.start = true :=
  ListingP.pmars_listing_roundtrip m legacy name author w hs hlt hl

/-- an empty warrior prints the header only -/
theorem pmars_empty (m : UInt64) (legacy : Bool) (name author : GoStr.Str) (w : WarriorData)
    (h : w.code.size = 0) :
    loadCodePMARS m legacy name author w = pmarsHeader name author w.code.size :=
  ListingP.pmars_empty m legacy name author w h

/-- Go's wrapping `int` arithmetic in `signedAddress` is the exact integer formula for every field
    inside the core, for every core size up to 2^64 - 1 -/
theorem signedAddressGo_exact (m a : UInt64) (ha : a < m) : signedAddressGo a m = addressSigned m a :=
  ListingP.signedAddressGo_eq m a ha

/-- the one-line renderings identify the instruction: `Instruction.String()` always … -/
theorem instrString_injective (i j : Instr) (h : instrString i = instrString j) : i = j :=
  InstrString.instrString_injective i j h

/-- … and `NormString(m)` for instructions whose fields lie inside the core (opcode, modifier,
    both modes and both fields can be read off the line a debug reporter prints) -/
theorem normString_injective (m : UInt64) (i j : Instr) (hi : i.a < m ∧ i.b < m)
    (hj : j.a < m ∧ j.b < m) (h : normString m i = normString m j) : i = j :=
  InstrString.normString_injective m i j hi hj h

/-- the hypothesis is tight: a field outside the core can print like one inside it
    (13 > 10/2 prints -(10 - 13) = 3) -/
theorem normString_collides_outside_core :
    normString 10 { (default : Instr) with a := 3 } = normString 10 { (default : Instr) with a := 13 } ∧
    ({ (default : Instr) with a := 3 } : Instr) ≠ { (default : Instr) with a := 13 } := by
  constructor
  · decide
  · decide

end Gmars.Props.C16
