/-
  C17 — the command-line tool reports the battles it was asked to run (property theorems).
-/
import Gmars.Model.Cli

namespace Gmars.Props.C17
open Gmars Gmars.Cli

/-- the counters after tallying a list of two-warrior rounds, starting from `t` -/
def tallyAll (t : Tally) (rs : List (Bool × Bool)) : Tally := rs.foldl (fun t r => t.add [r.1, r.2]) t

theorem tally_partition_from (t : Tally) (rs : List (Bool × Bool))
    (h : ∀ r ∈ rs, r ≠ (false, false)) :
    (tallyAll t rs).w1win + (tallyAll t rs).w2win + (tallyAll t rs).w1tie
        = t.w1win + t.w2win + t.w1tie + rs.length ∧
    ((tallyAll t rs).w1tie : Int) - (tallyAll t rs).w2tie = (t.w1tie : Int) - t.w2tie := by
  induction rs generalizing t with
  | nil => simp [tallyAll]
  | cons r rs ih =>
    have hr := h r (by simp)
    have hrs : ∀ x ∈ rs, x ≠ (false, false) := fun x hx => h x (by simp [hx])
    obtain ⟨a, b⟩ := r
    have := ih (t.add [a, b]) hrs
    simp only [tallyAll, List.foldl_cons, List.length_cons] at this ⊢
    cases a <;> cases b <;> simp_all [Tally.add] <;> omega

/-- `tally_partition` — over any number of rounds (any placement), each round in which somebody
    survives is counted exactly once: as a win for one side or as a tie for both -/
theorem tally_partition (rs : List (Bool × Bool)) (h : ∀ r ∈ rs, r ≠ (false, false)) :
    (tallyAll {} rs).w1win + (tallyAll {} rs).w2win + (tallyAll {} rs).w1tie = rs.length ∧
    (tallyAll {} rs).w1tie = (tallyAll {} rs).w2tie := by
  obtain ⟨h1, h2⟩ := tally_partition_from {} rs h
  constructor
  · simpa using h1
  · have h3 : ((tallyAll {} rs).w1tie : Int) - (tallyAll {} rs).w2tie = 0 := by simpa using h2
    omega

/-- `flags_to_config` — without a preset the flags -8 -s -p -c -l map to
    NewQuickConfig(mode, size, processes, cycles, length): limits = core size, distance = length -/
theorem flags_to_config (f : Flags) (h : f.preset = "") :
    config f = some {
      mode := if f.use88 then .icws88 else .icws94, coreSize := intToAddr f.size,
      processes := intToAddr f.procs, cycles := intToAddr f.cycles, readLimit := intToAddr f.size,
      writeLimit := intToAddr f.size, length := intToAddr f.len, distance := intToAddr f.len } := by
  simp [config, h, Config.quick]

/-- a preset overrides every other flag -/
theorem preset_overrides (f g : Flags) (h : f.preset = g.preset) (hp : f.preset ≠ "") : config f = config g := by
  simp [config, h ▸ hp, h]

example : (config { preset := "nop256" }).map (·.coreSize) = some 256 := by decide

end Gmars.Props.C17
