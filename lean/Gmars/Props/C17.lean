/-
  C17 — the command-line tool reports the battles it was asked to run (property theorems).
-/
import Gmars.Model.Cli
import Gmars.Proofs.Survivor

namespace Gmars.Props.C17
open Gmars Gmars.Cli

/-- the counters after tallying a list of two-warrior rounds, starting from `t` -/
def tallyAll (t : Tally) (rs : List (Bool × Bool)) : Tally := rs.foldl (fun t r => t.add [r.1, r.2]) t

theorem tally_partition_from (t : Tally) (rs : List (Bool × Bool))
    (h : ∀ r ∈ rs, r ≠ (false, false)) :
    (tallyAll t rs).w1win + (tallyAll t rs).w2win + (tallyAll t rs).w1tie
        = t.w1win + t.w2win + t.w1tie + rs.length ∧
    ((tallyAll t rs).w1tie : Int) - (tallyAll t rs).w2tie = (t.w1tie : Int) - t.w2tie := by
  induction rs generalizing t with
  | nil => simp [tallyAll]
  | cons r rs ih =>
    have hr := h r (by simp)
    have hrs : ∀ x ∈ rs, x ≠ (false, false) := fun x hx => h x (by simp [hx])
    obtain ⟨a, b⟩ := r
    have := ih (t.add [a, b]) hrs
    simp only [tallyAll, List.foldl_cons, List.length_cons] at this ⊢
    cases a <;> cases b <;> simp_all [Tally.add] <;> omega

/-- `tally_partition` — over any number of rounds (any placement), each round in which somebody
    survives is counted exactly once: as a win for one side or as a tie for both -/
theorem tally_partition (rs : List (Bool × Bool)) (h : ∀ r ∈ rs, r ≠ (false, false)) :
    (tallyAll {} rs).w1win + (tallyAll {} rs).w2win + (tallyAll {} rs).w1tie = rs.length ∧
    (tallyAll {} rs).w1tie = (tallyAll {} rs).w2tie := by
  obtain ⟨h1, h2⟩ := tally_partition_from {} rs h
  constructor
  · simpa using h1
  · have h3 : ((tallyAll {} rs).w1tie : Int) - (tallyAll {} rs).w2tie = 0 := by simpa using h2
    omega

/-- `tally_partition` for the tool itself: for every pair of warriors (fields below the core
    size, sane entry points), every configuration the flags can describe with core ≤ 2^32, and
    ANY list of placements of warrior #2 — so for every outcome of the random placement over any
    number of rounds — each round is counted exactly once: wins₁ + wins₂ + ties = rounds and
    ties₁ = ties₂ (a round never ends with both warriors dead: the battle stops at one survivor) -/
theorem cli_tally_partition {cfg : Config} {w1 w2 : WarriorData} {places : List UInt64}
    {t : Tally} (hpre : RoundPre cfg w1 w2)
    (h : battles cfg [w1, w2] places = some t) :
    t.w1win + t.w2win + t.w1tie = places.length ∧ t.w1tie = t.w2tie :=
  Gmars.cli_tally_partition hpre h

/-- `fixed_output` — one round of the tool at a fixed placement is the reference battle: create,
    add warrior 1, spawn it at 0, add warrior 2, spawn it at the placement, run to completion
    (`refBattle`, built from `Spec.Api` and `Spec.step` only); the survivors it tallies are the
    reference's survivors -/
theorem fixed_output {cfg : Config} {w1 w2 : WarriorData} {place : UInt64}
    (hv : cfg.validate = true) (hpre : RoundPre cfg w1 w2) :
    round cfg [w1, w2] place =
      (refBattle cfg w1 w2 place.toNat).map (fun a => a.ws.map (fun w => w.st == .alive)) ∧
    (refBattle cfg w1 w2 place.toNat).isSome = true :=
  Gmars.fixed_output hv hpre

/-- `flags_to_config` — without a preset the flags -8 -s -p -c -l map to
    NewQuickConfig(mode, size, processes, cycles, length): limits = core size, distance = length -/
theorem flags_to_config (f : Flags) (h : f.preset = "") :
    config f = some {
      mode := if f.use88 then .icws88 else .icws94, coreSize := intToAddr f.size,
      processes := intToAddr f.procs, cycles := intToAddr f.cycles, readLimit := intToAddr f.size,
      writeLimit := intToAddr f.size, length := intToAddr f.len, distance := intToAddr f.len } := by
  simp [config, h, Config.quick]

/-- a preset overrides every other flag -/
theorem preset_overrides (f g : Flags) (h : f.preset = g.preset) (hp : f.preset ≠ "") : config f = config g := by
  simp [config, h ▸ hp, h]

example : (config { preset := "nop256" }).map (·.coreSize) = some 256 := by decide

end Gmars.Props.C17
