/-
  Reference state machine for the simulator API (C02, C13): a MARS scheduler
  over `Spec.step`, list-of-FIFOs, with the documented life cycle
  added → alive → dead and the three stopping conditions.
-/
import Gmars.Spec.ICWS94

namespace Gmars.Spec

inductive WSt | added | alive | dead deriving DecidableEq, Repr, Inhabited

structure SW where
  code  : List SInstr
  start : Nat
  st    : WSt := .added
  q     : List Nat := []
  /-- the queue contents are unspecified (after `Reset`, before the next spawn) -/
  stale : Bool := false
  /-- has the warrior ever been spawned (before that `NextPC` is an error, `Queue` empty) -/
  spawned : Bool := false
  deriving Repr, Inhabited

structure Api where
  M : Nat
  R : Nat
  W : Nat
  P : Nat
  C : Nat
  core : Core
  ws : List SW := []
  cycles : Nat := 0
  deriving Repr, Inhabited

inductive Ev
  | exec (wi pc : Nat) (changed touch : List Nat)  -- task popped and executed; cells it changed / may touch
  | taskDied (wi pc : Nat)      -- the task queued no successor
  | warriorDied (wi pc : Nat)   -- the warrior's queue became empty
  deriving DecidableEq, Repr

def Api.new (M R W P C : Nat) : Api :=
  { M, R, W, P, C, core := List.replicate M default }

def Api.living (s : Api) : Nat := (s.ws.filter (·.st == .alive)).length

def Api.finished (s : Api) : Bool :=
  s.cycles ≥ s.C || s.living < 1 || (s.ws.length > 1 && s.living == 1)

def Api.add (s : Api) (code : List SInstr) (start : Nat) : Api :=
  { s with ws := s.ws ++ [{ code, start }] }

def loadAt (M : Nat) (c : Core) (off : Nat) (code : List SInstr) : Core :=
  (List.range code.length).foldl (fun c j => c.set ((off + j) % M) (code.getD j default)) c

/-- `none` = the call is rejected (error), state unchanged -/
def Api.spawn (s : Api) (i : Int) (off : Nat) : Option Api :=
  if i < 0 then none else
  match s.ws[i.toNat]? with
  | none => none
  | some w =>
    if w.st == .alive then none
    else
      let w' := { w with st := .alive, q := enqueue s.P [] [(off + w.start) % s.M],
                         stale := false, spawned := true }
      some { s with core := loadAt s.M s.core off w.code, ws := s.ws.set i.toNat w' }

/-- one warrior's turn within a cycle -/
def Api.turn (s : Api) (i : Nat) : Api × List Ev :=
  match s.ws[i]? with
  | none => (s, [])
  | some w =>
    if w.st != .alive then (s, []) else
    match w.q with
    | [] => ({ s with ws := s.ws.set i { w with st := .dead } }, [])  -- cannot happen
    | pc :: rest =>
      let r := step s.M s.R s.W s.core pc
      let q' := enqueue s.P rest r.succ
      let changed := (List.range s.M).filter (fun a => s.core.getD a default != r.core.getD a default)
      let evs := [Ev.exec i pc changed (mayTouch s.M s.R s.W s.core pc)] ++
                 (if r.succ.isEmpty then [Ev.taskDied i pc] else [])
      if q'.isEmpty then
        ({ s with core := r.core, ws := s.ws.set i { w with q := q', st := .dead } },
         evs ++ [Ev.warriorDied i pc])
      else ({ s with core := r.core, ws := s.ws.set i { w with q := q' } }, evs)

def Api.turns (s : Api) : List Nat → Api × List Ev × Bool
  | [] => (s, [], false)
  | i :: is =>
    let before := s.living
    let (s', evs) := s.turn i
    if s'.living < before && s'.ws.length > 1 && s'.living == 1 then (s', evs, true)
    else
      let (s'', evs', stop) := s'.turns is
      (s'', evs ++ evs', stop)

/-- `RunCycle`: state, events, returned living count -/
def Api.cycle (s : Api) : Api × List Ev × Nat :=
  if s.finished then (s, [], 0)
  else
    let (s', evs, stop) := s.turns (List.range s.ws.length)
    if stop then (s', evs, s'.living)
    else ({ s' with cycles := s'.cycles + 1 }, evs, s'.living)

/-- `Run`: iterate cycles until finished (fuel = an upper bound on the iterations) -/
def Api.run (s : Api) : Nat → Api × List Ev
  | 0 => (s, [])
  | fuel + 1 =>
    if s.finished then (s, [])
    else
      let (s', evs, _) := s.cycle
      let (s'', evs') := s'.run fuel
      (s'', evs ++ evs')

def Api.reset (s : Api) : Api :=
  { s with core := List.replicate s.M default, cycles := 0,
           ws := s.ws.map (fun w => { w with st := .added, stale := w.spawned }) }

end Gmars.Spec
