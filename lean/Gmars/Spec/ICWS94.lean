/-
  Reference semantics of one Redcode task, transliterated from the ICWS'94
  draft's reference emulator (EMI94.c, section 5.6), over unbounded naturals
  and an immutable list core, extended with the A-number indirect modes
  `* { }` exactly as `@ < >` but on the A-number (pMARS extension).

  Written from the standard, NOT from sim.go: one operand evaluator serves both
  operands, arithmetic is on `Nat`, the core is a `List`.
-/
import Gmars.Instr

namespace Gmars.Spec

/-- `Fold(pointer, limit, M)` of the draft. -/
def fold (p limit M : Nat) : Nat :=
  let r := p % limit
  if r > limit / 2 then r + M - limit else r

abbrev Core := List SInstr

def Core.at (c : Core) (i : Nat) : SInstr := c.getD i default

/-- which number of an instruction an indirect mode goes through -/
inductive Field | A | B deriving DecidableEq, Repr

def getF (f : Field) (i : SInstr) : Nat := match f with | .A => i.a | .B => i.b
def setF (f : Field) (i : SInstr) (v : Nat) : SInstr :=
  match f with | .A => { i with a := v } | .B => { i with b := v }

def Core.modF (c : Core) (i : Nat) (f : Field) (g : Nat → Nat) : Core :=
  c.set i (setF f (c.at i) (g (getF f (c.at i))))

/-- classification of the eight addressing modes -/
inductive Kind | imm | dir | ind (f : Field) | pre (f : Field) | post (f : Field)
  deriving DecidableEq, Repr

def kind : Mode → Kind
  | .immediate => .imm | .direct => .dir
  | .aInd => .ind .A | .bInd => .ind .B
  | .aDec => .pre .A | .bDec => .pre .B
  | .aInc => .post .A | .bInc => .post .B

structure Operand where
  core : Core                 -- core after a pre-decrement
  rp   : Nat                  -- read pointer (offset from PC)
  wp   : Nat                  -- write pointer
  pip  : Option (Nat × Field) -- cell and number to post-increment
  dec  : Option Nat           -- cell that was pre-decremented (for the report stream)
  deriving Repr

/-- Operand evaluation of EMI94: primary fold, optional pre-decrement through the
    write pointer, secondary fold of both pointers. -/
def evalOperand (M R W pc : Nat) (c : Core) (mode : Mode) (num : Nat) : Operand :=
  match kind mode with
  | .imm => { core := c, rp := 0, wp := 0, pip := none, dec := none }
  | .dir => { core := c, rp := fold num R M, wp := fold num W M, pip := none, dec := none }
  | .ind f =>
    let rp := fold num R M; let wp := fold num W M
    { core := c, rp := fold (rp + getF f (c.at ((pc + rp) % M))) R M,
      wp := fold (wp + getF f (c.at ((pc + wp) % M))) W M, pip := none, dec := none }
  | .pre f =>
    let rp := fold num R M; let wp := fold num W M
    let c' := c.modF ((pc + wp) % M) f (fun v => (v + M - 1) % M)
    { core := c', rp := fold (rp + getF f (c'.at ((pc + rp) % M))) R M,
      wp := fold (wp + getF f (c'.at ((pc + wp) % M))) W M, pip := none,
      dec := some ((pc + wp) % M) }
  | .post f =>
    let rp := fold num R M; let wp := fold num W M
    { core := c, rp := fold (rp + getF f (c.at ((pc + rp) % M))) R M,
      wp := fold (wp + getF f (c.at ((pc + wp) % M))) W M,
      pip := some ((pc + wp) % M, f), dec := none }

def postInc (M : Nat) (c : Core) : Option (Nat × Field) → Core
  | none => c
  | some (i, f) => c.modF i f (fun v => (v + 1) % M)

/-- pairs (destination field of the target, source value) selected by a modifier for
    MOV-like / arithmetic instructions: the result is computed from IRB's and IRA's
    numbers. `.i` behaves as `.f` for arithmetic. -/
def arithPairs (md : Modifier) (ira irb : SInstr) : List (Field × Nat × Nat) :=
  match md with
  | .a  => [(.A, irb.a, ira.a)]
  | .b  => [(.B, irb.b, ira.b)]
  | .ab => [(.B, irb.b, ira.a)]
  | .ba => [(.A, irb.a, ira.b)]
  | .f | .i => [(.A, irb.a, ira.a), (.B, irb.b, ira.b)]
  | .x  => [(.B, irb.b, ira.a), (.A, irb.a, ira.b)]

/-- write `g x y` into each selected field of cell `w` whenever `ok y`; -/
def applyPairs (c : Core) (w : Nat) (ps : List (Field × Nat × Nat))
    (ok : Nat → Bool) (g : Nat → Nat → Nat) : Core :=
  ps.foldl (fun c (f, x, y) => if ok y then c.modF w f (fun _ => g x y) else c) c

/-- the numbers of IRB tested by JMZ/JMN/DJN under a modifier -/
def testFields : Modifier → List Field
  | .a | .ba => [.A]
  | .b | .ab => [.B]
  | .f | .x | .i => [.A, .B]

/-- pairs compared by SEQ/SNE/SLT -/
def cmpPairs (md : Modifier) (ira irb : SInstr) : List (Nat × Nat) :=
  match md with
  | .a => [(ira.a, irb.a)]
  | .b => [(ira.b, irb.b)]
  | .ab => [(ira.a, irb.b)]
  | .ba => [(ira.b, irb.a)]
  | .f | .i => [(ira.a, irb.a), (ira.b, irb.b)]
  | .x => [(ira.a, irb.b), (ira.b, irb.a)]

structure StepResult where
  core : Core
  succ : List Nat      -- successors in queueing order (0, 1 or 2)
  deriving Repr

/-- does the opcode store into the write target -/
def writesTarget : Op → Bool
  | .mov | .add | .sub | .mul | .div | .mod | .djn => true
  | _ => false

/-- The cells one task at `pc` may alter: pre-decremented and post-incremented
    pointer cells of both operands and, for storing opcodes, the write target. -/
def mayTouch (M R W : Nat) (c : Core) (pc : Nat) : List Nat :=
  let ir := c.at pc
  let oa := evalOperand M R W pc c ir.am ir.a
  let c1 := postInc M oa.core oa.pip
  let ob := evalOperand M R W pc c1 ir.bm ir.b
  oa.dec.toList ++ (oa.pip.map (·.1)).toList ++ ob.dec.toList ++ (ob.pip.map (·.1)).toList ++
    (if writesTarget ir.op then [(pc + ob.wp) % M] else [])

/-- One task at `pc`: the new core and the program counters to queue. -/
def step (M R W : Nat) (c : Core) (pc : Nat) : StepResult :=
  let ir := c.at pc
  let oa := evalOperand M R W pc c ir.am ir.a
  let ira := oa.core.at ((pc + oa.rp) % M)
  let c1 := postInc M oa.core oa.pip
  let ob := evalOperand M R W pc c1 ir.bm ir.b
  let irb := ob.core.at ((pc + ob.rp) % M)
  let c2 := postInc M ob.core ob.pip
  let wt := (pc + ob.wp) % M       -- write target
  let jt := (pc + oa.rp) % M       -- jump target
  let nxt := (pc + 1) % M
  let skp := (pc + 2) % M
  match ir.op with
  | .dat => ⟨c2, []⟩
  | .mov =>
    if ir.md = .i then ⟨c2.set wt ira, [nxt]⟩
    else ⟨applyPairs c2 wt (arithPairs ir.md ira irb) (fun _ => true) (fun _ y => y), [nxt]⟩
  | .add => ⟨applyPairs c2 wt (arithPairs ir.md ira irb) (fun _ => true) (fun x y => (x + y) % M), [nxt]⟩
  | .sub => ⟨applyPairs c2 wt (arithPairs ir.md ira irb) (fun _ => true) (fun x y => (x + M - y) % M), [nxt]⟩
  | .mul => ⟨applyPairs c2 wt (arithPairs ir.md ira irb) (fun _ => true) (fun x y => (x * y) % M), [nxt]⟩
  | .div =>
    let ps := arithPairs ir.md ira irb
    ⟨applyPairs c2 wt ps (· != 0) (fun x y => x / y),
     if ps.all (fun (_, _, y) => y != 0) then [nxt] else []⟩
  | .mod =>
    let ps := arithPairs ir.md ira irb
    ⟨applyPairs c2 wt ps (· != 0) (fun x y => x % y),
     if ps.all (fun (_, _, y) => y != 0) then [nxt] else []⟩
  | .jmp => ⟨c2, [jt]⟩
  | .jmz => ⟨c2, [if (testFields ir.md).all (fun f => getF f irb == 0) then jt else nxt]⟩
  | .jmn => ⟨c2, [if (testFields ir.md).any (fun f => getF f irb != 0) then jt else nxt]⟩
  | .djn =>
    let fs := testFields ir.md
    let c3 := fs.foldl (fun c f => c.modF wt f (fun v => (v + M - 1) % M)) c2
    ⟨c3, [if fs.any (fun f => (getF f irb + M - 1) % M != 0) then jt else nxt]⟩
  | .cmp | .seq =>
    let eq := if ir.md = .i then ira == irb else (cmpPairs ir.md ira irb).all (fun (x, y) => x == y)
    ⟨c2, [if eq then skp else nxt]⟩
  | .sne =>
    let eq := if ir.md = .i then ira == irb else (cmpPairs ir.md ira irb).all (fun (x, y) => x == y)
    ⟨c2, [if eq then nxt else skp]⟩
  | .slt => ⟨c2, [if (cmpPairs ir.md ira irb).all (fun (x, y) => x < y) then skp else nxt]⟩
  | .spl => ⟨c2, [nxt, jt]⟩
  | .nop => ⟨c2, [nxt]⟩

/-- bounded FIFO of the scheduler: new tasks go to the back, dropped when full -/
def enqueue (P : Nat) (q : List Nat) (succ : List Nat) : List Nat :=
  succ.foldl (fun q a => if q.length < P then q ++ [a] else q) q

end Gmars.Spec
