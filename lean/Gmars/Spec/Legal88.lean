/-
  The instructions the ICWS'88 standard allows, as an explicit table written
  from the standard (plus `SLT … #B`, which the repository's own suite
  documents as accepted on '88 hills), with the modifier each form implies.
-/
import Gmars.Instr

namespace Gmars.Spec

/-- the four '88 addressing modes -/
def mode88 : Mode → Bool
  | .immediate | .direct | .bInd | .bDec => true
  | _ => false

structure Row88 where
  ops : List Op
  aModes : List Mode
  bModes : List Mode
  immMod : Modifier      -- modifier when the A operand is immediate
  othMod : Modifier      -- modifier otherwise

def all4 : List Mode := [.immediate, .direct, .bInd, .bDec]
def noImm : List Mode := [.direct, .bInd, .bDec]

def table88 : List Row88 := [
  ⟨[.dat], [.immediate, .bDec], [.immediate, .bDec], .f, .f⟩,
  ⟨[.mov, .cmp], all4, noImm, .ab, .i⟩,
  ⟨[.add, .sub], all4, noImm, .ab, .f⟩,
  ⟨[.jmp, .jmz, .jmn, .djn, .spl], noImm, all4, .b, .b⟩,
  ⟨[.slt], all4, all4, .ab, .b⟩ ]

/-- the modifier the '88 standard implies for `op am, bm`, `none` if the form is illegal -/
def implied88 (op : Op) (am bm : Mode) : Option Modifier :=
  match table88.find? (fun r => r.ops.contains op && r.aModes.contains am && r.bModes.contains bm) with
  | some r => some (if am == .immediate then r.immMod else r.othMod)
  | none => none

/-- an instruction is a legal ICWS'88 instruction carrying the implied modifier -/
def Legal88 (i : Instr) : Bool := implied88 i.op i.am i.bm == some i.md

end Gmars.Spec
