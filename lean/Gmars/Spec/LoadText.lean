/-
  Reference reader for load-file / listing text in the pMARS conventions and the
  canonical load-file printer (C09, C16). Independent of Model/Load.lean: it works
  on trimmed lines and splits each instruction at its comma.
-/
import Gmars.Base.GoStr
import Gmars.Spec.Legal88

namespace Gmars.Spec
open Gmars.GoStr

/-- a warrior as text denotes it: instructions with integer fields, entry point -/
structure TextWarrior where
  code : List (Op × Option Modifier × Mode × Int × Mode × Int)
  start : Nat
  deriving Repr, DecidableEq

def stripComment (l : Str) : Str := l.takeWhile (· != ';')

def opOfName (s : Str) : Option Op := Op.all.find? (fun o => o.name.toList == s.map Char.toUpper)
def modOfName (s : Str) : Option Modifier := Modifier.all.find? (fun o => o.name.toList == s.map Char.toUpper)
def modeOfChar (c : Char) : Option Mode := Mode.all.find? (fun m => m.sym == c)

def parseSigned (s : Str) : Option Int :=
  match s with
  | '-' :: r => if r.isEmpty || !r.all isDigit then none else some (-(digitsVal r : Int))
  | '+' :: r => if r.isEmpty || !r.all isDigit then none else some (digitsVal r : Int)
  | r => if r.isEmpty || !r.all isDigit then none else some (digitsVal r : Int)

/-- `<mode char> <signed number>` with arbitrary blanks -/
def parseOperand (s : Str) : Option (Mode × Int) :=
  match trimSpace s with
  | c :: r => do pure (← modeOfChar c, ← parseSigned (trimSpace r))
  | [] => none

/-- `OP[.MOD] <operand> , <operand>` -/
def parseInstrText (s : Str) : Option (Op × Option Modifier × Mode × Int × Mode × Int) :=
  let s := trimSpace s
  let opTok := s.takeWhile (fun c => !isAsciiSpace c)
  let rest := s.dropWhile (fun c => !isAsciiSpace c)
  let (opN, md) := match splitOnChar opTok '.' with
    | [o] => (o, some none)
    | [o, m] => (o, (modOfName m).map some)
    | _ => ([], none)
  match opOfName opN, md, splitOnChar rest ',' with
  | some op, some md, [l, r] => do
    let (am, a) ← parseOperand l
    let (bm, b) ← parseOperand r
    pure (op, md, am, a, bm, b)
  | _, _, _ => none

/-- read a listing / load file: blank and comment lines ignored; `ORG n|START`, `END [n|START]`;
    an optional `START` label in front of an instruction. As in pMARS a `START` label is only a
    symbol: it gives the entry point when an `ORG START` / `END START` refers to it; without any
    directive the entry point is the first instruction. -/
def readText (text : Str) : Option TextWarrior :=
  let lines := (readLines text).map (fun l => trimSpace (stripComment l)) |>.filter (!·.isEmpty)
  let rec go (ls : List Str) (code : List (Op × Option Modifier × Mode × Int × Mode × Int))
      (start : Option Nat) (label : Option Nat) (ref : Bool) : Option TextWarrior :=
    match ls with
    | [] => some { code := code.reverse,
                   start := if ref then (label.orElse (fun _ => start)).getD 0 else start.getD 0 }
    | l :: rest =>
      let fs := fields l
      match fs with
      | [d, arg] =>
        if toLower d == "org".toList || toLower d == "end".toList then
          let isEnd := toLower d == "end".toList
          if toLower arg == "start".toList then
            if isEnd then some { code := code.reverse, start := (label.orElse (fun _ => start)).getD 0 }
            else go rest code start label true
          else match parseSigned arg with
            | some (Int.ofNat n) =>
              if isEnd then some { code := code.reverse, start := n } else go rest code (some n) label false
            | _ => none
        else none
      | [d] =>
        if toLower d == "end".toList then
          some { code := code.reverse,
                 start := if ref then (label.orElse (fun _ => start)).getD 0 else start.getD 0 }
        else none
      | _ =>
        let (lbl, body) :=
          if (fs.head?.map toLower) == some "start".toList then (true, (trimLeft l).drop 5) else (false, l)
        match parseInstrText body with
        | some i => go rest (i :: code) start (if lbl then some code.length else label) ref
        | none => none
  go lines [] none none false

/-- number of significant (non-blank, non-comment) lines before the end marker that are not
    ORG/END directives; the Bool tells whether an end marker was met -/
def significantInstrLines (text : Str) : Nat × Bool :=
  let lines := (readLines text).map (fun l => fields (replaceComma (toLower (l.takeWhile (· != ';')))))
  -- metadata/comment lines start with ';' and vanish above; commas-only lines stay significant
  let raw := (readLines text).map (fun l => (l.takeWhile (· != ';')))
  let sig := (lines.zip raw).filter (fun (fs, r) => !fs.isEmpty || r.contains ',')
  let rec go (ls : List (List Str × Str)) (n : Nat) : Nat × Bool :=
    match ls with
    | [] => (n, false)
    | (fs, _) :: rest =>
      match fs.head? with
      | some h => if h == "end".toList then (n, true)
                  else if h == "org".toList then go rest n else go rest (n + 1)
      | none => go rest (n + 1)
  go sig 0

/-- field values compared modulo the core size -/
def fieldEq (M : Nat) (v : Int) (f : Nat) : Bool := v % (M : Int) == (f : Int) % (M : Int)

/-- does the text warrior denote exactly these instructions and entry point (fields mod M;
    a missing modifier is the one ICWS'88 implies) -/
def denotes (M : Nat) (t : TextWarrior) (code : List Instr) (start : Int) : Bool :=
  t.code.length == code.length && (t.start : Int) == start &&
  (t.code.zip code).all (fun ((op, md, am, a, bm, b), i) =>
    op == i.op && am == i.am && bm == i.bm && fieldEq M a i.a.toNat && fieldEq M b i.b.toNat &&
    (match md with
     | some m => m == i.md
     | none => implied88 op am bm == some i.md))

/-- canonical load-file layout: `ORG n` first ('94) or `END n` last ('88), one fully explicit
    instruction per line, fields printed unsigned -/
def printInstr (legacy : Bool) (i : Instr) : Str :=
  i.op.name.toList ++ (if legacy then [] else '.' :: i.md.name.toList) ++ " ".toList ++ [i.am.sym] ++
    " ".toList ++ Nat.toDigits 10 i.a.toNat ++ ", ".toList ++ [i.bm.sym] ++ " ".toList ++
    Nat.toDigits 10 i.b.toNat ++ "\n".toList

def printLoad (legacy : Bool) (code : List Instr) (start : Nat) : Str :=
  (if legacy then [] else "ORG ".toList ++ Nat.toDigits 10 start ++ "\n".toList) ++
  (code.map (printInstr legacy)).flatten ++
  (if legacy then "END ".toList ++ Nat.toDigits 10 start ++ "\n".toList else [])

end Gmars.Spec
