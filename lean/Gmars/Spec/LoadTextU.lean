/-
  `Spec.significantInstrLines` (Gmars/Spec/LoadText.lean) for arbitrary byte strings: the number
  of significant lines of a load file before the end marker that are not ORG/END directives.
  A line is what `ReadString('\n')` delivers, read as runes (an invalid byte is U+FFFD), cut at
  its first ';', lower-cased, commas blanked and split at Unicode white space.
-/
import Gmars.Base.GoStrU
import Gmars.Spec.LoadText

namespace Gmars.Spec
open Gmars.GoStr Gmars.GoStrU

/-- number of significant (non-blank, non-comment) lines before the end marker that are not
    ORG/END directives; the Bool tells whether an end marker was met.  Metadata / comment lines
    start with ';' and vanish; commas-only lines stay significant. -/
def significantInstrLinesU (text : Bytes) : Nat × Bool :=
  let ls := (readLinesB text).map (fun l =>
    let r := (runes l).takeWhile (· != ';')
    (fieldsU (replaceComma (toLower r)), r))
  significantInstrLines.go (ls.filter (fun (fs, r) => !fs.isEmpty || r.contains ',')) 0

end Gmars.Spec
