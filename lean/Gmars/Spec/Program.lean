/-
  Reference meaning of an abstract Redcode program (C03, C06, C07, C08): the
  program is data (instructions with symbolic operand expressions, EQUs,
  ORG/END, asserts, FOR blocks, metadata), its meaning is computed here without
  going through gmars:

    unroll FOR blocks  →  label table / EQU table  →  textual substitution of
    EQU names, labels as offsets relative to the referring instruction  →
    reference expression evaluator (exact integers, usual precedence, left
    associativity, truncating / and %, stacked unary signs)  →  dialect
    defaults (written from the ICWS'94 draft, the '88 standard and the README)
    →  reduction modulo the core size  →  entry point, asserts, length limit.
-/
import Gmars.Spec.Legal88

namespace Gmars.Spec

/-- expression tokens of the abstract syntax -/
inductive ETok
  | num (n : Nat)
  | name (s : String)
  | op (s : String)          -- + - * / % (and comparison / logic operators in asserts)
  | lp | rp
  deriving DecidableEq, Repr, Inhabited

/-! ## reference expression evaluator -/
namespace Expr

inductive V | int (i : Int) | bool (b : Bool) deriving DecidableEq, Repr

def prec : String → Nat
  | "*" | "/" | "%" => 5
  | "+" | "-" => 4
  | "==" | "!=" | "<" | "<=" | ">" | ">=" => 3
  | "&&" => 2
  | "||" => 1
  | _ => 0

def apply (o : String) (x y : V) : Option V :=
  match x, y with
  | .int a, .int b =>
    match o with
    | "+" => some (.int (a + b)) | "-" => some (.int (a - b)) | "*" => some (.int (a * b))
    | "/" => if b = 0 then none else some (.int (Int.tdiv a b))
    | "%" => if b = 0 then none else some (.int (Int.tmod a b))
    | "==" => some (.bool (a == b)) | "<" => some (.bool (a < b)) | "<=" => some (.bool (a ≤ b))
    | ">" => some (.bool (a > b)) | ">=" => some (.bool (a ≥ b))
    | _ => none
  | .bool a, .bool b =>
    match o with
    | "==" => some (.bool (a == b)) | "&&" => some (.bool (a && b)) | "||" => some (.bool (a || b))
    | _ => none
  | _, _ => none

mutual
  def unary : Nat → List ETok → Option (V × List ETok)
    | 0, _ => none
    | f + 1, ts =>
      match ts with
      | .op "-" :: r => do
        let (v, r') ← unary f r
        match v with | .int i => some (.int (-i), r') | _ => none
      | .op "+" :: r => do
        let (v, r') ← unary f r
        match v with | .int i => some (.int i, r') | _ => none
      | .num n :: r => some (.int n, r)
      | .lp :: r =>
        match binary f r 1 with
        | some (v, .rp :: r') => some (v, r')
        | _ => none
      | _ => none
  def binary : Nat → List ETok → Nat → Option (V × List ETok)
    | 0, _, _ => none
    | f + 1, ts, p1 => do
      let (x, r) ← unary f ts
      loop f x r p1
  def loop : Nat → V → List ETok → Nat → Option (V × List ETok)
    | 0, _, _, _ => none
    | f + 1, x, ts, p1 =>
      match ts with
      | .op o :: r =>
        let p := prec o
        if p < p1 || p == 0 then some (x, ts)
        else do
          let (y, r') ← binary f r (p + 1)
          let z ← apply o x y
          loop f z r' p1
      | _ => some (x, ts)
end

/-- value of a name-free token list; `none` = malformed, division by zero, or ill-typed -/
def eval (ts : List ETok) : Option V :=
  match binary (3 * ts.length + 3) ts 1 with
  | some (v, []) => some v
  | _ => none

/-- as gmars consumes it: booleans count as 1/0, the value must fit 32 bits -/
def evalInt (ts : List ETok) : Option Int :=
  match eval ts with
  | some (.int i) => if -2147483648 ≤ i ∧ i ≤ 2147483647 then some i else none
  | some (.bool b) => some (if b then 1 else 0)
  | none => none

end Expr

/-! ## abstract programs -/

structure POperand where
  mode : Option Mode
  expr : List ETok
  deriving Repr, Inhabited

inductive MetaKind | name | author | strategy deriving DecidableEq, Repr

inductive Item
  | instr (labels : List String) (op : String) (md : Option String) (a : POperand) (b : Option POperand)
  | equ (name : String) (expr : List ETok)
  | org (expr : List ETok)
  | end_ (expr : Option (List ETok))
  | assert (expr : List ETok)
  | info (kind : MetaKind) (text : String)
  | for_ (labels : List String) (ctr : String) (count : List ETok) (body : List Item)
  deriving Repr, Inhabited

structure Cfg where
  legacy : Bool        -- ICWS'88 rule set
  M : Nat              -- core size
  maxLen : Nat
  maxProcs : Nat
  minDist : Nat
  deriving Repr, Inhabited

structure Meaning where
  code : List Instr
  start : Nat
  name : String := ""
  author : String := ""
  strategy : String := ""
  deriving Repr, Inhabited

/-! ### FOR/ROF: manual unrolling -/

def substName (n : String) (v : List ETok) (ts : List ETok) : List ETok :=
  ts.flatMap (fun t => if t == .name n then v else [t])

def substOperand (n : String) (v : List ETok) (o : POperand) : POperand := { o with expr := substName n v o.expr }

mutual
  /-- replace the counter by a number everywhere it may legitimately occur -/
  def substItem (n : String) (v : List ETok) : Item → Item
    | .instr l op md a b => .instr l op md (substOperand n v a) (b.map (substOperand n v))
    | .equ nm e => .equ nm (substName n v e)
    | .org e => .org (substName n v e)
    | .end_ e => .end_ (e.map (substName n v))
    | .assert e => .assert (substName n v e)
    | .info k t => .info k t
    | .for_ l c cnt body => .for_ l c (substName n v cnt) (substItems n v body)
  def substItems (n : String) (v : List ETok) : List Item → List Item
    | [] => []
    | i :: r => substItem n v i :: substItems n v r
end

/-- attach labels to the first instruction of an item list (if there is one) -/
def attachLabels (ls : List String) : List Item → List Item
  | [] => []
  | .instr l op md a b :: r => .instr (ls ++ l) op md a b :: r
  | i :: r => i :: attachLabels ls r

/-- textual EQU table of the top level items seen so far (used for FOR counts) -/
def equsOf (items : List Item) : List (String × List ETok) :=
  items.filterMap (fun | .equ n e => some (n, e) | _ => none)

/-- expand EQU names (textually, repeatedly); `fuel` bounds the depth of EQU chains -/
def expandEqus : Nat → List (String × List ETok) → List ETok → Option (List ETok)
  | 0, _, ts => if ts.any (fun | .name _ => true | _ => false) then none else some ts
  | f + 1, tab, ts =>
    if ts.length > 20000 then none   -- runaway growth: only a cyclic table does that
    else if ts.all (fun | .name n => (tab.find? (·.1 == n)).isNone | _ => true) then some ts
    else expandEqus f tab (ts.flatMap (fun t =>
      match t with
      | .name n => match tab.find? (·.1 == n) with
        | some (_, v) => v
        | none => [t]
      | _ => [t]))

/-- unroll every FOR block, outermost first, in textual order, counting the block expansions
    performed; `none` = a count cannot be evaluated from the EQUs that precede the block (or the
    fuel — one unit per block expansion — is exhausted) -/
def unrollAux : Nat → List Item → List Item → Nat → Option (List Item × Nat)
  | 0, _, _, _ => none
  | fuel + 1, items, before, k =>
    match items with
    | [] => some (before, k)
    | .for_ labels ctr cnt body :: rest => do
      let toks ← expandEqus 64 (equsOf before) cnt
      let n ← Expr.evalInt toks
      if n < 0 then none else
      let copies := (List.range n.toNat).flatMap (fun i => substItems ctr [.num (i + 1)] body)
      -- inner blocks of the copies are unrolled in place, with the EQUs seen so far
      let (inner, k') ← unrollAux fuel copies before (k + 1)
      let emitted := inner.drop before.length
      unrollAux fuel rest (before ++ attachLabels labels emitted) k'
    | i :: rest => unrollAux fuel rest (before ++ [i]) k

def unroll (items : List Item) : Option (List Item) := (unrollAux 100000 items [] 0).map (·.1)

/-- number of FOR block expansions the program needs (one assembler pass each) -/
def expansions (items : List Item) : Nat := ((unrollAux 100000 items [] 0).map (·.2)).getD 0

/-! ### defaults -/

def opOfString (s : String) : Option Op := Op.all.find? (fun o => o.name == s.toUpper)
def modOfString (s : String) : Option Modifier := Modifier.all.find? (fun o => o.name == s.toUpper)

/-- ICWS'94 draft, section 2.4.2 (A.2.1 step 3): default modifiers -/
def defaultMod94 (op : Op) (am bm : Mode) : Modifier :=
  match op with
  | .dat | .nop => if op == .dat then .f else .b
  | .mov | .seq | .sne | .cmp =>
    if am == .immediate then .ab else if bm == .immediate then .b else .i
  | .add | .sub | .mul | .div | .mod =>
    if am == .immediate then .ab else if bm == .immediate then .b else .f
  | .slt => if am == .immediate then .ab else .b
  | .jmp | .jmz | .jmn | .djn | .spl => .b

def is88Op (op : Op) : Bool :=
  [Op.dat, .mov, .add, .sub, .jmp, .jmz, .jmn, .djn, .cmp, .slt, .spl].contains op

/-! ### meaning -/

structure Tables where
  labels : List (String × Nat)
  equs : List (String × List ETok)

def predefined (c : Cfg) : List (String × List ETok) :=
  [("CORESIZE", [.num c.M]), ("MAXLENGTH", [.num c.maxLen]), ("MAXPROCESSES", [.num c.maxProcs]),
   ("MINDISTANCE", [.num c.minDist])]

/-- labels become offsets relative to the referring instruction (modulo M, signed) -/
def substLabels (c : Cfg) (t : Tables) (line : Nat) (ts : List ETok) : Option (List ETok) :=
  ts.foldlM (fun acc tk =>
    match tk with
    | .name n =>
      match t.labels.find? (·.1 == n) with
      | some (_, idx) =>
        let v : Int := Int.tmod ((idx : Int) - (line : Int)) (c.M : Int)
        if v < 0 then some (acc ++ [.op "-", .num v.natAbs]) else some (acc ++ [.num v.toNat])
      | none => none
    | _ => some (acc ++ [tk])) []

def evalAt (c : Cfg) (t : Tables) (line : Nat) (ts : List ETok) : Option Int := do
  let e ← expandEqus 64 t.equs ts
  let e ← substLabels c t line e
  Expr.evalInt e

def reduce (M : Nat) (v : Int) : UInt64 := UInt64.ofNat (v % (M : Int)).toNat

def instrMeaning (c : Cfg) (t : Tables) (line : Nat) (opS : String) (mdS : Option String)
    (a : POperand) (b : Option POperand) : Option Instr := do
  let op ← opOfString opS
  if c.legacy && !is88Op op then none
  let defMode : Mode := if c.legacy && op == .dat then .immediate else .direct
  let am := a.mode.getD defMode
  let bm := match b with
    | some o => o.mode.getD defMode
    | none => defMode
  if c.legacy && !(mode88 am && mode88 bm) then none
  let md ← (if c.legacy then
      (if mdS.isSome then none else implied88 op am bm)
    else match mdS with
      | some s => modOfString s
      | none => some (defaultMod94 op am bm))
  let av ← evalAt c t line a.expr
  match b with
  | some bo =>
    let bv ← evalAt c t line bo.expr
    some { op, md, am, a := reduce c.M av, bm, b := reduce c.M bv }
  | none =>
    if op == .dat then some { op, md, am := .immediate, a := 0, bm := am, b := reduce c.M av }
    else some { op, md, am, a := reduce c.M av, bm := .direct, b := 0 }

def trimAscii (s : String) : String := s.trimAscii.toString

/-- meaning of a FOR-free item list; `none` = the program must be rejected -/
def meaningFlat (c : Cfg) (items : List Item) : Option Meaning := do
  -- label table: index of the instruction each label is attached to
  let (labels, n) := items.foldl (fun (acc : List (String × Nat) × Nat) it =>
    match it with
    | .instr ls _ _ _ _ => (acc.1 ++ ls.map (fun l => (l, acc.2)), acc.2 + 1)
    | _ => acc) ([], 0)
  let t : Tables := { labels, equs := equsOf items ++ predefined c }
  -- every symbol (label, EQU name, predefined constant) is defined exactly once
  let defined := labels.map (·.1) ++ (equsOf items).map (·.1) ++ (predefined c).map (·.1)
  if defined.eraseDups.length != defined.length then none
  -- a cyclic EQU table has no meaning, used or not
  if !(t.equs.all (fun (_, e) => (expandEqus 64 t.equs e).isSome)) then none
  -- instructions
  let (code?, _) := items.foldl (fun (acc : Option (List Instr) × Nat) it =>
    match it, acc.1 with
    | .instr _ op md a b, some code =>
      ((instrMeaning c t acc.2 op md a b).map (fun i => code ++ [i]), acc.2 + 1)
    | .instr .., none => (none, acc.2 + 1)
    | _, _ => acc) (some [], 0)
  let code ← code?
  if code.length > c.maxLen then none
  -- asserts
  let okA := items.all (fun it =>
    match it with
    | .assert e => match evalAt c t 0 e with
      | some v => v != 0
      | none => false
    | _ => true)
  if !okA then none
  -- entry point: the last ORG, overridden by an END that carries an argument
  let startE : List ETok := items.foldl (fun acc it =>
    match it with
    | .org e => e
    | .end_ (some e) => e
    | _ => acc) [.num 0]
  let sv ← evalAt c t 0 startE
  if sv < 0 || (sv ≥ n && sv != 0) then none
  let metaOf (k : MetaKind) : List String := items.filterMap (fun | .info k' s => if k == k' then some s else none | _ => none)
  some { code, start := sv.toNat,
         name := ((metaOf .name).getLast?.map trimAscii).getD "",
         author := ((metaOf .author).getLast?.map trimAscii).getD "",
         strategy := String.join ((metaOf .strategy).map (fun s => s ++ "\n")) }

/-- the meaning of a program: unroll, then `meaningFlat` -/
def meaning (c : Cfg) (items : List Item) : Option Meaning := do
  let flat ← unroll items
  meaningFlat c flat

end Gmars.Spec
