/-
  Labels written on the END line: `last end first`. Such a label is an ordinary label whose
  position is the number of instructions of the program (the address just after the code).
  `meaningFlatT` is `Spec.meaningFlat` with those labels added to the label table;
  `meaningFlatT_nil` shows that nothing else differs.
-/
import Gmars.Spec.Program

namespace Gmars.Spec

/-- meaning of a FOR-free item list whose END line carries the labels `tail` -/
def meaningFlatT (c : Cfg) (items : List Item) (tail : List String) : Option Meaning := do
  let (labels0, n) := items.foldl (fun (acc : List (String × Nat) × Nat) it =>
    match it with
    | .instr ls _ _ _ _ => (acc.1 ++ ls.map (fun l => (l, acc.2)), acc.2 + 1)
    | _ => acc) ([], 0)
  let labels := labels0 ++ tail.map (fun l => (l, n))
  let t : Tables := { labels, equs := equsOf items ++ predefined c }
  let defined := labels.map (·.1) ++ (equsOf items).map (·.1) ++ (predefined c).map (·.1)
  if defined.eraseDups.length != defined.length then none
  if !(t.equs.all (fun (_, e) => (expandEqus 64 t.equs e).isSome)) then none
  let (code?, _) := items.foldl (fun (acc : Option (List Instr) × Nat) it =>
    match it, acc.1 with
    | .instr _ op md a b, some code =>
      ((instrMeaning c t acc.2 op md a b).map (fun i => code ++ [i]), acc.2 + 1)
    | .instr .., none => (none, acc.2 + 1)
    | _, _ => acc) (some [], 0)
  let code ← code?
  if code.length > c.maxLen then none
  let okA := items.all (fun it =>
    match it with
    | .assert e => match evalAt c t 0 e with
      | some v => v != 0
      | none => false
    | _ => true)
  if !okA then none
  let startE : List ETok := items.foldl (fun acc it =>
    match it with
    | .org e => e
    | .end_ (some e) => e
    | _ => acc) [.num 0]
  let sv ← evalAt c t 0 startE
  if sv < 0 || (sv ≥ n && sv != 0) then none
  let metaOf (k : MetaKind) : List String := items.filterMap (fun | .info k' s => if k == k' then some s else none | _ => none)
  some { code, start := sv.toNat,
         name := ((metaOf .name).getLast?.map trimAscii).getD "",
         author := ((metaOf .author).getLast?.map trimAscii).getD "",
         strategy := String.join ((metaOf .strategy).map (fun s => s ++ "\n")) }

/-- without labels on the END line this is `meaningFlat`, definitionally -/
theorem meaningFlatT_nil (c : Cfg) (items : List Item) : meaningFlatT c items [] = meaningFlat c items := by
  unfold meaningFlatT meaningFlat
  simp only [List.map_nil, List.append_nil]
  rfl

/-- the meaning of a program whose END line carries labels: unroll, then `meaningFlatT` -/
def meaningT (c : Cfg) (items : List Item) (tail : List String) : Option Meaning := do
  let flat ← unroll items
  meaningFlatT c flat tail

theorem meaningT_nil (c : Cfg) (items : List Item) : meaningT c items [] = meaning c items := by
  unfold meaningT meaning
  simp only [meaningFlatT_nil]

end Gmars.Spec
