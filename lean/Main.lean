import Gmars.Driver.ApiRun
import Gmars.Driver.TextRun
import Gmars.Driver.TextRunP
import Gmars.Driver.DebugRun
import Gmars.Driver.HookRun
import Gmars.Driver.AsmRun
import Gmars.Driver.CliRun
open Gmars Gmars.Driver

structure Global where
  ctx : Option Ctx := none
  dumps : List (String × Nat × String) := []   -- case id, M, dump
  results : List (String × String) := []       -- case id, final Run/alive summary
  nCases : Nat := 0
  nOps : Nat := 0
  nNontrivial : Nat := 0
  text : TextStats := {}

partial def loop (h : IO.FS.Stream) (out : IO.FS.Stream) (g : Global) : IO Global := do
  let line ← h.getLine
  if line.isEmpty then return g
  let line := (line.dropEndWhile (fun c => c == '\n' || c == '\r')).toString
  if line.isEmpty then loop h out g else
  if line.startsWith "N " then
    let c : Ctx := {}
    loop h out { g with ctx := some (c.step line) }
  else if line == "E" then
    match g.ctx with
    | none => loop h out g
    | some c =>
      let st := c.st
      if st.verdicts.isEmpty then
        out.putStrLn s!"V {st.id} {st.tag} OK ops={st.nOps} nt={if st.nontrivial then 1 else 0}"
      else
        for v in st.verdicts do
          out.putStrLn s!"V {st.id} {st.tag} {v}"
      let dumps := match st.lastDump with
        | some d => (st.id, st.cfg.coreSize.toNat, d) :: g.dumps.take 8
        | none => g.dumps
      loop h out { g with ctx := none, dumps, nCases := g.nCases + 1, nOps := g.nOps + st.nOps,
                          nNontrivial := g.nNontrivial + (if st.nontrivial then 1 else 0) }
  else if line.startsWith "L " || line.startsWith "K " || line.startsWith "KP " || line.startsWith "KD " || line.startsWith "H " || line.startsWith "X " || line.startsWith "Z " || line.startsWith "Y " || line.startsWith "Q " then
    let (outs, upd) := if line.startsWith "L " then runLoadLine line
      else if line.startsWith "K " then runListingLine line
      else if line.startsWith "KP " then runListingPLine line
      else if line.startsWith "KD " then runDebugLine line
      else if line.startsWith "X " then runAsmLine (some modelAsmStr) line
      else if line.startsWith "Z " then runCliLine line
      else if line.startsWith "Y " then runPairLine line
      else if line.startsWith "Q " then runPresetLine line else runHookLine line
    for o in outs do out.putStrLn o
    loop h out { g with text := upd g.text }
  else if line.startsWith "P " then
    -- P <id1> <id2> <k>
    match line.splitOn " " with
    | [_, id1, id2, k] =>
      match g.dumps.find? (·.1 == id1), g.dumps.find? (·.1 == id2) with
      | some (_, m, d1), some (_, _, d2) =>
        match rotCompare m (Wire.natD k) d1 d2 with
        | some msg => out.putStrLn s!"V {id1}+{id2} rot PROP op=0 C12 shift {k}: {msg}"
        | none => out.putStrLn s!"V {id1}+{id2} rot OK ops=1 nt=1"
      | _, _ => out.putStrLn s!"V {id1}+{id2} rot SKIP missing dump"
    | _ => pure ()
    loop h out g
  else
    match g.ctx with
    | none => loop h out g
    | some c => loop h out { g with ctx := some (c.step line) }

def main : IO Unit := do
  let stdin ← IO.getStdin
  let stdout ← IO.getStdout
  let g ← loop stdin stdout {}
  stdout.putStrLn s!"STATS cases={g.nCases + g.text.cases} ops={g.nOps + g.text.cases} nontrivial={g.nNontrivial + g.text.nontrivial} skipped={g.text.skipped} accepted={g.text.accepted} rejected={g.text.rejected}"
