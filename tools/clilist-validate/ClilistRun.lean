/-
  Test driver for Gmars/Model/CliList.lean: reads the lines written by scratch/clilist/main.go
  (stdin), runs `cliAssembleRun` and prints every mismatch and a summary.

    Z <id> <use88> <s> <p> <c> <l> <preset|-> <hex1|-|e> <hex2|-|e> <hex3|-|e> | exit=<n> oom=<0|1> out=<hex|->
-/
import Gmars.Model.CliList
open Gmars Gmars.Cli

def hexVal (c : Char) : Nat :=
  if '0' ≤ c ∧ c ≤ '9' then c.toNat - '0'.toNat
  else if 'a' ≤ c ∧ c ≤ 'f' then c.toNat - 'a'.toNat + 10 else 0

def unhex (s : String) : List UInt8 :=
  let rec go : List Char → List UInt8
    | a :: b :: r => UInt8.ofNat (hexVal a * 16 + hexVal b) :: go r
    | _ => []
  go s.toList

def fileOf (s : String) : Option (List UInt8) :=
  if s == "-" then none else if s == "e" then some [] else some (unhex s)

def kv (resp : String) (k : String) : String :=
  match ((resp.splitOn " ").filterMap (fun t => match t.splitOn "=" with
    | [a, b] => if a == k then some b else none
    | _ => none)) with
  | v :: _ => v
  | [] => ""

structure Stats where
  cases : Nat := 0
  mism : Nat := 0
  outs : Nat := 0
  exit1 : Nat := 0
  panics : Nat := 0
  hangs : Nat := 0
  unmod : Nat := 0
  oom : Nat := 0
  parse : Nat := 0
  two : Nat := 0
  legacyOut : Nat := 0
  presetOut : Nat := 0
  emptyListing : Nat := 0

def runLine (line : String) (st : Stats) : Stats × Option String :=
  match line.splitOn " | " with
  | [req, resp] =>
    match (req.splitOn " ").filter (· != "") with
    | ["Z", id, u88, s, p, c, l, preset, f1, f2, f3] => Id.run do
      let preset := if preset == "-" then "" else preset.replace "_SP_" " "
      let fl : Flags := { use88 := u88 == "1", size := s.toInt?.getD 0, procs := p.toInt?.getD 0,
                          cycles := c.toInt?.getD 0, len := l.toInt?.getD 0, preset := preset }
      let files := [f1, f2, f3].filterMap fileOf
      let exit := (kv resp "exit").toInt?.getD (-99)
      let oom := kv resp "oom" == "1"
      let outHex := kv resp "out"
      let out : List Char := if outHex == "-" then [] else (unhex outHex).map (fun b => Char.ofNat b.toNat)
      let st := { st with cases := st.cases + 1 }
      if oom then
        -- the operating system refused the core: outside the model; the model must at least
        -- agree that everything before the allocation went well
        match cliAssembleRun fl files with
        | .out _ => return ({ st with oom := st.oom + 1 }, none)
        | r => return ({ st with mism := st.mism + 1 }, some s!"MISMATCH {id}: tool ran out of memory, model {repr r}")
      match cliAssembleRun fl files with
      | .unmodelled => return ({ st with unmod := st.unmod + 1 }, none)
      | .exit1 =>
        if exit == 1 && out.isEmpty then return ({ st with exit1 := st.exit1 + 1 }, none)
        else return ({ st with mism := st.mism + 1 }, some s!"MISMATCH {id}: model exit1, tool exit={exit} out={String.ofList (outHex.toList.take 200)}")
      | .fault (.panic pn) =>
        if exit == 2 && out.isEmpty then return ({ st with panics := st.panics + 1 }, none)
        else return ({ st with mism := st.mism + 1 }, some s!"MISMATCH {id}: model panic {repr pn}, tool exit={exit} out={String.ofList (outHex.toList.take 200)}")
      | .fault (.hang site) =>
        if exit == -2 && out.isEmpty then return ({ st with hangs := st.hangs + 1 }, none)
        else return ({ st with mism := st.mism + 1 }, some s!"MISMATCH {id}: model hang {site}, tool exit={exit} out={String.ofList (outHex.toList.take 200)}")
      | .out t =>
        if exit == 0 && t == out then
          let cfg := (config fl).getD {}
          return ({ st with outs := st.outs + 1,
                            two := st.two + (if files.length == 2 then 1 else 0),
                            legacyOut := st.legacyOut + (if cfg.mode == .icws88 then 1 else 0),
                            presetOut := st.presetOut + (if fl.preset != "" then 1 else 0),
                            emptyListing := st.emptyListing + (if t.length == files.length then 1 else 0) }, none)
        else return ({ st with mism := st.mism + 1 },
          some s!"MISMATCH {id}: model out={repr (String.ofList (t.take 300))} tool exit={exit} out={repr (String.ofList (out.take 300))}")
    | _ => ({ st with parse := st.parse + 1 }, some s!"PARSE {String.ofList (req.toList.take 80)}")
  | _ => ({ st with parse := st.parse + 1 }, some s!"PARSE {String.ofList (line.toList.take 80)}")

partial def loop (h : IO.FS.Stream) (st : Stats) : IO Stats := do
  let line ← h.getLine
  if line.isEmpty then return st
  let line := (line.dropEndWhile (fun c => c == '\n' || c == '\r')).toString
  if line.isEmpty then loop h st else
  let (st, msg) := runLine line st
  match msg with
  | some m => IO.println m
  | none => pure ()
  loop h st

def main : IO UInt32 := do
  let st ← loop (← IO.getStdin) {}
  IO.println s!"cases={st.cases} mismatches={st.mism} parse={st.parse} out={st.outs} (two files {st.two}, '88 listing {st.legacyOut}, via preset {st.presetOut}, only empty listings {st.emptyListing}) exit1={st.exit1} panic={st.panics} hang={st.hangs} unmodelled={st.unmod} oom-skipped={st.oom}"
  return (if st.mism == 0 && st.parse == 0 then 0 else 1)
