module x

go 1.22

require github.com/bobertlo/gmars v0.0.0

replace github.com/bobertlo/gmars => /repo
