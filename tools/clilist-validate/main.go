// clilist: runs the REAL cmd/gmars binary with -A on generated warrior files and flag vectors
// and prints one line per case for the Lean driver (ClilistRun.lean):
//
//   Z <id> <use88> <s> <p> <c> <l> <preset|-> <hex file1|-> <hex file2|-> <hex file3|-> | exit=<n> oom=<0|1> out=<hex|->
//
// exit = -2: the tool did not exit within the deadline (killed). An empty FILE is written as
// "e" (zero bytes), an absent one as "-".
//
// usage: clilist <gmars binary> <count> <seed> > cases.txt
package main

import (
	"bufio"
	"bytes"
	"context"
	"encoding/hex"
	"fmt"
	"math/rand"
	"os"
	"os/exec"
	"path/filepath"
	"strconv"
	"strings"
	"time"
)

var corpus [][]byte

var known = []string{
	"jmp -1\ndat 0\n",
	"mov -1, -2\njmp -1\n",
	"spl 0\nmov -1, <-3\njmp -2\n",
	"mov 0, 1\n",
	"mov 0, 1\ndat #3, 4001\n",
	"add #4, 3\nmov 2, @2\njmp -2\ndat #0, #0\n",
	"dat 0\n",
	"jmp 0\n",
	"mov 0, 1\nend 0\n",
	"jmp 0\ndat 0, 010",
	"spl 0\nmov 0, 1\ndat 008, 0009",
	"; nothing here\n",
	"",
	"\n\n",
	"x equ 3\nstart mov x, CORESIZE-1\n dat MAXLENGTH, MINDISTANCE\n end start\n",
	"org 1\ndat 0\nmov.x {1, }2\n",
	"a for 3\ndat a, a\nrof\n",
	"dat CORESIZE/2, CORESIZE/2+1\ndat -CORESIZE/2, -1\n",
	"nop 1, 2\nseq 3, 4\nldp 0, 0\n",
	"mov.i *1, >2\nsne <3, {4\n",
	"org 5\ndat 0\n",
	"dat 0\nend 1\n",
	"dat 0\ndat 0\nend 2\n",
	";redcode-94\n;name x\n;author y\n;assert CORESIZE == 8000\nmov 0, 1\n",
	";assert 0\nmov 0, 1\n",
	"mov 0 1\n",
	"foo bar baz\n",
	"dat 1,\n",
	"x equ x\ndat x\n",
}

func loadCorpus() {
	for _, pat := range []string{"/repo/warriors/*/*.red", "/repo/warriors/*.rc", "/repo/test_files/*.red", "/repo/test_files/*.rc"} {
		ms, _ := filepath.Glob(pat)
		for _, m := range ms {
			if b, err := os.ReadFile(m); err == nil {
				corpus = append(corpus, b)
			}
		}
	}
	for _, k := range known {
		corpus = append(corpus, []byte(k))
	}
}

var ops = []string{"dat", "mov", "add", "sub", "mul", "div", "mod", "jmp", "jmz", "jmn", "djn", "cmp", "seq", "sne", "slt", "spl", "nop", "nop", "ldp"}
var ops88 = []string{"dat", "mov", "add", "sub", "jmp", "jmz", "jmn", "djn", "cmp", "slt", "spl"}
var mods = []string{"a", "b", "ab", "ba", "f", "x", "i"}
var modes = []string{"", "#", "$", "@", "<", ">", "*", "{", "}"}
var modes88 = []string{"", "#", "$", "@", "<"}

func num(rng *rand.Rand, size int) string {
	switch rng.Intn(8) {
	case 0:
		return strconv.Itoa(rng.Intn(10))
	case 1:
		return "-" + strconv.Itoa(rng.Intn(10))
	case 2:
		return strconv.Itoa(size/2 + rng.Intn(3) - 1)
	case 3:
		return strconv.Itoa(size + rng.Intn(5) - 2)
	case 4:
		return "-" + strconv.Itoa(size/2+rng.Intn(3))
	case 5:
		return []string{"CORESIZE", "MAXLENGTH", "MAXPROCESSES", "MINDISTANCE", "CORESIZE-1", "CORESIZE/2", "CORESIZE/2+1", "x", "lbl"}[rng.Intn(9)]
	case 6:
		return strconv.Itoa(rng.Intn(20000))
	default:
		return strconv.Itoa(rng.Intn(100) - 50)
	}
}

// a structured, mostly valid program
func genProg(rng *rand.Rand, legacy bool, size int, maxLen int) []byte {
	var sb strings.Builder
	n := rng.Intn(maxLen + 2)
	if rng.Intn(3) == 0 {
		n = 1 + rng.Intn(4)
	}
	if rng.Intn(4) == 0 {
		sb.WriteString(";redcode\n;name t\n")
	}
	if rng.Intn(3) == 0 {
		sb.WriteString("x equ " + strconv.Itoa(rng.Intn(9)) + "\n")
	} else if rng.Intn(5) == 0 {
		sb.WriteString("x equ 2\n")
	}
	haveLbl := false
	noNL := false
	if rng.Intn(4) == 0 && n > 0 {
		k := rng.Intn(n)
		if rng.Intn(8) == 0 {
			k = n
		}
		sb.WriteString("org " + strconv.Itoa(k) + "\n")
	}
	for i := 0; i < n; i++ {
		if !haveLbl && rng.Intn(3) == 0 {
			sb.WriteString("lbl ")
			haveLbl = true
		} else {
			sb.WriteString("    ")
		}
		o, ms := ops, modes
		if legacy && rng.Intn(25) != 0 {
			o, ms = ops88, modes88
		}
		op := o[rng.Intn(len(o))]
		if rng.Intn(2) == 0 {
			op = strings.ToUpper(op)
		}
		sb.WriteString(op)
		if !legacy && rng.Intn(2) == 0 || rng.Intn(12) == 0 {
			sb.WriteString("." + mods[rng.Intn(len(mods))])
		}
		sb.WriteString(" " + ms[rng.Intn(len(ms))] + num(rng, size))
		if rng.Intn(6) != 0 {
			sb.WriteString(", " + ms[rng.Intn(len(ms))] + num(rng, size))
		}
		if rng.Intn(7) == 0 {
			sb.WriteString(" ; c")
		}
		if i == n-1 && rng.Intn(6) == 0 {
			noNL = true
			break // no final newline
		}
		if rng.Intn(10) == 0 {
			sb.WriteString("\r\n")
		} else {
			sb.WriteString("\n")
		}
	}
	endSel := rng.Intn(6)
	if noNL {
		endSel = 5
	}
	switch endSel {
	case 0:
		sb.WriteString("end\n")
	case 1:
		if n > 0 {
			k := rng.Intn(n)
			if rng.Intn(8) == 0 {
				k = n
			}
			sb.WriteString("end " + strconv.Itoa(k) + "\n")
		}
	case 2:
		if haveLbl {
			sb.WriteString("end lbl\n")
		}
	}
	s := sb.String()
	if !haveLbl {
		s = strings.ReplaceAll(s, "lbl", "1")
	}
	if !strings.Contains(s, "x equ") {
		s = strings.ReplaceAll(s, "x", "2")
		s = strings.ReplaceAll(s, ".2", ".x")
	}
	return []byte(s)
}

var soupWords = []string{"dat", "mov", "jmp", "spl", "end", "org", "equ", "for", "rof", "x", "lbl", "start", "0", "1", "-1", "7", "4000",
	"CORESIZE", "#", "$", "@", "<", ">", "*", "{", "}", ",", ".", ".i", ".ab", "+", "-", "/", "%", "(", ")", ":", ";", ";assert 1", ";name", "\n", "\n", "\n", " ", "\t",
	"==", "!", "&&", "||", "=", "\r\n", "\x00", "é", "#1", "$0", "end 0"}

func soup(rng *rand.Rand) []byte {
	var sb strings.Builder
	n := rng.Intn(30)
	for i := 0; i < n; i++ {
		sb.WriteString(soupWords[rng.Intn(len(soupWords))])
		if rng.Intn(3) != 0 {
			sb.WriteByte(' ')
		}
	}
	return []byte(sb.String())
}

func mutate(rng *rand.Rand, b []byte) []byte {
	b = append([]byte(nil), b...)
	k := 1 + rng.Intn(3)
	for ; k > 0; k-- {
		switch rng.Intn(7) {
		case 0: // delete a byte
			if len(b) > 0 {
				i := rng.Intn(len(b))
				b = append(b[:i], b[i+1:]...)
			}
		case 1: // insert a word
			i := rng.Intn(len(b) + 1)
			w := []byte(soupWords[rng.Intn(len(soupWords))])
			b = append(b[:i], append(w, b[i:]...)...)
		case 2: // truncate
			if len(b) > 0 {
				b = b[:rng.Intn(len(b))]
			}
		case 3: // delete a line
			ls := bytes.Split(b, []byte("\n"))
			if len(ls) > 1 {
				i := rng.Intn(len(ls))
				ls = append(ls[:i], ls[i+1:]...)
				b = bytes.Join(ls, []byte("\n"))
			}
		case 4: // duplicate a line
			ls := bytes.Split(b, []byte("\n"))
			i := rng.Intn(len(ls))
			ls = append(ls[:i+1], ls[i:]...)
			b = bytes.Join(ls, []byte("\n"))
		case 5: // change a byte
			if len(b) > 0 {
				b[rng.Intn(len(b))] = byte(rng.Intn(256))
			}
		case 6: // swap two lines
			ls := bytes.Split(b, []byte("\n"))
			if len(ls) > 1 {
				i, j := rng.Intn(len(ls)), rng.Intn(len(ls))
				ls[i], ls[j] = ls[j], ls[i]
				b = bytes.Join(ls, []byte("\n"))
			}
		}
	}
	return b
}

type flags struct {
	use88            bool
	s, p, c, l       int64
	preset           string
	hasS, hasP, hasC bool
	hasL             bool
}

func errTag(s string) string {
	if i := strings.Index(s, "\n"); i >= 0 {
		s = s[:i]
	}
	if i := strings.Index(s, ".red':"); i >= 0 {
		s = s[i+6:]
	}
	if len(s) > 60 {
		s = s[:60]
	}
	s = strings.Map(func(r rune) rune {
		if r <= ' ' || r == '=' || r == '|' || r > '~' {
			return '_'
		}
		return r
	}, s)
	if s == "" {
		return "-"
	}
	return s
}

func hexf(b []byte, present bool) string {
	if !present {
		return "-"
	}
	if len(b) == 0 {
		return "e"
	}
	return hex.EncodeToString(b)
}

func main() {
	if len(os.Args) < 4 {
		fmt.Fprintln(os.Stderr, "usage: clilist <gmars> <count> <seed>")
		os.Exit(2)
	}
	bin := os.Args[1]
	count, _ := strconv.Atoi(os.Args[2])
	seed, _ := strconv.ParseInt(os.Args[3], 10, 64)
	rng := rand.New(rand.NewSource(seed))
	loadCorpus()
	dir, err := os.MkdirTemp("", "clilist")
	if err != nil {
		panic(err)
	}
	defer os.RemoveAll(dir)
	out := bufio.NewWriterSize(os.Stdout, 1<<20)
	defer out.Flush()

	presets := []string{"88", "icws", "nop94", "noptiny", "nop256", "nopnano", "88", "icws", "nop94", "noptiny", "nop256", "nopnano", "bogus", "NOP94", " 88"}
	for n := 0; n < count; n++ {
		f := flags{s: 8000, p: 8000, c: 80000, l: 100}
		f.use88 = rng.Intn(3) == 0
		if rng.Intn(2) == 0 {
			f.hasS = true
			switch rng.Intn(10) {
			case 0:
				f.s = int64(3 + rng.Intn(30))
			case 1:
				f.s = int64(rng.Intn(6)) // 0..2 invalid, 3.. minimal
			case 2:
				f.s = []int64{8192, 55440, 800, 80, 256, 100000, 1000000}[rng.Intn(7)]
			case 3:
				// around the runtime's allocation limit and the int64 / uint64 corners
				f.s = []int64{-1, -2, -8000, 7036874417766, 7036874417767, 7036874417768, 1 << 62, 1<<63 - 1, -1 << 63, 3 << 61, 1 << 48, 1 << 47}[rng.Intn(12)]
			case 4:
				f.s = int64(100 + rng.Intn(200))
			default:
				f.s = int64(10 + rng.Intn(20000))
			}
		}
		if rng.Intn(4) == 0 {
			f.hasL = true
			switch rng.Intn(10) {
			case 0:
				f.l = int64(rng.Intn(4))
			case 1:
				f.l = f.s/2 + int64(rng.Intn(3)) - 1 // l + l around s
			case 2:
				f.l = f.s + int64(rng.Intn(3)) - 1
			case 3:
				f.l = []int64{-1, 1 << 63 - 1, -1 << 63, 1 << 40}[rng.Intn(4)]
			default:
				f.l = int64(1 + rng.Intn(300))
			}
		} else if f.hasS && f.s >= 3 && f.s < 200 && rng.Intn(4) != 0 {
			// make the quick config valid for a small core
			f.hasL = true
			f.l = 1 + rng.Int63n(f.s/2)
		}
		if rng.Intn(6) == 0 {
			f.hasP = true
			f.p = []int64{1, 1, 2, 64, 8000, -1, 100000, 0}[rng.Intn(8)]
		}
		if rng.Intn(6) == 0 {
			f.hasC = true
			f.c = []int64{1, 1, 2, 100, 80000, -1, 0}[rng.Intn(7)]
		}
		if rng.Intn(5) == 0 {
			f.preset = presets[rng.Intn(len(presets))]
		}
		// the configuration the files are generated for (not necessarily what the tool uses)
		legacy := f.use88
		size, maxLen := int(f.s), int(f.l)
		switch f.preset {
		case "88":
			legacy, size, maxLen = true, 8000, 100
		case "icws":
			legacy, size, maxLen = true, 8192, 300
		case "nop94":
			legacy, size, maxLen = false, 8000, 100
		case "noptiny":
			legacy, size, maxLen = false, 800, 20
		case "nop256":
			legacy, size, maxLen = false, 256, 10
		case "nopnano":
			legacy, size, maxLen = false, 80, 5
		}
		if size < 3 || size > 1<<30 {
			size = 8000
		}
		if maxLen < 0 || maxLen > 40 {
			maxLen = 40
		}
		if rng.Intn(3) != 0 && maxLen > 6 {
			maxLen = 6
		}
		nfiles := 1 + rng.Intn(5)/3
		switch rng.Intn(50) {
		case 0:
			nfiles = 0
		case 1:
			nfiles = 3
		}
		var files [][]byte
		for i := 0; i < nfiles; i++ {
			var b []byte
			switch r := rng.Intn(20); {
			case r < 11:
				b = genProg(rng, legacy, size, maxLen)
			case r < 14:
				b = corpus[rng.Intn(len(corpus))]
			case r < 16:
				b = mutate(rng, corpus[rng.Intn(len(corpus))])
			case r < 18:
				b = mutate(rng, genProg(rng, legacy, size, maxLen))
			case r < 19:
				b = soup(rng)
			default:
				b = []byte{}
			}
			files = append(files, b)
		}
		// the command line: flags in a random order, -A anywhere, sometimes irrelevant flags
		var parts [][]string
		parts = append(parts, []string{"-A"})
		if f.use88 {
			parts = append(parts, []string{"-8"})
		}
		iv := func(name string, v int64) []string {
			if rng.Intn(2) == 0 {
				return []string{"-" + name + "=" + strconv.FormatInt(v, 10)}
			}
			return []string{"-" + name, strconv.FormatInt(v, 10)}
		}
		if f.hasS {
			parts = append(parts, iv("s", f.s))
		}
		if f.hasP {
			parts = append(parts, iv("p", f.p))
		}
		if f.hasC {
			parts = append(parts, iv("c", f.c))
		}
		if f.hasL {
			parts = append(parts, iv("l", f.l))
		}
		if f.preset != "" {
			parts = append(parts, []string{"-preset", f.preset})
		}
		if rng.Intn(8) == 0 {
			parts = append(parts, [][]string{{"-r", "3"}, {"-F", "200"}, {"-debug"}, {"--A"}, {"-8=false"}}[rng.Intn(5)])
			if parts[len(parts)-1][0] == "-8=false" {
				f.use88 = false
			}
		}
		rng.Shuffle(len(parts), func(i, j int) { parts[i], parts[j] = parts[j], parts[i] })
		if parts[len(parts)-1][0] == "-8=false" {
			// keep "-8=false" after a possible "-8": the last one wins
		} else {
			for i, p := range parts {
				if p[0] == "-8=false" {
					parts[i], parts[len(parts)-1] = parts[len(parts)-1], parts[i]
				}
			}
		}
		var args []string
		for _, p := range parts {
			args = append(args, p...)
		}
		for i, b := range files {
			p := filepath.Join(dir, fmt.Sprintf("w%d_%d.red", n%64, i))
			if err := os.WriteFile(p, b, 0o644); err != nil {
				panic(err)
			}
			args = append(args, p)
		}
		ctx, cancel := context.WithTimeout(context.Background(), 5*time.Second)
		cmd := exec.CommandContext(ctx, bin, args...)
		cmd.Env = append(os.Environ(), "GOMAXPROCS=1", "GOTRACEBACK=none")
		var so, se bytes.Buffer
		cmd.Stdout, cmd.Stderr = &so, &se
		rerr := cmd.Run()
		timedOut := ctx.Err() == context.DeadlineExceeded
		cancel()
		exit := 0
		if timedOut {
			exit = -2
		} else if ee, ok := rerr.(*exec.ExitError); ok {
			exit = ee.ExitCode()
		} else if rerr != nil {
			exit = -3
		}
		oom := 0
		if strings.Contains(se.String(), "out of memory") || strings.Contains(se.String(), "cannot allocate") {
			oom = 1
		}
		u88 := 0
		if f.use88 {
			u88 = 1
		}
		preset := f.preset
		if preset == "" {
			preset = "-"
		}
		preset = strings.ReplaceAll(preset, " ", "_SP_")
		hx := []string{"-", "-", "-"}
		for i, b := range files {
			hx[i] = hexf(b, true)
		}
		fmt.Fprintf(out, "Z c%d %d %d %d %d %d %s %s %s %s | exit=%d oom=%d out=%s err=%s\n", n, u88, f.s, f.p, f.c, f.l, preset,
			hx[0], hx[1], hx[2], exit, oom, hexf(so.Bytes(), so.Len() > 0), errTag(se.String()))
	}
}
