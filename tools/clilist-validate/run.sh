#!/bin/sh
# usage: run.sh <cases per seed> <seed>...   (sequential; one gmars process at a time)
cd /tmp/lw/clilist/scratch/clilist
n=$1; shift
for seed in "$@"; do
  ./clilist ../gmars $n $seed > cases_$seed.txt
  ../../.lake/build/bin/clilist-run < cases_$seed.txt > result_$seed.txt
  tail -1 result_$seed.txt
  if grep -q MISMATCH result_$seed.txt; then echo "seed $seed has mismatches"; else rm -f cases_$seed.txt; fi
done
