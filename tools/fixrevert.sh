#!/bin/bash
# tools/fixrevert.sh : for every "fix:" commit of /repo, re-introduce the defect (reverse-apply the
# commit), run the check of the property it belongs to, restore the tree. A fixed entry of
# KNOWN_FINDINGS.txt suppresses nothing, so each run must report a VIOLATION.
[ -n "$(git -C /repo status --porcelain)" ] && { echo "/repo not clean"; exit 2; }
grep '^fixed:' /verif/KNOWN_FINDINGS.txt | while read -r _ prop commit rest; do
  p=${prop#property=}
  git -C /repo show "$commit" | git -C /repo apply -R 2>/dev/null || { echo "revert $commit: does not apply cleanly (later fix touches the same lines)"; git -C /repo checkout -- .; continue; }
  out=$(cd /verif && timeout 1800 ./check $p quick 2>&1); rc=$?
  git -C /repo checkout -- .
  echo "revert $commit ($p) rc=$rc $(echo "$out" | grep -E 'VIOLATION' | head -1 | cut -c1-120)"
done
