#!/bin/bash
# tools/fixrevert2.sh : like fixrevert.sh, but on scratch worktrees (tools/seedrun2.sh) and in
# parallel: for every "fixed:" entry of KNOWN_FINDINGS.txt the fix commit is reverse-applied to a
# scratch copy of /repo's HEAD and the property's quick check must report a VIOLATION.
mkdir -p /tmp/fixrev
grep '^fixed:' /verif/KNOWN_FINDINGS.txt | while read -r _ prop commit rest; do
  p=${prop#property=}
  git -C /repo diff "$commit" "$commit~1" > /tmp/fixrev/$commit.diff
  echo "/tmp/fixrev/$commit.diff $p"
done | xargs -P ${PAR:-5} -L 1 bash -c '/verif/tools/seedrun2.sh $0 $1 | cut -c1-200'
rm -rf /tmp/fixrev
