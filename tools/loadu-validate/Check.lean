/-
  Lean side of the differential test of Gmars/Model/LoadU.lean: reads the lines written by
  scratch/loadu/gov (`<family> <mode> <coresize> <hex input> <result>`), runs `parseLoadFileU`
  and prints every mismatch, then the totals.
-/
import Gmars.Model.LoadU
open Gmars Gmars.GoStrU

def hexDigit (c : UInt8) : UInt8 :=
  if c ≥ 97 then c - 87 else if c ≥ 65 then c - 55 else c - 48

def unhex (s : String) : List UInt8 :=
  if s == "-" then [] else
  let b := s.toUTF8
  let n := b.size / 2
  (List.range n).map (fun i => hexDigit b[2*i]! * 16 + hexDigit b[2*i+1]!)

def hexChar (n : UInt8) : Char := Char.ofNat (if n < 10 then 48 + n.toNat else 87 + n.toNat)

def hexOf (b : List UInt8) : String :=
  if b.isEmpty then "-" else
  String.ofList (b.flatMap (fun x => [hexChar (x / 16), hexChar (x % 16)]))

def renderInstr (i : Instr) : String :=
  s!"{i.op.toNat}.{i.md.toNat}.{i.am.toNat}.{i.a.toNat}.{i.bm.toNat}.{i.b.toNat};"

def render : Except Panic LoadResultB → String
  | .error _ => "P"
  | .ok none => "E"
  | .ok (some w) =>
    let code := if w.code.isEmpty then "-" else String.join (w.code.toList.map renderInstr)
    s!"O {w.start} {hexOf w.name} {hexOf w.author} {hexOf w.strategy} {code}"

partial def loop (h : IO.FS.Stream) (n bad : Nat) : IO (Nat × Nat) := do
  let line ← h.getLine
  if line.isEmpty then return (n, bad)
  let line := String.ofList (line.toList.takeWhile (· != '\n'))
  match line.splitOn " " with
  | fam :: mode :: cs :: inp :: rest =>
    let expected := " ".intercalate rest
    let cfg : Config := { mode := if mode == "88" then .icws88 else .icws94,
                          coreSize := UInt64.ofNat cs.toNat! }
    let got := render (parseLoadFileU cfg (unhex inp))
    if got == expected then loop h (n + 1) bad
    else
      IO.println s!"MISMATCH {fam} {mode} {cs} {inp}\n  go:    {expected}\n  model: {got}"
      loop h (n + 1) (bad + 1)
  | _ =>
    IO.println s!"BAD LINE {line}"
    loop h (n + 1) (bad + 1)

def main : IO UInt32 := do
  let stdin ← IO.getStdin
  let (n, bad) ← loop stdin 0 0
  IO.println s!"cases {n} mismatches {bad}"
  return (if bad == 0 then 0 else 1)
