#!/bin/sh
# differential test of Gmars/Model/LoadU.lean against gmars.ParseLoadFile
# usage: scratch/loadu/run.sh [seed] [scale]      (from the Lean project root)
set -e
export GOFLAGS=-mod=mod GOPROXY=off GOSUMDB=off GOTOOLCHAIN=local
here=$(cd "$(dirname "$0")" && pwd)
root=$(cd "$here/../.." && pwd)
(cd "$here/gov" && cp -n /repo/go.sum . 2>/dev/null; go build -tags verif -o gov .)
(cd "$root" && lake build loadu-check)
"$here/gov/gov" tables
GOMAXPROCS=3 "$here/gov/gov" -seed "${1:-1}" -scale "${2:-1}" > "$here/cases.txt"
"$root/.lake/build/bin/loadu-check" < "$here/cases.txt" | tail -20
# core sizes >= 2^63 (outside the frozen parseAddress model): "$here/gov/gov" big | loadu-check
