#!/usr/bin/env python3
"""Regenerates /verif/MANIFEST.json from the table below."""
import json
PROPS = {
 "C01": ("one executed task = one step of the ICWS'94 reference interpreter", "Lean refinement theorems (model step = reference step; fold = reference fold) + correspondence of model, reference and code on all 7616 instruction forms"),
 "C02": ("round-robin scheduling, bounded FIFO queues, stop conditions", "Lean theorems on the bounded FIFO / scheduler reference + cycle-by-cycle correspondence of battles against the reference scheduler"),
 "C04": ("simulator invariant preserved by every operation; creation is refuse-or-sound", "Lean invariant theorems + correspondence with the invariant evaluated on every observed state"),
 "C11": ("locality of every folded pointer; full limits are no limits", "Lean theorems on the reference folding + correspondence with locality predicates on observed core diffs"),
 "C12": ("rotation equivariance; offsets congruent mod M", "Lean theorems on the reference semantics and on the model (also for a reused simulator after Reset) + paired shifted battles compared by the driver"),
 "C13": ("API state machine: no panics, rejected calls are no-ops, reset = fresh", "Lean theorems about the API model + exhaustive small-depth and random call sequences against the reference state machine"),
 "C15": ("reports cover every change at valid addresses; recorder = last-writer fold", "Lean theorems about reports/recorder and about the debug reporter's lines + per-task report predicates on observed report streams; the debug reporter's output compared line by line"),
}
import sys
extra = {}
try:
    extra = json.load(open('/verif/tools/manifest_extra.json'))
except Exception:
    pass
PROPS.update({k: tuple(v) for k, v in extra.items()})
checks=[]
for pid,(txt,tech) in sorted(PROPS.items()):
    checks.append({
      "property_id": pid,
      "quick_cmd": "./check %s quick" % pid,
      "thorough_cmd": "./check %s thorough" % pid,
      "evidence_file": "/verif/evidence/%s.json" % pid,
      "replay_cmd_template": "./check %s --replay {path}" % pid,
      "engine": "lean-model-correspondence",
      "level_claimed": {"category": "proof", "text": "Machine-checked Lean 4 theorems about a hand-written executable model of the Go code (%s), tied to /repo on every run by a correspondence check that runs model, reference and implementation on the same generated cases and decides both the tie and the property predicate in Lean. The theorems proved so far and the part of the full statement still open are listed in Props/%s.lean and DESIGN.md." % (txt, pid), "design_ref": "DESIGN.md section 5 (%s)" % pid},
      "level_note": "Trusted: Lean kernel (+ propext, Classical.choice, Quot.sound), the hand-written model and its correspondence run (Go harness, Lean driver), the Spec definitions as the meaning of the property, Go toolchain/runtime. The theorems are about the model; the code is related to it only through the correspondence run.",
      "technique": tech,
    })
na = [{"property_id": "C%02d" % i, "reason": "check not built yet in this session (claimed once its model, theorems and correspondence domain land)"} for i in range(1,18) if "C%02d" % i not in PROPS]
m = {"version": 1,
     "setup_cmd": "cd /verif/lean && lake build Gmars gmars-driver " + " ".join("Gmars.Props.%s" % p for p in sorted(PROPS)),
     "hooks": {"guard": "verif", "enable": "go build -tags verif (harness module with replace github.com/bobertlo/gmars => /repo)", "baseline_off_cmd": "cd /repo && GOFLAGS=-mod=mod GOPROXY=off GOSUMDB=off GOTOOLCHAIN=local go test -vet=off -count=1 .", "source_commits": ["b4d7ed12e51853657c79624ffc61432e379418dd"], "add_only": True},
     "engines": [{"name": "lean-model-correspondence", "path": "/verif/lean + /verif/harness + /verif/check", "serves_properties": sorted(PROPS), "kind_free_text": "Lean 4 model/spec/theorems; Go harness drives the real code; compiled Lean driver decides tie and property"}],
     "checks": checks, "not_applicable": na,
     "notes": "See DESIGN.md. KNOWN_FINDINGS.txt lists fixed defects (fix: commits in /repo) and recorded findings."}
json.dump(m, open('/verif/MANIFEST.json','w'), indent=1)
print("manifest:", len(checks), "checks,", len(na), "not applicable")
