#!/bin/bash
# tools/seedrun.sh <seed id> <property>...  : apply the seeded change to /repo, run the quick
# checks, undo the change straight afterwards. Prints one line per check.
id=$1; shift
[ -n "$(git -C /repo status --porcelain)" ] && { echo "/repo not clean"; exit 2; }
git -C /repo apply /verif/seeded/$id/patch.diff || exit 2
trap 'git -C /repo checkout -- . ; git -C /repo clean -fdq' EXIT
for p in "$@"; do
  out=$(cd /verif && timeout 1800 ./check $p ${TIER:-quick} 2>&1); rc=$?
  echo "seed=$id check=$p rc=$rc $(echo "$out" | grep -E 'VIOLATION|KNOWN' | head -2 | tr '\n' ' ')"
done
