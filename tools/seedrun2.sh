#!/bin/bash
# tools/seedrun2.sh <dir with patch.diff | patch file> <property>...
# Like seedrun.sh but never touches /repo: the change is applied to a scratch worktree of /repo's
# HEAD and the check is pointed at it (VERIF_REPO_OVERRIDE); evidence goes to a scratch directory.
# Several of these can run in parallel. Prints one line per check.
src=$(readlink -f "$1"); shift
[ -d "$src" ] && patch="$src/patch.diff" || patch="$src"
export GOFLAGS=-mod=mod GOPROXY=off GOSUMDB=off GOTOOLCHAIN=local
wt=$(mktemp -d /tmp/srwt-XXXXXX); ev=$(mktemp -d /tmp/srev-XXXXXX)
git -C /repo worktree add -q --detach "$wt" HEAD || exit 2
trap 'git -C /repo worktree remove --force "$wt" >/dev/null 2>&1; rm -rf "$wt" "$ev"' EXIT
if [ -s "$patch" ]; then git -C "$wt" apply "$patch" || { echo "seed=$src patch does not apply"; exit 2; }; fi
for p in "$@"; do
  out=$(cd /verif && VERIF_REPO_OVERRIDE="$wt" VERIF_EVIDENCE_DIR="$ev" timeout 3600 ./check $p ${TIER:-quick} 2>&1); rc=$?
  echo "seed=$(basename $src) check=$p rc=$rc $(echo "$out" | grep -E 'VIOLATION|KNOWN' | head -2 | cut -c1-300 | tr '\n' ' ')"
  if [ -n "$KEEP" ]; then mkdir -p "$KEEP"; cp -r "$ev" "$KEEP/$(basename $src)-$p"; fi
done
