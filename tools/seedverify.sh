#!/bin/bash
# tools/seedverify.sh <src dir with patch.diff + demo_test.go|demo.sh + meta.json> <seed id>
# Confirms in a scratch worktree of /repo: suite passes with the patch, demo fails with it,
# demo passes without it. On success copies the seed to /verif/seeded/<id>/.
set -u
src=$1; id=$2
export GOFLAGS=-mod=mod GOPROXY=off GOSUMDB=off GOTOOLCHAIN=local
wt=$(mktemp -d /tmp/seedwt-XXXX)
git -C /repo worktree add -q --detach "$wt" HEAD || exit 2
cleanup() { git -C /repo worktree remove --force "$wt" >/dev/null 2>&1; rm -rf "$wt"; }
trap cleanup EXIT
cd "$wt"
rundemo() {
  if [ -f "$src/demo_test.go" ]; then
    cp "$src/demo_test.go" ./zz_seed_demo_test.go
    timeout 300 go test -vet=off -count=1 -timeout 120s -run TestSeedDemo . >/tmp/seeddemo.$$ 2>&1; rc=$?
    rm -f ./zz_seed_demo_test.go
  else
    timeout 300 bash "$src/demo.sh" "$wt" >/tmp/seeddemo.$$ 2>&1; rc=$?
  fi
  return $rc
}
rundemo; base_demo=$?
git apply "$src/patch.diff" || { echo "$id: patch does not apply"; exit 1; }
timeout 600 go test -vet=off -count=1 -timeout 300s . >/tmp/seedsuite.$$ 2>&1; suite=$?
go build ./cmd/gmars >/dev/null 2>&1; build=$?; rm -f gmars
rundemo; mut_demo=$?
echo "$id: demo on HEAD rc=$base_demo; with patch: suite rc=$suite build rc=$build demo rc=$mut_demo"
if [ $base_demo -eq 0 ] && [ $suite -eq 0 ] && [ $build -eq 0 ] && [ $mut_demo -ne 0 ]; then
  mkdir -p /verif/seeded/$id
  cp "$src/patch.diff" /verif/seeded/$id/
  [ -f "$src/demo_test.go" ] && cp "$src/demo_test.go" /verif/seeded/$id/demo_test.go.txt
  [ -f "$src/demo.sh" ] && cp "$src/demo.sh" /verif/seeded/$id/
  cp "$src/meta.json" /verif/seeded/$id/meta.json
  echo "$id: CONFIRMED"
else
  echo "$id: NOT CONFIRMED"; tail -5 /tmp/seeddemo.$$
fi
rm -f /tmp/seeddemo.$$ /tmp/seedsuite.$$
